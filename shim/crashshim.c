/*
 * crashshim - LD_PRELOAD "kill here" shim for property C10 (crash-atomic retain save).
 *
 * The shim interposes the libc entry points through which a process changes files
 * (open/openat/creat, write/pwrite/writev/pwritev, ftruncate/truncate, fsync/fdatasync,
 * rename/renameat/renameat2, unlink/unlinkat, link/linkat, symlink/symlinkat,
 * mkdir/mkdirat/rmdir, fallocate/posix_fallocate, copy_file_range, sendfile, close;
 * each with its *64 alias). It is inert until the process "arms" it by trying to open the
 * magic path CRASHSHIM_ARM (which never exists); from then on every interposed call on a
 * descriptor > 2 is numbered 1, 2, 3, ... and logged, and the process is terminated with
 * _exit(137) - no atexit handlers, no buffered data flushed, like SIGKILL -
 *
 *   CRASHSHIM_MODE=before   immediately before call number CRASHSHIM_K is executed
 *   CRASHSHIM_MODE=after    immediately after call number K has been executed
 *   CRASHSHIM_MODE=partial  (write-type calls only) after only the first CRASHSHIM_P bytes
 *                           of call number K have been written; on other calls = before
 *
 * CRASHSHIM_K unset or 0: count and log only. Opening CRASHSHIM_DISARM stops the counting
 * (so that process tear-down is not part of the enumerated sequence) and logs "DONE n".
 * CRASHSHIM_LOG=<path>: one line per numbered call: "<n> <name> <fd> <len> <path>".
 *
 * All real work is done through syscall(2) directly, so the shim neither recurses into
 * itself nor depends on dlsym. Linux x86_64/aarch64 only.
 */
#define _GNU_SOURCE
#include <errno.h>
#include <fcntl.h>
#include <stdarg.h>
#include <stdint.h>
#include <stdlib.h>
#include <string.h>
#include <sys/syscall.h>
#include <sys/types.h>
#include <sys/uio.h>
#include <unistd.h>

#define CRASHSHIM_ARM "/.crashshim/arm"
#define CRASHSHIM_DISARM "/.crashshim/disarm"

static volatile int armed = 0;
static volatile long counter = 0;
static int log_fd = -1;
static long kill_at = 0;    /* 0 = never */
static int kill_mode = 0;   /* 0 before, 1 after, 2 partial */
static long partial_bytes = 0;

static void log_str(const char *s) {
  if (log_fd >= 0) {
    size_t n = strlen(s);
    while (n > 0) {
      long w = syscall(SYS_write, log_fd, s, n);
      if (w <= 0) break;
      s += w;
      n -= (size_t)w;
    }
  }
}

static void log_num(long v) {
  char buf[32];
  int i = 31;
  int neg = v < 0;
  unsigned long u = neg ? (unsigned long)(-(v + 1)) + 1UL : (unsigned long)v;
  buf[i] = 0;
  do {
    buf[--i] = (char)('0' + (u % 10));
    u /= 10;
  } while (u && i > 1);
  if (neg) buf[--i] = '-';
  log_str(buf + i);
}

static void do_arm(void) {
  int saved = errno;
  const char *k = getenv("CRASHSHIM_K");
  const char *m = getenv("CRASHSHIM_MODE");
  const char *p = getenv("CRASHSHIM_P");
  const char *l = getenv("CRASHSHIM_LOG");
  kill_at = k ? atol(k) : 0;
  kill_mode = 0;
  if (m && strcmp(m, "after") == 0) kill_mode = 1;
  if (m && strcmp(m, "partial") == 0) kill_mode = 2;
  partial_bytes = p ? atol(p) : 0;
  if (partial_bytes < 0) partial_bytes = 0;
  if (l && *l) {
    log_fd = (int)syscall(SYS_openat, AT_FDCWD, l, O_WRONLY | O_CREAT | O_APPEND | O_CLOEXEC, 0644);
  }
  counter = 0;
  armed = 1;
  log_str("ARMED\n");
  errno = saved;
}

static void do_disarm(void) {
  int saved = errno;
  if (armed) {
    armed = 0;
    log_str("DONE ");
    log_num(counter);
    log_str("\n");
  }
  errno = saved;
}

static void die(long n, const char *how) {
  log_str("KILL ");
  log_num(n);
  log_str(" ");
  log_str(how);
  log_str("\n");
  _exit(137);
}

/* Returns 0 when the call is not numbered, else its number. Kills for mode "before"
 * (and "partial" on a call that cannot be partial). */
static long enter(const char *name, int fd, long len, const char *path, int can_partial) {
  if (!armed) return 0;
  if (fd >= 0 && fd <= 2) return 0;
  if (fd >= 0 && fd == log_fd) return 0;
  int saved = errno;
  long n = __sync_add_and_fetch(&counter, 1);
  log_num(n);
  log_str(" ");
  log_str(name);
  log_str(" ");
  log_num(fd);
  log_str(" ");
  log_num(len);
  log_str(" ");
  log_str(path ? path : "-");
  log_str("\n");
  if (kill_at > 0 && n == kill_at) {
    if (kill_mode == 0 || (kill_mode == 2 && !can_partial)) die(n, "before");
  }
  errno = saved;
  return n;
}

static void leave(long n) {
  if (n > 0 && kill_at > 0 && n == kill_at && kill_mode == 1) die(n, "after");
}

static int is_partial(long n) { return n > 0 && kill_at > 0 && n == kill_at && kill_mode == 2; }

static int magic(const char *path) {
  if (!path) return 0;
  if (strcmp(path, CRASHSHIM_ARM) == 0) {
    do_arm();
    errno = ENOENT;
    return 1;
  }
  if (strcmp(path, CRASHSHIM_DISARM) == 0) {
    do_disarm();
    errno = ENOENT;
    return 1;
  }
  return 0;
}

/* ---- open family ---- */
static int open_common(const char *name, int dirfd, const char *path, int flags, mode_t mode) {
  if (magic(path)) return -1;
  long n = enter(name, -1, 0, path, 0);
  int r = (int)syscall(SYS_openat, dirfd, path, flags, mode);
  leave(n);
  return r;
}

#define OPEN_MODE(flags, mode)                         \
  do {                                                 \
    if (((flags)&O_CREAT) || ((flags)&O_TMPFILE) == O_TMPFILE) { \
      va_list ap;                                      \
      va_start(ap, flags);                             \
      mode = (mode_t)va_arg(ap, int);                  \
      va_end(ap);                                      \
    }                                                  \
  } while (0)

int open(const char *path, int flags, ...) {
  mode_t mode = 0;
  OPEN_MODE(flags, mode);
  return open_common("open", AT_FDCWD, path, flags, mode);
}
int open64(const char *path, int flags, ...) {
  mode_t mode = 0;
  OPEN_MODE(flags, mode);
  return open_common("open", AT_FDCWD, path, flags | O_LARGEFILE, mode);
}
int openat(int dirfd, const char *path, int flags, ...) {
  mode_t mode = 0;
  OPEN_MODE(flags, mode);
  return open_common("openat", dirfd, path, flags, mode);
}
int openat64(int dirfd, const char *path, int flags, ...) {
  mode_t mode = 0;
  OPEN_MODE(flags, mode);
  return open_common("openat", dirfd, path, flags | O_LARGEFILE, mode);
}
int creat(const char *path, mode_t mode) {
  return open_common("creat", AT_FDCWD, path, O_CREAT | O_WRONLY | O_TRUNC, mode);
}
int creat64(const char *path, mode_t mode) {
  return open_common("creat", AT_FDCWD, path, O_CREAT | O_WRONLY | O_TRUNC | O_LARGEFILE, mode);
}

/* ---- write family ---- */
ssize_t write(int fd, const void *buf, size_t len) {
  long n = enter("write", fd, (long)len, NULL, 1);
  if (is_partial(n)) {
    size_t p = (size_t)partial_bytes < len ? (size_t)partial_bytes : len;
    if (p > 0) syscall(SYS_write, fd, buf, p);
    die(n, "partial");
  }
  ssize_t r = syscall(SYS_write, fd, buf, len);
  leave(n);
  return r;
}

static ssize_t pwrite_common(int fd, const void *buf, size_t len, off_t off) {
  long n = enter("pwrite", fd, (long)len, NULL, 1);
  if (is_partial(n)) {
    size_t p = (size_t)partial_bytes < len ? (size_t)partial_bytes : len;
    if (p > 0) syscall(SYS_pwrite64, fd, buf, p, off);
    die(n, "partial");
  }
  ssize_t r = syscall(SYS_pwrite64, fd, buf, len, off);
  leave(n);
  return r;
}
ssize_t pwrite(int fd, const void *buf, size_t len, off_t off) { return pwrite_common(fd, buf, len, off); }
ssize_t pwrite64(int fd, const void *buf, size_t len, off_t off) { return pwrite_common(fd, buf, len, off); }

static long iov_total(const struct iovec *iov, int cnt) {
  long t = 0;
  for (int i = 0; i < cnt; i++) t += (long)iov[i].iov_len;
  return t;
}

/* write the first `p` bytes described by iov (plain write / pwrite per segment) */
static void iov_prefix(int fd, const struct iovec *iov, int cnt, size_t p, int positional, off_t off) {
  for (int i = 0; i < cnt && p > 0; i++) {
    size_t take = iov[i].iov_len < p ? iov[i].iov_len : p;
    if (take > 0) {
      if (positional) {
        syscall(SYS_pwrite64, fd, iov[i].iov_base, take, off);
        off += (off_t)take;
      } else {
        syscall(SYS_write, fd, iov[i].iov_base, take);
      }
    }
    p -= take;
  }
}

ssize_t writev(int fd, const struct iovec *iov, int cnt) {
  long total = iov_total(iov, cnt);
  long n = enter("writev", fd, total, NULL, 1);
  if (is_partial(n)) {
    size_t p = partial_bytes < total ? (size_t)partial_bytes : (size_t)total;
    iov_prefix(fd, iov, cnt, p, 0, 0);
    die(n, "partial");
  }
  ssize_t r = syscall(SYS_writev, fd, iov, cnt);
  leave(n);
  return r;
}

static ssize_t pwritev_common(int fd, const struct iovec *iov, int cnt, off_t off) {
  long total = iov_total(iov, cnt);
  long n = enter("pwritev", fd, total, NULL, 1);
  if (is_partial(n)) {
    size_t p = partial_bytes < total ? (size_t)partial_bytes : (size_t)total;
    iov_prefix(fd, iov, cnt, p, 1, off);
    die(n, "partial");
  }
  ssize_t r = syscall(SYS_pwritev, fd, iov, cnt, (unsigned long)off, (unsigned long)(((uint64_t)off) >> 32));
  leave(n);
  return r;
}
ssize_t pwritev(int fd, const struct iovec *iov, int cnt, off_t off) { return pwritev_common(fd, iov, cnt, off); }
ssize_t pwritev64(int fd, const struct iovec *iov, int cnt, off_t off) { return pwritev_common(fd, iov, cnt, off); }

/* ---- size / durability ---- */
int ftruncate(int fd, off_t len) {
  long n = enter("ftruncate", fd, (long)len, NULL, 0);
  int r = (int)syscall(SYS_ftruncate, fd, len);
  leave(n);
  return r;
}
int ftruncate64(int fd, off_t len) {
  long n = enter("ftruncate", fd, (long)len, NULL, 0);
  int r = (int)syscall(SYS_ftruncate, fd, len);
  leave(n);
  return r;
}
int truncate(const char *path, off_t len) {
  long n = enter("truncate", -1, (long)len, path, 0);
  int r = (int)syscall(SYS_truncate, path, len);
  leave(n);
  return r;
}
int truncate64(const char *path, off_t len) {
  long n = enter("truncate", -1, (long)len, path, 0);
  int r = (int)syscall(SYS_truncate, path, len);
  leave(n);
  return r;
}
int fsync(int fd) {
  long n = enter("fsync", fd, 0, NULL, 0);
  int r = (int)syscall(SYS_fsync, fd);
  leave(n);
  return r;
}
int fdatasync(int fd) {
  long n = enter("fdatasync", fd, 0, NULL, 0);
  int r = (int)syscall(SYS_fdatasync, fd);
  leave(n);
  return r;
}
int fallocate(int fd, int mode, off_t off, off_t len) {
  long n = enter("fallocate", fd, (long)len, NULL, 0);
  int r = (int)syscall(SYS_fallocate, fd, mode, off, len);
  leave(n);
  return r;
}
int fallocate64(int fd, int mode, off_t off, off_t len) {
  long n = enter("fallocate", fd, (long)len, NULL, 0);
  int r = (int)syscall(SYS_fallocate, fd, mode, off, len);
  leave(n);
  return r;
}
int posix_fallocate(int fd, off_t off, off_t len) {
  long n = enter("posix_fallocate", fd, (long)len, NULL, 0);
  long r = syscall(SYS_fallocate, fd, 0, off, len);
  int e = r == 0 ? 0 : errno;
  leave(n);
  return e;
}
int posix_fallocate64(int fd, off_t off, off_t len) {
  long n = enter("posix_fallocate", fd, (long)len, NULL, 0);
  long r = syscall(SYS_fallocate, fd, 0, off, len);
  int e = r == 0 ? 0 : errno;
  leave(n);
  return e;
}

/* ---- names ---- */
int rename(const char *from, const char *to) {
  long n = enter("rename", -1, 0, to, 0);
  int r = (int)syscall(SYS_renameat, AT_FDCWD, from, AT_FDCWD, to);
  leave(n);
  return r;
}
int renameat(int fd1, const char *from, int fd2, const char *to) {
  long n = enter("renameat", -1, 0, to, 0);
  int r = (int)syscall(SYS_renameat, fd1, from, fd2, to);
  leave(n);
  return r;
}
int renameat2(int fd1, const char *from, int fd2, const char *to, unsigned int flags) {
  long n = enter("renameat2", -1, 0, to, 0);
  int r = (int)syscall(SYS_renameat2, fd1, from, fd2, to, flags);
  leave(n);
  return r;
}
int unlink(const char *path) {
  long n = enter("unlink", -1, 0, path, 0);
  int r = (int)syscall(SYS_unlinkat, AT_FDCWD, path, 0);
  leave(n);
  return r;
}
int unlinkat(int dirfd, const char *path, int flags) {
  long n = enter("unlinkat", -1, 0, path, 0);
  int r = (int)syscall(SYS_unlinkat, dirfd, path, flags);
  leave(n);
  return r;
}
int rmdir(const char *path) {
  long n = enter("rmdir", -1, 0, path, 0);
  int r = (int)syscall(SYS_unlinkat, AT_FDCWD, path, AT_REMOVEDIR);
  leave(n);
  return r;
}
int link(const char *from, const char *to) {
  long n = enter("link", -1, 0, to, 0);
  int r = (int)syscall(SYS_linkat, AT_FDCWD, from, AT_FDCWD, to, 0);
  leave(n);
  return r;
}
int linkat(int fd1, const char *from, int fd2, const char *to, int flags) {
  long n = enter("linkat", -1, 0, to, 0);
  int r = (int)syscall(SYS_linkat, fd1, from, fd2, to, flags);
  leave(n);
  return r;
}
int symlink(const char *target, const char *path) {
  long n = enter("symlink", -1, 0, path, 0);
  int r = (int)syscall(SYS_symlinkat, target, AT_FDCWD, path);
  leave(n);
  return r;
}
int symlinkat(const char *target, int dirfd, const char *path) {
  long n = enter("symlinkat", -1, 0, path, 0);
  int r = (int)syscall(SYS_symlinkat, target, dirfd, path);
  leave(n);
  return r;
}
int mkdir(const char *path, mode_t mode) {
  long n = enter("mkdir", -1, 0, path, 0);
  int r = (int)syscall(SYS_mkdirat, AT_FDCWD, path, mode);
  leave(n);
  return r;
}
int mkdirat(int dirfd, const char *path, mode_t mode) {
  long n = enter("mkdirat", -1, 0, path, 0);
  int r = (int)syscall(SYS_mkdirat, dirfd, path, mode);
  leave(n);
  return r;
}

/* ---- bulk copies (counted; no partial variant) ---- */
ssize_t copy_file_range(int fd_in, off_t *off_in, int fd_out, off_t *off_out, size_t len, unsigned int flags) {
  long n = enter("copy_file_range", fd_out, (long)len, NULL, 0);
  ssize_t r = syscall(SYS_copy_file_range, fd_in, off_in, fd_out, off_out, len, flags);
  leave(n);
  return r;
}
ssize_t sendfile(int out_fd, int in_fd, off_t *off, size_t len) {
  long n = enter("sendfile", out_fd, (long)len, NULL, 0);
  ssize_t r = syscall(SYS_sendfile, out_fd, in_fd, off, len);
  leave(n);
  return r;
}
ssize_t sendfile64(int out_fd, int in_fd, off_t *off, size_t len) {
  long n = enter("sendfile", out_fd, (long)len, NULL, 0);
  ssize_t r = syscall(SYS_sendfile, out_fd, in_fd, off, len);
  leave(n);
  return r;
}

/* ---- close ---- */
int close(int fd) {
  long n = enter("close", fd, 0, NULL, 0);
  int r = (int)syscall(SYS_close, fd);
  leave(n);
  return r;
}
