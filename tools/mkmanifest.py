#!/usr/bin/env python3
"""Regenerate MANIFEST.json from manifest.d/<ID>.json fragments.
Fragment: {"category","text","design_ref","level_note","technique","engine"?}.
Properties without a fragment go to not_applicable with the reason in manifest.d/NA.json (or a default)."""
import json, os, subprocess
R = '/verif'
ids = [json.loads(l)['id'] for l in open(f'{R}/properties.jsonl')]
base = json.load(open(f'{R}/MANIFEST.json'))
na_reasons = {}
if os.path.exists(f'{R}/manifest.d/NA.json'):
    na_reasons = json.load(open(f'{R}/manifest.d/NA.json'))
checks, na = [], []
for i in ids:
    p = f'{R}/manifest.d/{i}.json'
    if os.path.exists(p):
        f = json.load(open(p))
        checks.append({
            "property_id": i,
            "quick_cmd": f"./check {i} quick",
            "thorough_cmd": f"./check {i} thorough",
            "evidence_file": f"evidence/{i}.json",
            "replay_cmd_template": f"./check {i} --replay {{path}}",
            "engine": f.get("engine", "tpv"),
            "level_claimed": {"category": f["category"], "text": f["text"], "design_ref": f.get("design_ref", f"DESIGN.md §4 {i}")},
            "level_note": f["level_note"],
            "technique": f["technique"],
        })
    else:
        na.append({"property_id": i, "reason": na_reasons.get(i, "check not built yet (work in progress; see DESIGN.md §7 for the order)")})
base['checks'] = checks
base['not_applicable'] = na
for e in base.get('engines', []):
    if e['name'] == 'tpv':
        e['serves_properties'] = [c['property_id'] for c in checks if c['engine'] == 'tpv']
hooks = subprocess.run(['git', '-C', '/repo', 'log', '--format=%H %s'], capture_output=True, text=True).stdout.splitlines()
base['hooks']['source_commits'] = [l.split()[0] for l in hooks if l.split(' ', 1)[1].startswith('verif hook')][::-1]
json.dump(base, open(f'{R}/MANIFEST.json', 'w'), indent=1, ensure_ascii=False)
print('checks:', [c['property_id'] for c in checks]); print('n/a:', [n['property_id'] for n in na])
