#!/bin/bash
# tools/seed_confirm.sh <candidate-dir> <name>
# Lead-side confirmation of one seeded change (patch.diff + demo_test.rs + meta.json) in a scratch
# worktree of /repo HEAD: (1) demo passes without the change, (2) patch applies and compiles,
# (3) demo fails with the change, (4) the affected crate's existing tests still pass with the change
# (known flaky/always-failing baseline tests tolerated). Writes <candidate-dir>/confirm.json and log.
# On success the candidate is copied to /verif/seeded/<name>/.
set -u
C="${1:?candidate dir}"; NAME="${2:?name}"
export CARGO_NET_OFFLINE=true CARGO_BUILD_JOBS=${CARGO_BUILD_JOBS:-10} CARGO_PROFILE_DEV_DEBUG=0 CARGO_PROFILE_TEST_DEBUG=0 CARGO_INCREMENTAL=0
S=${SEEDCONF_DIR:-/tmp/seedconf}; WT=$S/wt; export CARGO_TARGET_DIR=$S/target
LOG=$C/confirm.log; : > $LOG
mkdir -p $S
git -C /repo worktree remove --force $WT 2>/dev/null; rm -rf $WT
git -C /repo worktree add -q --detach $WT HEAD || exit 2
cp /repo/Cargo.lock $WT/
DEMO=$(ls $C/*.rs 2>/dev/null | grep -v unit_test_snippet | head -1)
if [ -z "$DEMO" ] && [ -f $C/demo.py ]; then git -C /repo worktree remove --force $WT; exec /verif/tools/seed_confirm_py.sh "$C" "$NAME"; fi
[ -n "$DEMO" ] || { echo "no rust demo in $C; confirm by hand" | tee -a $LOG; exit 2; }
CRATE=$(python3 - "$C" <<'PY'
import json,re,sys
m=json.load(open(sys.argv[1]+'/meta.json'))
s=json.dumps(m)
r=re.search(r'-p\s+(trust-[a-z]+)',s)
if r: print(r.group(1))
else:
    r=re.search(r'crates/(trust-[a-z]+)',s); print(r.group(1) if r else 'trust-runtime')
PY
)
T=seeddemo_$(echo $NAME | tr 'A-Z-' 'a-z_')
cp "$DEMO" $WT/crates/$CRATE/tests/$T.rs
FLAKY='web_ide_shell_serves_local_hashed_assets_without_cdn_dependency|hmi_descriptor_watcher_handles_rapid_file_changes_without_deadlock|latency_and_resource_budgets_are_enforced|web_ide_latency_and_resource_budget_contract|web_ide_reference_performance_gates_contract|ci_run_all_tests_scales_roughly_linearly_for_small_projects|breakpoint_set_while_running_hits_on_subsequent_cycle|hmi_polling_stays_under_cycle_budget|hmi_websocket_value_push_meets_local_latency_slo'
cd $WT
echo "== demo without change" >> $LOG
cargo nextest run -p $CRATE --offline --no-fail-fast --test $T >> $LOG 2>&1; D0=$?
git apply $C/patch.diff >> $LOG 2>&1 || { echo "PATCH DOES NOT APPLY" | tee -a $LOG; A=1; }
A=${A:-0}
echo "== demo with change" >> $LOG
cargo nextest run -p $CRATE --offline --no-fail-fast --test $T >> $LOG 2>&1; D1=$?
rm -f $WT/crates/$CRATE/tests/$T.rs
echo "== existing tests with change" >> $LOG
timeout 2400 cargo nextest run -p $CRATE --offline --no-fail-fast -E "not test(breakpoint_set_while_running_hits_on_subsequent_cycle)" > $C/confirm-suite.log 2>&1; SUITE=$?
FAILS=$(grep -E "^\s+(FAIL|TIMEOUT|SIGABRT|SIGSEGV)" $C/confirm-suite.log | sed -E 's/.*\] +//' | sort -u | grep -vE "$FLAKY")
SUMMARY=$(grep -E "Summary" $C/confirm-suite.log | tail -1)
OK=false
if [ $A = 0 ] && [ $D0 = 0 ] && [ $D1 != 0 ] && [ -z "$FAILS" ] && [ -n "$SUMMARY" ]; then OK=true; fi
python3 - "$C" "$NAME" "$OK" "$D0" "$D1" "$A" "$SUMMARY" "$FAILS" "$(git -C /repo rev-parse --short HEAD)" <<'PY'
import json,sys
c,name,ok,d0,d1,a,summary,fails,head=sys.argv[1:10]
json.dump({"name":name,"confirmed":ok=="true","repo_head":head,"patch_applies":a=="0","demo_passes_without_change":d0=="0","demo_fails_with_change":d1!="0","existing_suite_with_change":summary.strip(),"unexpected_failures":fails.split("\n") if fails else []},open(c+"/confirm.json","w"),indent=1)
PY
cd /; git -C /repo worktree remove --force $WT
echo "== $NAME confirmed=$OK (applies=$A demo0=$D0 demo1=$D1) $SUMMARY ${FAILS:+UNEXPECTED: $FAILS}" | tee -a $LOG
if $OK; then mkdir -p /verif/seeded/$NAME && cp $C/patch.diff $C/meta.json $C/confirm.json "$DEMO" /verif/seeded/$NAME/; fi
$OK
