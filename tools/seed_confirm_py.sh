#!/bin/bash
# tools/seed_confirm_py.sh <candidate-dir> <name>: like seed_confirm.sh for a demo.py that drives the
# trust-lsp binary over stdio (argument: path of the binary; exit 0 = pass).
set -u
C="${1:?}"; NAME="${2:?}"
export CARGO_NET_OFFLINE=true CARGO_BUILD_JOBS=${CARGO_BUILD_JOBS:-10} CARGO_PROFILE_DEV_DEBUG=0 CARGO_PROFILE_TEST_DEBUG=0 CARGO_INCREMENTAL=0
S=${SEEDCONF_DIR:-/tmp/seedconf}; WT=$S/wt; export CARGO_TARGET_DIR=$S/target
LOG=$C/confirm.log; : > $LOG
git -C /repo worktree remove --force $WT 2>/dev/null; rm -rf $WT
git -C /repo worktree add -q --detach $WT HEAD || exit 2
cp /repo/Cargo.lock $WT/
cd $WT
cargo build -p trust-lsp --offline >> $LOG 2>&1
python3 $C/demo.py $CARGO_TARGET_DIR/debug/trust-lsp >> $LOG 2>&1; D0=$?
A=0; git apply $C/patch.diff >> $LOG 2>&1 || A=1
cargo build -p trust-lsp --offline >> $LOG 2>&1
python3 $C/demo.py $CARGO_TARGET_DIR/debug/trust-lsp >> $LOG 2>&1; D1=$?
cargo nextest run -p trust-lsp --offline --no-fail-fast > $C/confirm-suite.log 2>&1
FAILS=$(grep -E "^\s+(FAIL|TIMEOUT|SIGABRT|SIGSEGV)" $C/confirm-suite.log | sed -E 's/.*\] +//' | sort -u)
SUMMARY=$(grep -E "Summary" $C/confirm-suite.log | tail -1)
OK=false; if [ $A = 0 ] && [ $D0 = 0 ] && [ $D1 != 0 ] && [ -z "$FAILS" ] && [ -n "$SUMMARY" ]; then OK=true; fi
python3 - "$C" "$NAME" "$OK" "$D0" "$D1" "$A" "$SUMMARY" "$FAILS" "$(git -C /repo rev-parse --short HEAD)" <<'PY'
import json,sys
c,name,ok,d0,d1,a,summary,fails,head=sys.argv[1:10]
json.dump({"name":name,"confirmed":ok=="true","repo_head":head,"patch_applies":a=="0","demo_passes_without_change":d0=="0","demo_fails_with_change":d1!="0","existing_suite_with_change":summary.strip(),"unexpected_failures":fails.split("\n") if fails else []},open(c+"/confirm.json","w"),indent=1)
PY
cd /; git -C /repo worktree remove --force $WT
echo "== $NAME confirmed=$OK (applies=$A demo0=$D0 demo1=$D1) $SUMMARY ${FAILS:+UNEXPECTED: $FAILS}" | tee -a $LOG
if $OK; then mkdir -p /verif/seeded/$NAME && cp $C/patch.diff $C/meta.json $C/confirm.json $C/demo.py /verif/seeded/$NAME/; cp $C/unit_test_snippet.rs /verif/seeded/$NAME/ 2>/dev/null; fi
$OK
