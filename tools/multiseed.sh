#!/bin/bash
# tools/multiseed.sh <seed>...   silence of every quick tier on the current tree under other PRNG seeds
# Runs the 20 registered quick commands once per seed (4 at a time), from fresh processes, and
# prints one line per (seed, property): exit status and any VIOLATION line.  Evidence files are
# rewritten by the runs; restore the committed ones afterwards (git checkout -- evidence) or
# re-run with VERIF_SEED=1.  Results are appended to out/multiseed.log.
set -u
cd "$(dirname "$0")/.."
./check --build || exit 2
OUT=out/multiseed; mkdir -p $OUT
IDS=$(jq -r '.checks[].property_id' MANIFEST.json)
rc=0
for seed in "$@"; do
  printf '%s\n' $IDS | xargs -P 4 -I{} sh -c \
    "VERIF_SEED=$seed ./check {} quick >$OUT/{}.$seed.log 2>&1; echo \$? >$OUT/{}.$seed.rc"
  for id in $IDS; do
    r=$(cat $OUT/$id.$seed.rc)
    v=$(grep -c '^VIOLATION' $OUT/$id.$seed.log)
    k=$(grep -c '^KNOWN-FINDING' $OUT/$id.$seed.log)
    echo "seed=$seed $id exit=$r violations=$v known_findings=$k" | tee -a out/multiseed.log
    [ "$r" = 0 ] && [ "$v" = 0 ] || rc=1
  done
done
exit $rc
