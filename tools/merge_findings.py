#!/usr/bin/env python3
"""known_findings.json := concatenation of known_findings.d/*.json (sorted), with a greppable
`line` per entry: 'KNOWN-FINDING: property=<id> <what>' for open ones,
'fixed: property=<id> <commit> <what failed>' for fixed ones. Run after editing a fragment."""
import json, glob
out = []
for p in sorted(glob.glob('/verif/known_findings.d/*.json')):
    for e in json.load(open(p)):
        e = dict(e)
        if e.get('status') == 'fixed':
            e['line'] = f"fixed: property={e['property']} {e.get('commit','')} {e['what']}"
        else:
            e['line'] = f"KNOWN-FINDING: property={e['property']} {e['what']} [{e['key']}]"
        out.append(e)
json.dump(out, open('/verif/known_findings.json', 'w'), indent=1, ensure_ascii=False)
print(len(out), 'entries;', sum(1 for e in out if e['status'] == 'open'), 'open')
