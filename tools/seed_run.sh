#!/bin/bash
# tools/seed_run.sh <seeded-dir-name> [ID ...]
# Applies /verif/seeded/<name>/patch.diff to a scratch worktree of /repo (never to /repo itself),
# runs the quick tier of the given property checks (default: meta.json "property") against it via
# run_against.sh, prints the verdict per check, and removes the worktree. The scratch build
# directory /tmp/seedrun is kept warm between invocations (remove it when done).
set -u
NAME="${1:?seeded dir}"; shift
D=/verif/seeded/$NAME
[ -f "$D/patch.diff" ] || { echo "no $D/patch.diff"; exit 2; }
IDS="$*"
[ -z "$IDS" ] && IDS=$(python3 -c "import json;m=json.load(open('$D/meta.json'));p=m['property'];print(' '.join(p) if isinstance(p,list) else p)")
R=${SEEDRUN_DIR:-/tmp/seedrun}; WT=$R/wt
mkdir -p $R
git -C /repo worktree remove --force $WT 2>/dev/null
git -C /repo worktree add -q --detach $WT HEAD || exit 2
git -C $WT apply "$D/patch.diff" || { echo "patch does not apply to HEAD"; git -C /repo worktree remove --force $WT; exit 2; }
RC=0
for ID in $IDS; do
  OUT=$(CARGO_BUILD_JOBS=${CARGO_BUILD_JOBS:-12} /verif/tools/run_against.sh $WT $ID ${TIER:-quick} $R/scratch 2>&1)
  CODE=$?
  echo "$OUT" | grep -E "VIOLATION|KNOWN-FINDING|INCONCLUSIVE|BUILD FAILED|cases" | head -8
  echo "== seeded=$NAME check=$ID exit=$CODE $( [ $CODE = 1 ] && echo CAUGHT || echo MISSED )"
  [ $CODE = 1 ] || RC=1
  python3 - "$D" "$ID" "${TIER:-quick}" "$CODE" "$(git -C /verif rev-parse --short HEAD)" "$(echo "$OUT" | grep -c VIOLATION)" <<'PY'
import json,sys,os
d,cid,tier,code,commit,nviol=sys.argv[1:7]
p=d+'/result.json'
r=json.load(open(p)) if os.path.exists(p) else {}
r[cid+':'+tier]={"exit":int(code),"caught":code=="1","violation_lines":int(nviol),"verif_commit":commit}
r.setdefault('history',[]).append({"check":cid,"tier":tier,"exit":int(code),"caught":code=="1","verif_commit":commit})
json.dump(r,open(p,'w'),indent=1)
PY
done
git -C /repo worktree remove --force $WT
exit $RC
