#!/bin/bash
sed -i 's#^ROOT=/verif#ROOT=$PWD#' check
export TPV_ROOT=$PWD
./check --build || exit 2
for id in C04 C06 C07 C12 C13 C11 C15 C02 C03 C05 C08 C09 C16 C18 C14 C01 C10 C19 C17 C20; do echo $id; done | \
  xargs -P 6 -I{} sh -c './check {} thorough > out/th-{}.log 2>&1; echo {} $? $(grep -c "^VIOLATION" out/th-{}.log) >> out/th.rc'
cat out/th.rc
