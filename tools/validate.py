#!/usr/bin/env python3
"""Validate MANIFEST.json and every evidence file against the schemas (run with python3-vt)."""
import json, sys, glob, jsonschema
ok = True
m = json.load(open('/verif/MANIFEST.json'))
jsonschema.validate(m, json.load(open('/root/.vp/MANIFEST.schema.json')))
ids = [json.loads(l)['id'] for l in open('/verif/properties.jsonl')]
claimed = [c['property_id'] for c in m['checks']]
na = [c['property_id'] for c in m.get('not_applicable', [])]
for i in ids:
    if (i in claimed) == (i in na):
        print('property', i, 'must be in exactly one of checks / not_applicable'); ok = False
es = json.load(open('/root/.vp/EVIDENCE.schema.json'))
for c in m['checks']:
    p = '/verif/' + c['evidence_file']
    try:
        ev = json.load(open(p)); jsonschema.validate(ev, es)
        assert ev['level'] == c['level_claimed']['category'], 'level mismatch'
        print(c['property_id'], 'evidence ok:', ev['tier'], ev['coverage'].get('evaluations'), ev['coverage'].get('distinct_nontrivial'), 'wall', ev['wall_s'])
    except Exception as e:
        print(c['property_id'], 'EVIDENCE PROBLEM', str(e)[:300]); ok = False
print('manifest ok' if ok else 'PROBLEMS')
sys.exit(0 if ok else 1)
