#!/bin/bash
# tools/run_against.sh <repo-tree> <ID> <quick|thorough> [scratch-dir]
# Runs one property check against ANOTHER copy of the repository (a scratch git worktree
# carrying a mutant) without touching /verif/evidence, /verif/out or /repo.
# A copy of harness/ is made under the scratch dir with its path dependencies pointed at
# <repo-tree>; output (out/, evidence/) lands in <scratch-dir>/root. Remove the scratch dir
# afterwards (it holds a full target directory).
set -u
WT="${1:?repo tree}"; ID="${2:?id}"; TIER="${3:?tier}"
S="${4:-/tmp/tpv-scratch-$ID}"
export CARGO_NET_OFFLINE=true
mkdir -p "$S/harness" "$S/root"
rsync -a --delete --exclude target --exclude target-repo "${HARNESS_SRC:-/verif/harness}/" "$S/harness/"
sed -i "s#/repo/crates#$WT/crates#g" "$S/harness/Cargo.toml"
rm -rf "$S/root/replays" "$S/root/known_findings.json" "$S/root/known_findings.d" "$S/root/corpus" "$S/root/shim"
ln -s /verif/replays "$S/root/replays" 2>/dev/null
[ -e /verif/known_findings.json ] && cp /verif/known_findings.json "$S/root/"
[ -d /verif/known_findings.d ] && cp -r /verif/known_findings.d "$S/root/"
[ -d /verif/corpus ] && ln -s /verif/corpus "$S/root/corpus"
[ -d /verif/shim ] && ln -s /verif/shim "$S/root/shim"
( cd "$S/harness" && CARGO_BUILD_JOBS="${CARGO_BUILD_JOBS:-8}" CARGO_TARGET_DIR="$S/target" cargo build --bin tpv ) >"$S/build.log" 2>&1 || { echo "BUILD FAILED; see $S/build.log"; tail -30 "$S/build.log"; exit 2; }
export TPV_ROOT="$S/root" TPV_REPO="$WT"
mkdir -p "$S/root/out"
case "$ID" in
  C14|C15) ( cd "$WT" && CARGO_TARGET_DIR="$S/target-repo" cargo build --offline -p trust-lsp --bin trust-lsp ) >>"$S/build.log" 2>&1 || { echo "BUILD FAILED (trust-lsp)"; tail -30 "$S/build.log"; exit 2; }
           export TPV_LSP_BIN="$S/target-repo/debug/trust-lsp" ;;
  C10) [ -f /verif/shim/crashshim.c ] && gcc -O1 -shared -fPIC -o "$S/root/out/crashshim.so" /verif/shim/crashshim.c -ldl ;;
esac
export VERIF_TIER="$TIER"
"$S/target/debug/tpv" check "$ID" "$TIER"
