//! AST of the generated ST programs. Everything is `Debug + Clone + Serialize +
//! Deserialize` so that a case can be stored in a replay file. The reference evaluator
//! (`crate::stref`) interprets this AST directly; the toolchain under test only ever sees
//! the text produced by `crate::stgen::print`.

use serde::{Deserialize, Serialize};

/// Elementary types of the generated core.
#[derive(Clone, Copy, Debug, PartialEq, Eq, Hash, PartialOrd, Ord, Serialize, Deserialize)]
pub enum Elem {
    Bool,
    SInt,
    Int,
    DInt,
    LInt,
    USInt,
    UInt,
    UDInt,
    ULInt,
    Real,
    LReal,
    Time,
}

pub const INT_TYPES: [Elem; 8] = [
    Elem::SInt,
    Elem::Int,
    Elem::DInt,
    Elem::LInt,
    Elem::USInt,
    Elem::UInt,
    Elem::UDInt,
    Elem::ULInt,
];

impl Elem {
    pub fn name(self) -> &'static str {
        match self {
            Elem::Bool => "BOOL",
            Elem::SInt => "SINT",
            Elem::Int => "INT",
            Elem::DInt => "DINT",
            Elem::LInt => "LINT",
            Elem::USInt => "USINT",
            Elem::UInt => "UINT",
            Elem::UDInt => "UDINT",
            Elem::ULInt => "ULINT",
            Elem::Real => "REAL",
            Elem::LReal => "LREAL",
            Elem::Time => "TIME",
        }
    }
    pub fn is_int(self) -> bool {
        matches!(
            self,
            Elem::SInt
                | Elem::Int
                | Elem::DInt
                | Elem::LInt
                | Elem::USInt
                | Elem::UInt
                | Elem::UDInt
                | Elem::ULInt
        )
    }
    pub fn is_signed_int(self) -> bool {
        matches!(self, Elem::SInt | Elem::Int | Elem::DInt | Elem::LInt)
    }
    pub fn is_unsigned_int(self) -> bool {
        matches!(self, Elem::USInt | Elem::UInt | Elem::UDInt | Elem::ULInt)
    }
    pub fn is_real(self) -> bool {
        matches!(self, Elem::Real | Elem::LReal)
    }
    pub fn is_num(self) -> bool {
        self.is_int() || self.is_real()
    }
    /// Width in bits of an integer type.
    pub fn bits(self) -> u32 {
        match self {
            Elem::SInt | Elem::USInt => 8,
            Elem::Int | Elem::UInt => 16,
            Elem::DInt | Elem::UDInt => 32,
            Elem::LInt | Elem::ULInt => 64,
            Elem::Real => 32,
            Elem::LReal => 64,
            Elem::Time => 64,
            Elem::Bool => 1,
        }
    }
    /// Inclusive value range of an integer type (TIME: nanoseconds in i64).
    pub fn int_range(self) -> (i128, i128) {
        match self {
            Elem::SInt => (i8::MIN as i128, i8::MAX as i128),
            Elem::Int => (i16::MIN as i128, i16::MAX as i128),
            Elem::DInt => (i32::MIN as i128, i32::MAX as i128),
            Elem::LInt | Elem::Time => (i64::MIN as i128, i64::MAX as i128),
            Elem::USInt => (0, u8::MAX as i128),
            Elem::UInt => (0, u16::MAX as i128),
            Elem::UDInt => (0, u32::MAX as i128),
            Elem::ULInt => (0, u64::MAX as i128),
            _ => (0, 0),
        }
    }
}

/// A (possibly composite) type. Named types refer to `Program::types`.
#[derive(Clone, Debug, PartialEq, Eq, Hash, Serialize, Deserialize)]
pub enum Ty {
    Elem(Elem),
    /// Array with inclusive bounds per dimension; elements are elementary or a struct.
    Array {
        dims: Vec<(i64, i64)>,
        elem: Box<Ty>,
    },
    Struct(String),
    Enum(String),
    /// Function block instance.
    Fb(String),
}

impl Ty {
    pub fn elem(&self) -> Option<Elem> {
        match self {
            Ty::Elem(e) => Some(*e),
            _ => None,
        }
    }
}

#[derive(Clone, Debug, PartialEq, Serialize, Deserialize)]
pub enum TypeDecl {
    Struct {
        name: String,
        fields: Vec<(String, Ty)>,
    },
    Enum {
        name: String,
        variants: Vec<String>,
    },
}

impl TypeDecl {
    pub fn name(&self) -> &str {
        match self {
            TypeDecl::Struct { name, .. } | TypeDecl::Enum { name, .. } => name,
        }
    }
}

/// A value of the generated core. Reals are kept as IEEE bit patterns so that values
/// compare bitwise and survive JSON.
#[derive(Clone, Debug, PartialEq, Eq, Hash, Serialize, Deserialize)]
pub enum Val {
    Bool(bool),
    /// Integer of the given type (value always inside the type's range).
    Int(Elem, i128),
    Real(u32),
    LReal(u64),
    /// TIME in nanoseconds.
    Time(i64),
    /// Enum value: type name and variant index.
    Enum(String, u32),
    Array {
        dims: Vec<(i64, i64)>,
        elems: Vec<Val>,
    },
    Struct {
        ty: String,
        fields: Vec<(String, Val)>,
    },
    /// Function block instance (only inside observed/reference states).
    Fb {
        ty: String,
        vars: Vec<(String, Val)>,
    },
}

impl Val {
    pub fn real(v: f32) -> Val {
        Val::Real(v.to_bits())
    }
    pub fn lreal(v: f64) -> Val {
        Val::LReal(v.to_bits())
    }
    pub fn elem_ty(&self) -> Option<Elem> {
        match self {
            Val::Bool(_) => Some(Elem::Bool),
            Val::Int(e, _) => Some(*e),
            Val::Real(_) => Some(Elem::Real),
            Val::LReal(_) => Some(Elem::LReal),
            Val::Time(_) => Some(Elem::Time),
            _ => None,
        }
    }
    /// Short human-readable rendering for messages.
    pub fn show(&self) -> String {
        match self {
            Val::Bool(b) => format!("BOOL#{}", if *b { "TRUE" } else { "FALSE" }),
            Val::Int(e, v) => format!("{}#{}", e.name(), v),
            Val::Real(b) => format!("REAL#{:e}[{:#010x}]", f32::from_bits(*b), b),
            Val::LReal(b) => format!("LREAL#{:e}[{:#018x}]", f64::from_bits(*b), b),
            Val::Time(n) => format!("TIME#{}ns", n),
            Val::Enum(t, i) => format!("{}#<{}>", t, i),
            Val::Array { dims, elems } => format!(
                "ARRAY{:?}[{}]",
                dims,
                elems
                    .iter()
                    .map(|e| e.show())
                    .collect::<Vec<_>>()
                    .join(", ")
            ),
            Val::Struct { ty, fields } => format!(
                "{}({})",
                ty,
                fields
                    .iter()
                    .map(|(n, v)| format!("{} := {}", n, v.show()))
                    .collect::<Vec<_>>()
                    .join(", ")
            ),
            Val::Fb { ty, vars } => format!(
                "FB {}({})",
                ty,
                vars.iter()
                    .map(|(n, v)| format!("{} := {}", n, v.show()))
                    .collect::<Vec<_>>()
                    .join(", ")
            ),
        }
    }
}

#[derive(Clone, Copy, Debug, PartialEq, Eq, Hash, Serialize, Deserialize)]
pub enum UnOp {
    Neg,
    Not,
}

#[derive(Clone, Copy, Debug, PartialEq, Eq, Hash, Serialize, Deserialize)]
pub enum BinOp {
    Add,
    Sub,
    Mul,
    Div,
    Mod,
    Pow,
    And,
    Or,
    Xor,
    Eq,
    Ne,
    Lt,
    Le,
    Gt,
    Ge,
}

impl BinOp {
    pub fn symbol(self) -> &'static str {
        match self {
            BinOp::Add => "+",
            BinOp::Sub => "-",
            BinOp::Mul => "*",
            BinOp::Div => "/",
            BinOp::Mod => "MOD",
            BinOp::Pow => "**",
            BinOp::And => "AND",
            BinOp::Or => "OR",
            BinOp::Xor => "XOR",
            BinOp::Eq => "=",
            BinOp::Ne => "<>",
            BinOp::Lt => "<",
            BinOp::Le => "<=",
            BinOp::Gt => ">",
            BinOp::Ge => ">=",
        }
    }
    /// IEC 61131-3 Table 71 precedence (higher binds tighter).
    pub fn prec(self) -> u8 {
        match self {
            BinOp::Pow => 7,
            BinOp::Mul | BinOp::Div | BinOp::Mod => 6,
            BinOp::Add | BinOp::Sub => 5,
            BinOp::Lt | BinOp::Le | BinOp::Gt | BinOp::Ge | BinOp::Eq | BinOp::Ne => 4,
            BinOp::And => 3,
            BinOp::Xor => 2,
            BinOp::Or => 1,
        }
    }
    pub fn is_cmp(self) -> bool {
        matches!(
            self,
            BinOp::Lt | BinOp::Le | BinOp::Gt | BinOp::Ge | BinOp::Eq | BinOp::Ne
        )
    }
    pub fn is_arith(self) -> bool {
        matches!(
            self,
            BinOp::Add | BinOp::Sub | BinOp::Mul | BinOp::Div | BinOp::Mod | BinOp::Pow
        )
    }
}

/// One step of an access path.
#[derive(Clone, Debug, PartialEq, Serialize, Deserialize)]
pub enum Sel {
    Index(Vec<Expr>),
    Field(String),
}

/// A variable access `base sel*` (`x`, `a[i]`, `s.f`, `fb.out`, `a[i].f`, ...).
#[derive(Clone, Debug, PartialEq, Serialize, Deserialize)]
pub struct Place {
    pub base: String,
    pub path: Vec<Sel>,
}

impl Place {
    pub fn var(name: &str) -> Place {
        Place {
            base: name.to_string(),
            path: Vec::new(),
        }
    }
}

/// Standard (library) functions the generator may call.
#[derive(Clone, Copy, Debug, PartialEq, Eq, Hash, Serialize, Deserialize)]
pub enum StdFn {
    /// `<SRC>_TO_<DST>`; only value-preserving or correctly-rounding conversions.
    Conv(Elem, Elem),
    Abs,
    Min,
    Max,
    Sel,
    Limit,
}

/// Argument of a call to a user FUNCTION / FUNCTION_BLOCK.
#[derive(Clone, Debug, PartialEq, Serialize, Deserialize)]
pub enum ArgVal {
    /// VAR_INPUT: expression passed by value.
    In(Expr),
    /// VAR_OUTPUT: `param => place` (formal) / place (positional).
    Out(Place),
    /// VAR_IN_OUT: place passed by reference.
    InOut(Place),
}

#[derive(Clone, Debug, PartialEq, Serialize, Deserialize)]
pub struct Arg {
    /// Formal parameter name (always recorded; printed only for formal calls).
    pub param: String,
    pub val: ArgVal,
}

#[derive(Clone, Debug, PartialEq, Serialize, Deserialize)]
pub enum Expr {
    /// Typed literal (elementary or enum value).
    Lit(Val),
    /// Untyped literal (only with the `implicit` dial): printed without type prefix,
    /// typed by context as `Elem`.
    Untyped(Val),
    Read(Place),
    Un(UnOp, Box<Expr>),
    Bin(BinOp, Box<Expr>, Box<Expr>),
    /// Call of a user FUNCTION. `formal` = named arguments (in `order`), else positional.
    Call {
        func: String,
        args: Vec<Arg>,
        formal: bool,
    },
    Std(StdFn, Vec<Expr>),
}

#[derive(Clone, Debug, PartialEq, Serialize, Deserialize)]
pub enum CaseLabel {
    Single(i128),
    Range(i128, i128),
    /// Enum variant index (selector of enum type).
    Variant(u32),
}

#[derive(Clone, Debug, PartialEq, Serialize, Deserialize)]
pub struct Stmt {
    /// Unique within the whole program (pre-order over all POUs); C17 maps it to a line.
    pub id: u32,
    pub kind: StmtKind,
}

#[derive(Clone, Debug, PartialEq, Serialize, Deserialize)]
pub enum StmtKind {
    Assign {
        target: Place,
        value: Expr,
    },
    If {
        cond: Expr,
        then_: Vec<Stmt>,
        elsifs: Vec<(Expr, Vec<Stmt>)>,
        else_: Option<Vec<Stmt>>,
    },
    Case {
        sel: Expr,
        sel_ty: Ty,
        arms: Vec<(Vec<CaseLabel>, Vec<Stmt>)>,
        else_: Option<Vec<Stmt>>,
    },
    For {
        var: String,
        from: Expr,
        to: Expr,
        by: Option<Expr>,
        body: Vec<Stmt>,
    },
    While {
        cond: Expr,
        body: Vec<Stmt>,
    },
    Repeat {
        body: Vec<Stmt>,
        until: Expr,
    },
    Exit,
    Continue,
    /// `RETURN;` (FB/PROGRAM) or `RETURN expr;` (FUNCTION: the dialect requires the value).
    Return(Option<Expr>),
    /// `inst(a := .., b => ..);` - function block invocation (always formal).
    FbCall {
        inst: Place,
        fb: String,
        args: Vec<Arg>,
    },
    /// Function call used as a statement (result discarded).
    CallStmt(Expr),
    Empty,
}

#[derive(Clone, Copy, Debug, PartialEq, Eq, Hash, Serialize, Deserialize)]
pub enum VarKind {
    Input,
    Output,
    InOut,
    /// `VAR` (static in PROGRAM/FB, per-call in FUNCTION).
    Local,
    /// `VAR_TEMP` (FB/PROGRAM: re-initialised on every invocation).
    Temp,
    /// `VAR_EXTERNAL` reference to a global of the same name.
    External,
    /// `VAR_GLOBAL` in the CONFIGURATION.
    Global,
}

/// What the generator uses a variable for (drives what the check may assert).
#[derive(Clone, Copy, Debug, PartialEq, Eq, Hash, Serialize, Deserialize)]
pub enum Role {
    /// Ordinary data variable: compared after every cycle.
    Data,
    /// FOR control variable: its value after the loop is implementer-specific
    /// (IEC 61131-3 7.3.3.4.2, docs/specs/06 rule 7) -> never compared, never read outside
    /// the loop it controls.
    ForControl,
    /// Down-counter that bounds a WHILE/REPEAT loop (compared like data).
    LoopGuard,
    /// Write-only sink for results that are compared with a tolerance (`**`).
    TolerantSink,
    /// The result variable of a FUNCTION (write-only inside the body).
    Result,
}

#[derive(Clone, Debug, PartialEq, Serialize, Deserialize)]
pub struct VarDecl {
    pub name: String,
    pub ty: Ty,
    pub kind: VarKind,
    pub role: Role,
    /// Declaration initialiser (constant expression: literal or boundary expression).
    pub init: Option<Expr>,
    pub constant: bool,
}

#[derive(Clone, Copy, Debug, PartialEq, Eq, Hash, Serialize, Deserialize)]
pub enum PouKind {
    Program,
    Function,
    FunctionBlock,
}

#[derive(Clone, Debug, PartialEq, Serialize, Deserialize)]
pub struct Pou {
    pub kind: PouKind,
    pub name: String,
    /// FUNCTION result type.
    pub ret: Option<Ty>,
    pub vars: Vec<VarDecl>,
    pub body: Vec<Stmt>,
}

impl Pou {
    pub fn var(&self, name: &str) -> Option<&VarDecl> {
        self.vars.iter().find(|v| v.name == name)
    }
    pub fn params(&self) -> impl Iterator<Item = &VarDecl> {
        self.vars
            .iter()
            .filter(|v| matches!(v.kind, VarKind::Input | VarKind::Output | VarKind::InOut))
    }
}

/// A whole generated project (single source file).
#[derive(Clone, Debug, PartialEq, Serialize, Deserialize)]
pub struct Program {
    pub types: Vec<TypeDecl>,
    /// FUNCTIONs then FUNCTION_BLOCKs then PROGRAMs, callees before callers (acyclic).
    pub pous: Vec<Pou>,
    /// VAR_GLOBAL of the CONFIGURATION (empty => no CONFIGURATION block is printed).
    pub globals: Vec<VarDecl>,
    /// Program instances run in this order every cycle: (instance name, PROGRAM name).
    /// Without CONFIGURATION the instance name equals the program name.
    pub instances: Vec<(String, String)>,
}

impl Program {
    pub fn pou(&self, name: &str) -> Option<&Pou> {
        self.pous.iter().find(|p| p.name == name)
    }
    pub fn type_decl(&self, name: &str) -> Option<&TypeDecl> {
        self.types.iter().find(|t| t.name() == name)
    }
    pub fn uses_configuration(&self) -> bool {
        !self.globals.is_empty()
    }
}

/// One write applied before a cycle: `instance.var := value` (whole variable).
#[derive(Clone, Debug, PartialEq, Serialize, Deserialize)]
pub struct InputWrite {
    /// Program instance name, or "" for a global.
    pub instance: String,
    pub var: String,
    pub value: Val,
}

#[derive(Clone, Debug, PartialEq, Serialize, Deserialize)]
pub struct CycleInput {
    pub writes: Vec<InputWrite>,
    /// Clock step applied before the cycle, nanoseconds.
    pub dt_ns: i64,
}

pub type Trace = Vec<CycleInput>;

/// Walk all statements of a block in pre-order.
pub fn walk_stmts<'a>(block: &'a [Stmt], f: &mut dyn FnMut(&'a Stmt)) {
    for s in block {
        f(s);
        match &s.kind {
            StmtKind::If {
                then_,
                elsifs,
                else_,
                ..
            } => {
                walk_stmts(then_, f);
                for (_, b) in elsifs {
                    walk_stmts(b, f);
                }
                if let Some(b) = else_ {
                    walk_stmts(b, f);
                }
            }
            StmtKind::Case { arms, else_, .. } => {
                for (_, b) in arms {
                    walk_stmts(b, f);
                }
                if let Some(b) = else_ {
                    walk_stmts(b, f);
                }
            }
            StmtKind::For { body, .. }
            | StmtKind::While { body, .. }
            | StmtKind::Repeat { body, .. } => walk_stmts(body, f),
            _ => {}
        }
    }
}
