//! Type-directed generator: a deterministic function `Tape -> Program` (+ input trace).
//! Low tape values map to simple choices, so shrinking the tape shrinks the program.

use crate::engine::tape::{Reader, Tape};

use super::ast::*;
use super::config::GenConfig;

/// A generated case: program, trace and what the generator steered around.
#[derive(Clone, Debug)]
pub struct Generated {
    pub program: Program,
    pub trace: Trace,
    /// Known-finding shapes that were excluded by construction, with counts.
    pub excluded: Vec<(String, u32)>,
}

/// How an elementary (or enum) value can be reached from the variables in scope.
#[derive(Clone, Debug)]
pub(super) struct Access {
    pub base: String,
    pub steps: Vec<AccessStep>,
    pub ty: Ty,
    pub writable: bool,
    pub role: Role,
}

#[derive(Clone, Debug)]
pub(super) enum AccessStep {
    Field(String),
    Index(Vec<(i64, i64)>),
}

#[derive(Clone, Debug)]
pub(super) struct ScopeVar {
    pub name: String,
    pub ty: Ty,
    pub writable: bool,
    pub role: Role,
    pub constant: bool,
}

#[derive(Clone, Debug)]
pub(super) struct Sig {
    pub name: String,
    pub ret: Option<Ty>,
    /// (name, kind, type, has declared default)
    pub params: Vec<(String, VarKind, Ty, bool)>,
    /// No VAR_OUTPUT / VAR_IN_OUT and no calls with effects inside.
    pub pure_: bool,
}

pub(super) struct Gen<'a, 't> {
    pub r: Reader<'t>,
    pub cfg: &'a GenConfig,
    pub types: Vec<TypeDecl>,
    pub fn_sigs: Vec<Sig>,
    pub fb_sigs: Vec<Sig>,
    pub globals: Vec<VarDecl>,
    pub next_stmt_id: u32,
    pub excluded: Vec<(String, u32)>,
    // ---- per-POU state
    pub scope: Vec<ScopeVar>,
    pub pou_kind: PouKind,
    pub pou_name: String,
    pub pou_ret: Option<Ty>,
    pub stmts_left: usize,
    /// FOR control variables currently controlling an enclosing loop.
    pub active_for: Vec<String>,
    pub loop_depth: usize,
    /// Base variables that must not become VAR_OUTPUT / VAR_IN_OUT targets right now.
    pub no_out: Vec<String>,
    /// Index of the POU being generated among its kind (calls only go to lower indices).
    pub callable_fns: usize,
    /// Variables read by the bounds of an enclosing FOR: the checker (E202) forbids
    /// modifying them in the loop body.
    pub frozen: Vec<String>,
    /// Inside the argument list of another call: nested calls are positional (the checker
    /// rejects a formal call nested in an argument list: "formal call arguments must be
    /// named").
    pub in_call_args: bool,
}

pub(super) fn note_excluded(list: &mut Vec<(String, u32)>, what: &str) {
    if let Some(e) = list.iter_mut().find(|(w, _)| w == what) {
        e.1 += 1;
    } else {
        list.push((what.to_string(), 1));
    }
}

const SMALL_REALS: [f32; 12] = [
    0.0, 1.0, -1.0, 0.5, 2.0, 3.0, 10.0, -2.5, 1.0e-3, 1.0e6, 0.1, 7.0,
];

impl<'a, 't> Gen<'a, 't> {
    pub fn new(tape: &'t Tape, cfg: &'a GenConfig) -> Gen<'a, 't> {
        Gen {
            r: Reader::new(tape),
            cfg,
            types: Vec::new(),
            fn_sigs: Vec::new(),
            fb_sigs: Vec::new(),
            globals: Vec::new(),
            next_stmt_id: 0,
            excluded: Vec::new(),
            scope: Vec::new(),
            pou_kind: PouKind::Program,
            pou_name: String::new(),
            pou_ret: None,
            stmts_left: 0,
            active_for: Vec::new(),
            loop_depth: 0,
            no_out: Vec::new(),
            callable_fns: 0,
            frozen: Vec::new(),
            in_call_args: false,
        }
    }

    pub fn stmt(&mut self, kind: StmtKind) -> Stmt {
        let id = self.next_stmt_id;
        self.next_stmt_id += 1;
        Stmt { id, kind }
    }

    // ------------------------------------------------------------------ types

    pub fn elem_types(&self) -> Vec<Elem> {
        let mut v = vec![
            Elem::Int,
            Elem::DInt,
            Elem::Bool,
            Elem::SInt,
            Elem::UInt,
            Elem::LInt,
            Elem::USInt,
            Elem::UDInt,
            Elem::ULInt,
        ];
        if self.cfg.features.reals {
            v.push(Elem::Real);
            v.push(Elem::LReal);
        }
        if self.cfg.features.time {
            v.push(Elem::Time);
        }
        v
    }

    /// Pick an elementary type; low tape values give INT / DINT / BOOL.
    pub fn pick_elem(&mut self) -> Elem {
        let v = self.elem_types();
        // weights: the first three are common, the rest share the remainder
        let mut w: Vec<u32> = vec![6, 4, 4];
        w.extend(std::iter::repeat(2).take(v.len() - 3));
        v[self.r.weighted(&w)]
    }

    pub fn pick_int_elem(&mut self) -> Elem {
        const T: [Elem; 8] = [
            Elem::Int,
            Elem::DInt,
            Elem::SInt,
            Elem::LInt,
            Elem::USInt,
            Elem::UInt,
            Elem::UDInt,
            Elem::ULInt,
        ];
        T[self.r.weighted(&[5, 4, 3, 2, 2, 2, 2, 2])]
    }

    /// Pick a variable type (elementary, enum, array, struct).
    pub fn pick_var_ty(&mut self, allow_composite: bool) -> Ty {
        let f = &self.cfg.features;
        let structs: Vec<String> = self
            .types
            .iter()
            .filter_map(|t| {
                if let TypeDecl::Struct { name, .. } = t {
                    Some(name.clone())
                } else {
                    None
                }
            })
            .collect();
        let enums: Vec<String> = self
            .types
            .iter()
            .filter_map(|t| {
                if let TypeDecl::Enum { name, .. } = t {
                    Some(name.clone())
                } else {
                    None
                }
            })
            .collect();
        let w_arr = if allow_composite && f.arrays { 3 } else { 0 };
        let w_struct = if allow_composite && f.structs && !structs.is_empty() {
            2
        } else {
            0
        };
        let w_enum = if f.enums && !enums.is_empty() { 1 } else { 0 };
        match self.r.weighted(&[12, w_arr, w_struct, w_enum]) {
            1 => {
                let dims = self.pick_dims();
                let elem = if w_struct > 0 && self.r.chance(1, 5) {
                    Ty::Struct(structs[self.r.pick(structs.len())].clone())
                } else {
                    Ty::Elem(self.pick_elem())
                };
                Ty::Array {
                    dims,
                    elem: Box::new(elem),
                }
            }
            2 => Ty::Struct(structs[self.r.pick(structs.len())].clone()),
            3 => Ty::Enum(enums[self.r.pick(enums.len())].clone()),
            _ => Ty::Elem(self.pick_elem()),
        }
    }

    pub fn pick_dims(&mut self) -> Vec<(i64, i64)> {
        let two = self.cfg.features.arrays_2d && self.r.chance(1, 4);
        let n = if two { 2 } else { 1 };
        let mut dims = Vec::new();
        for _ in 0..n {
            let lo = if self.cfg.features.arrays_2d {
                [0i64, 1, -2, -1, 3, 10][self.r.weighted(&[6, 4, 2, 2, 1, 1])]
            } else {
                [0i64, 1][self.r.pick(2)]
            };
            let len = 1 + self.r.pick(if two { 3 } else { 5 }) as i64;
            dims.push((lo, lo + len - 1));
        }
        dims
    }

    // ------------------------------------------------------------------ literals

    pub fn int_value(&mut self, e: Elem) -> i128 {
        let (lo, hi) = e.int_range();
        let clamp = |v: i128| v.max(lo).min(hi);
        match self.r.weighted(&[12, 3, 2, 2]) {
            0 => {
                // small values; index 0 is the value 1 (0 makes too many things trivial)
                const S: [i128; 12] = [1, 0, 2, 3, -1, 5, 10, -2, 7, 4, -3, 100];
                clamp(S[self.r.pick(S.len())])
            }
            1 => {
                let b = [hi, lo, hi - 1, lo + 1, -1, 0, 1];
                clamp(b[self.r.pick(b.len())])
            }
            2 => {
                let k = 1 + self.r.pick(e.bits() as usize - 1) as u32;
                let p: i128 = 1i128 << k;
                let d = [0i128, -1, 1][self.r.pick(3)];
                let sign = if e.is_signed_int() && self.r.flag() {
                    -1
                } else {
                    1
                };
                clamp(sign * (p + d))
            }
            _ => {
                let span = (hi - lo) as u128 + 1;
                let w = self.r.u64() as u128;
                let off = if span > u64::MAX as u128 {
                    w
                } else {
                    (w * span) >> 64
                };
                clamp(lo + off as i128)
            }
        }
    }

    pub fn real32_value(&mut self) -> f32 {
        match self.r.weighted(&[10, 2, 2]) {
            0 => SMALL_REALS[self.r.pick(SMALL_REALS.len())],
            1 => [
                3.0e38f32,
                -3.0e38,
                f32::MAX,
                1.0e-38,
                1.1754944e-38,
                16777216.0,
                1.0e20,
            ][self.r.pick(7)],
            _ => {
                let m = self.r.range_i64(-1000, 1000) as f32;
                let s = [1.0f32, 0.5, 0.125, 1.0e3, 1.0e-3][self.r.pick(5)];
                m * s
            }
        }
    }

    pub fn real64_value(&mut self) -> f64 {
        match self.r.weighted(&[10, 2, 2]) {
            0 => SMALL_REALS[self.r.pick(SMALL_REALS.len())] as f64,
            1 => [
                1.0e308f64,
                -1.0e308,
                f64::MAX,
                1.0e-308,
                9007199254740992.0,
                1.0e150,
                0.1,
            ][self.r.pick(7)],
            _ => {
                let m = self.r.range_i64(-100000, 100000) as f64;
                let s = [1.0f64, 0.5, 0.001, 1.0e6, 1.0e-6][self.r.pick(5)];
                m * s
            }
        }
    }

    pub fn time_value(&mut self) -> i64 {
        const T: [i64; 9] = [
            0,
            1_000_000,
            5_000_000_000,
            -5_000_000,
            1,
            1_500_000,
            86_400_000_000_000,
            999,
            -1,
        ];
        T[self.r.weighted(&[4, 4, 3, 2, 1, 2, 1, 1, 1])]
    }

    pub fn value_of(&mut self, ty: &Ty) -> Val {
        match ty {
            Ty::Elem(e) => self.elem_value(*e),
            Ty::Enum(name) => {
                let n = match self.types.iter().find(|t| t.name() == name) {
                    Some(TypeDecl::Enum { variants, .. }) => variants.len(),
                    _ => 1,
                };
                Val::Enum(name.clone(), self.r.pick(n) as u32)
            }
            _ => Val::Bool(false),
        }
    }

    pub fn elem_value(&mut self, e: Elem) -> Val {
        match e {
            Elem::Bool => Val::Bool(self.r.flag()),
            Elem::Real => Val::real(self.real32_value()),
            Elem::LReal => Val::lreal(self.real64_value()),
            Elem::Time => Val::Time(self.time_value()),
            t => {
                let n = self.int_value(t);
                Val::Int(t, n)
            }
        }
    }

    /// Literal expression of the given type. In the implicit dial some integer / real
    /// literals are printed without their type prefix.
    pub fn literal(&mut self, ty: &Ty) -> Expr {
        let v = self.value_of(ty);
        if !self.cfg.strict && self.r.chance(1, 2) {
            let ok = match &v {
                // untyped integer literals are DINT-ranged in the toolchain's lowering
                Val::Int(_, n) => *n >= i32::MIN as i128 + 1 && *n <= i32::MAX as i128,
                Val::Real(_) | Val::LReal(_) => true,
                _ => false,
            };
            if ok {
                return Expr::Untyped(v);
            }
        }
        Expr::Lit(v)
    }

    // ------------------------------------------------------------------ scope

    /// All ways to reach a value of elementary / enum type from the scope.
    pub fn accesses(&self) -> Vec<Access> {
        let mut out = Vec::new();
        for v in &self.scope {
            self.accesses_of(&v.name, &v.ty, v.writable, v.role, Vec::new(), &mut out);
        }
        out
    }

    fn accesses_of(
        &self,
        base: &str,
        ty: &Ty,
        writable: bool,
        role: Role,
        steps: Vec<AccessStep>,
        out: &mut Vec<Access>,
    ) {
        if steps.len() > 3 {
            return;
        }
        match ty {
            Ty::Elem(_) | Ty::Enum(_) => out.push(Access {
                base: base.to_string(),
                steps,
                ty: ty.clone(),
                writable,
                role,
            }),
            Ty::Array { dims, elem } => {
                let mut s = steps;
                s.push(AccessStep::Index(dims.clone()));
                self.accesses_of(base, elem, writable, role, s, out);
            }
            Ty::Struct(name) => {
                if let Some(TypeDecl::Struct { fields, .. }) =
                    self.types.iter().find(|t| t.name() == name)
                {
                    for (f, fty) in fields {
                        let mut s = steps.clone();
                        s.push(AccessStep::Field(f.clone()));
                        self.accesses_of(base, fty, writable, role, s, out);
                    }
                }
            }
            Ty::Fb(name) => {
                // outputs of an instance are readable from outside, inputs assignable
                if let Some(sig) = self.fb_sigs.iter().find(|s| s.name == *name) {
                    for (p, kind, pty, _) in &sig.params {
                        if !steps.is_empty() {
                            continue;
                        }
                        match kind {
                            VarKind::Output => self.accesses_of(
                                base,
                                pty,
                                false,
                                role,
                                vec![AccessStep::Field(p.clone())],
                                out,
                            ),
                            _ => {}
                        }
                    }
                }
            }
        }
    }
}
