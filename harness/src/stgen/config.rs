//! Dials of the generator.

use serde::{Deserialize, Serialize};

/// Feature switches. A switch that is off removes the construct from the grammar
/// (type-directed construction, no rejection sampling).
#[derive(Clone, Debug, Serialize, Deserialize)]
pub struct Features {
    pub reals: bool,
    pub time: bool,
    pub arrays: bool,
    /// 2-dimensional arrays and negative lower bounds.
    pub arrays_2d: bool,
    pub structs: bool,
    pub enums: bool,
    pub functions: bool,
    pub function_blocks: bool,
    /// VAR_GLOBAL in a CONFIGURATION + VAR_EXTERNAL in the programs.
    pub globals: bool,
    /// `RETURN expr;` in FUNCTIONs, `RETURN;` in FUNCTION_BLOCKs.
    pub returns: bool,
    /// Formal (named) calls of FUNCTIONs in addition to positional ones.
    pub named_args: bool,
    /// Value-preserving `*_TO_*` conversions.
    pub conversions: bool,
    /// SEL / MIN / MAX / ABS on the asserted domain.
    pub std_functions: bool,
    /// `**` (results go to tolerance-compared sinks only).
    pub pow: bool,
    /// FB calls that leave inputs unassigned (they keep their value, docs/specs/06 §4)
    /// and FB inputs with declared initial values.
    pub fb_partial_inputs: bool,
    /// Declared initial values on FUNCTION_BLOCK inputs.
    pub fb_input_inits: bool,
    // ---- shapes of *open* findings of other properties; off unless that finding is fixed
    /// F3: CASE selector of an unsigned integer type.
    pub case_unsigned: bool,
    /// F3: CASE selector of an enum type.
    pub case_enum: bool,
    /// F26: RETURN in a PROGRAM body.
    pub return_in_program: bool,
    /// The same variable bound to two VAR_IN_OUT parameters of one call.
    pub inout_alias: bool,
}

impl Features {
    pub fn core() -> Features {
        Features {
            reals: true,
            time: true,
            arrays: true,
            arrays_2d: true,
            structs: true,
            enums: true,
            functions: true,
            function_blocks: true,
            globals: true,
            returns: true,
            named_args: true,
            conversions: true,
            std_functions: true,
            pow: false,
            fb_partial_inputs: true,
            fb_input_inits: true,
            case_unsigned: false,
            case_enum: false,
            return_in_program: false,
            inout_alias: false,
        }
    }
}

#[derive(Clone, Debug, Serialize, Deserialize)]
pub struct GenConfig {
    /// `true`: every assignment / argument / operand pair has exactly the declared type and
    /// every literal is typed (needed while finding F8 is open). `false` ("implicit"):
    /// additionally untyped literals, widening assignments and mixed-width operands.
    pub strict: bool,
    pub features: Features,
    /// Upper bound on statements per POU body (all nesting levels together).
    pub max_stmts: usize,
    /// Statement nesting depth.
    pub max_nesting: usize,
    pub max_expr_depth: usize,
    pub max_functions: usize,
    pub max_fbs: usize,
    pub max_vars: usize,
    pub max_cycles: usize,
    /// Iteration bound built into WHILE/REPEAT guards and FOR ranges.
    pub max_loop_iterations: u32,
    /// Expression generator: deliberately *paired* boundary operands
    /// (`min / -1`, `min * -1`, `-min`, `min - 1`, `max + 1`, `min MOD -1`, REAL `MAX * 2`, ...)
    /// as literals or variables, in addition to the independent boundary bias of literals.
    /// Off by default: existing tapes keep generating the same programs.
    #[serde(default)]
    pub boundary_pairs: bool,
    /// Trace generator: some cycles are "boundary bursts" that set *every* integer / real input
    /// variable to one of {min, -1, max, 1, 0, min+1, max-1}, so that variable-only
    /// expressions meet the paired extremes too. Off by default (same reason).
    #[serde(default)]
    pub trace_boundary_bursts: bool,
}

impl GenConfig {
    /// The C02 domain: strict typing, <= 25 statements per POU.
    pub fn strict_core() -> GenConfig {
        GenConfig {
            strict: true,
            features: Features::core(),
            max_stmts: 25,
            max_nesting: 4,
            max_expr_depth: 3,
            max_functions: 3,
            max_fbs: 2,
            max_vars: 10,
            max_cycles: 5,
            max_loop_iterations: 6,
            boundary_pairs: false,
            trace_boundary_bursts: false,
        }
    }
    pub fn implicit_core() -> GenConfig {
        GenConfig {
            strict: false,
            ..GenConfig::strict_core()
        }
    }
}
