//! Statement, POU and program productions of the generator.

use super::ast::*;
use super::gen::{note_excluded, Access, Gen, ScopeVar, Sig};

fn reads_in_place(p: &Place, out: &mut Vec<String>) {
    for s in &p.path {
        if let Sel::Index(ix) = s {
            for e in ix {
                reads_in_expr(e, out);
            }
        }
    }
}

fn reads_in_expr(e: &Expr, out: &mut Vec<String>) {
    match e {
        Expr::Read(p) => {
            out.push(p.base.clone());
            reads_in_place(p, out);
        }
        Expr::Un(_, a) => reads_in_expr(a, out),
        Expr::Bin(_, a, b) => {
            reads_in_expr(a, out);
            reads_in_expr(b, out);
        }
        Expr::Std(_, args) => args.iter().for_each(|a| reads_in_expr(a, out)),
        Expr::Call { args, .. } => {
            for a in args {
                match &a.val {
                    ArgVal::In(e) => reads_in_expr(e, out),
                    ArgVal::Out(p) | ArgVal::InOut(p) => {
                        out.push(p.base.clone());
                        reads_in_place(p, out);
                    }
                }
            }
        }
        Expr::Lit(_) | Expr::Untyped(_) => {}
    }
}

impl<'a, 't> Gen<'a, 't> {
    fn targets(&self) -> Vec<Access> {
        self.accesses()
            .into_iter()
            .filter(|a| a.writable && a.steps.len() <= 1)
            .filter(|a| matches!(a.role, Role::Data | Role::Result))
            .filter(|a| !self.frozen.contains(&a.base))
            .collect()
    }

    pub(super) fn block(&mut self, depth: usize, max_here: usize) -> Vec<Stmt> {
        let n = 1 + self.r.pick(max_here.max(1));
        let mut out = Vec::new();
        for _ in 0..n {
            if self.stmts_left == 0 {
                break;
            }
            let more = self.statement(depth);
            out.extend(more);
            if self.r.exhausted() {
                break;
            }
        }
        if out.is_empty() {
            out.push(self.assign(1));
        }
        out
    }

    fn assign(&mut self, depth: usize) -> Stmt {
        self.stmts_left = self.stmts_left.saturating_sub(1);
        let ts = self.targets();
        if ts.is_empty() {
            return self.stmt(StmtKind::Empty);
        }
        // whole-variable copy of an array / struct now and then
        if self.r.chance(1, 12) {
            let comps: Vec<(String, Ty)> = self
                .scope
                .iter()
                .filter(|v| {
                    v.writable
                        && v.role == Role::Data
                        && matches!(v.ty, Ty::Array { .. } | Ty::Struct(_))
                })
                .filter(|v| !self.frozen.contains(&v.name))
                .map(|v| (v.name.clone(), v.ty.clone()))
                .collect();
            if !comps.is_empty() {
                let (t, ty) = comps[self.r.pick(comps.len())].clone();
                let srcs: Vec<String> = self
                    .scope
                    .iter()
                    .filter(|v| v.ty == ty)
                    .map(|v| v.name.clone())
                    .collect();
                let s = srcs[self.r.pick(srcs.len())].clone();
                return self.stmt(StmtKind::Assign {
                    target: Place::var(&t),
                    value: Expr::Read(Place::var(&s)),
                });
            }
        }
        let a = ts[self.r.pick(ts.len())].clone();
        let target = self.place_of(&a);
        let mut reads = Vec::new();
        reads_in_place(&target, &mut reads);
        let saved = std::mem::replace(&mut self.no_out, reads);
        let d = 1 + self.r.pick(depth.max(1).min(self.cfg.max_expr_depth));
        let value = self.expr_of(&a.ty, d, true);
        self.no_out = saved;
        self.stmt(StmtKind::Assign { target, value })
    }

    fn cond(&mut self) -> Expr {
        let d = 1 + self.r.pick(self.cfg.max_expr_depth.min(2));
        self.expr(Elem::Bool, d, true)
    }

    pub(super) fn statement(&mut self, depth: usize) -> Vec<Stmt> {
        let nest = depth < self.cfg.max_nesting && self.stmts_left > 2;
        let w = |b: bool, w: u32| if b { w } else { 0 };
        let in_loop = self.loop_depth > 0;
        let has_for = self
            .scope
            .iter()
            .any(|v| v.role == Role::ForControl && !self.active_for.contains(&v.name));
        let has_guard = self
            .scope
            .iter()
            .any(|v| v.name == format!("g{}", self.loop_depth));
        let fb_insts: Vec<(String, String)> = self
            .scope
            .iter()
            .filter_map(|v| {
                if let Ty::Fb(f) = &v.ty {
                    Some((v.name.clone(), f.clone()))
                } else {
                    None
                }
            })
            .collect();
        let can_return = self.cfg.features.returns
            && match self.pou_kind {
                PouKind::Program => self.cfg.features.return_in_program,
                _ => true,
            };
        if self.cfg.features.returns
            && self.pou_kind == PouKind::Program
            && !self.cfg.features.return_in_program
        {
            // counted once per statement slot where a RETURN could have been produced
            if self.r.chance(1, 40) {
                note_excluded(&mut self.excluded, "F26-return-in-program");
            }
        }
        let weights = [
            30,                                // 0 assignment
            w(nest, 8),                        // 1 IF
            w(nest, 4),                        // 2 CASE
            w(nest && has_for, 6),             // 3 FOR
            w(nest && has_guard, 3),           // 4 WHILE
            w(nest && has_guard, 3),           // 5 REPEAT
            w(in_loop, 3),                     // 6 EXIT / CONTINUE
            w(!fb_insts.is_empty(), 6),        // 7 FB call
            w(self.cfg.features.functions, 1), // 8 call statement
            w(can_return, 3),                  // 9 RETURN
            1,                                 // 10 empty
        ];
        match self.r.weighted(&weights) {
            1 => {
                self.stmts_left = self.stmts_left.saturating_sub(1);
                let cond = self.cond();
                let then_ = self.block(depth + 1, 3);
                let mut elsifs = Vec::new();
                let ne = self.r.weighted(&[6, 2, 1]);
                for _ in 0..ne {
                    let c = self.cond();
                    let b = self.block(depth + 1, 2);
                    elsifs.push((c, b));
                }
                let else_ = if self.r.chance(2, 5) {
                    Some(self.block(depth + 1, 3))
                } else {
                    None
                };
                vec![self.stmt(StmtKind::If {
                    cond,
                    then_,
                    elsifs,
                    else_,
                })]
            }
            2 => vec![self.case_stmt(depth)],
            3 => vec![self.for_stmt(depth)],
            4 => self.while_stmt(depth),
            5 => self.repeat_stmt(depth),
            6 => {
                self.stmts_left = self.stmts_left.saturating_sub(1);
                let jump = if self.r.flag() {
                    StmtKind::Exit
                } else {
                    StmtKind::Continue
                };
                let j = self.stmt(jump);
                if self.r.chance(5, 6) {
                    let cond = self.cond();
                    vec![self.stmt(StmtKind::If {
                        cond,
                        then_: vec![j],
                        elsifs: vec![],
                        else_: None,
                    })]
                } else {
                    vec![j]
                }
            }
            7 => {
                let (inst, fb) = fb_insts[self.r.pick(fb_insts.len())].clone();
                vec![self.fb_call(&inst, &fb)]
            }
            8 => {
                self.stmts_left = self.stmts_left.saturating_sub(1);
                let n = self.callable_fns.min(self.fn_sigs.len());
                let cands: Vec<usize> = (0..n)
                    .filter(|i| self.call_feasible(&self.fn_sigs[*i]))
                    .collect();
                if cands.is_empty() {
                    return vec![self.assign(depth)];
                }
                let i = cands[self.r.pick(cands.len())];
                let e = self.call_expr(i, 2);
                if matches!(e, Expr::Call { .. }) {
                    vec![self.stmt(StmtKind::CallStmt(e))]
                } else {
                    vec![self.assign(depth)]
                }
            }
            9 => {
                self.stmts_left = self.stmts_left.saturating_sub(1);
                let value = match (&self.pou_kind, self.pou_ret.clone()) {
                    (PouKind::Function, Some(ty)) => Some(self.expr_of(&ty, 2, true)),
                    _ => None,
                };
                let ret = self.stmt(StmtKind::Return(value));
                let cond = self.cond();
                vec![self.stmt(StmtKind::If {
                    cond,
                    then_: vec![ret],
                    elsifs: vec![],
                    else_: None,
                })]
            }
            10 => {
                self.stmts_left = self.stmts_left.saturating_sub(1);
                vec![self.stmt(StmtKind::Empty)]
            }
            _ => vec![self.assign(depth.max(1))],
        }
    }

    fn case_stmt(&mut self, depth: usize) -> Stmt {
        self.stmts_left = self.stmts_left.saturating_sub(1);
        let f = self.cfg.features.clone();
        // selector type
        let enums: Vec<String> = self
            .types
            .iter()
            .filter_map(|t| {
                if let TypeDecl::Enum { name, .. } = t {
                    Some(name.clone())
                } else {
                    None
                }
            })
            .collect();
        let want_enum = !enums.is_empty() && self.r.chance(1, 5);
        if want_enum && !f.case_enum {
            note_excluded(&mut self.excluded, "F3-case-enum-selector");
        }
        if want_enum && f.case_enum {
            let en = enums[self.r.pick(enums.len())].clone();
            let ty = Ty::Enum(en.clone());
            let n = match self.types.iter().find(|t| t.name() == en) {
                Some(TypeDecl::Enum { variants, .. }) => variants.len() as u32,
                _ => 1,
            };
            let sel = self.leaf(&ty);
            let mut arms = Vec::new();
            let mut v = 0u32;
            while v < n && arms.len() < 3 {
                let mut labels = vec![CaseLabel::Variant(v)];
                v += 1;
                if v < n && self.r.chance(1, 3) {
                    labels.push(CaseLabel::Variant(v));
                    v += 1;
                }
                let b = self.block(depth + 1, 2);
                arms.push((labels, b));
                if self.r.chance(1, 3) {
                    break;
                }
            }
            let else_ = if self.r.flag() {
                Some(self.block(depth + 1, 2))
            } else {
                None
            };
            return self.stmt(StmtKind::Case {
                sel,
                sel_ty: ty,
                arms,
                else_,
            });
        }
        let mut e = self.pick_int_elem();
        if e.is_unsigned_int() && !f.case_unsigned {
            note_excluded(&mut self.excluded, "F3-case-unsigned-selector");
            e = match e {
                Elem::USInt => Elem::SInt,
                Elem::UInt => Elem::Int,
                Elem::UDInt => Elem::DInt,
                _ => Elem::LInt,
            };
        }
        let sd = 1 + self.r.pick(2);
        let sel = self.expr(e, sd, true);
        // disjoint labels from ascending cut points inside the type (and DINT literal) range
        let (lo, hi) = e.int_range();
        let start = [0i128, -3, 1, -1, 5, hi - 4, lo][self.r.weighted(&[6, 3, 3, 2, 1, 1, 1])];
        let start = start.max(lo).max(i32::MIN as i128 + 1);
        let mut next = start;
        let narms = 1 + self.r.pick(3);
        let mut arms = Vec::new();
        let top = hi.min(i32::MAX as i128);
        for _ in 0..narms {
            let mut labels = Vec::new();
            let nl = 1 + self.r.weighted(&[5, 2]);
            for _ in 0..nl {
                if next > top {
                    break;
                }
                if self.r.chance(1, 3) && next + 2 <= top {
                    let w = 1 + self.r.pick(3) as i128;
                    let end = (next + w).min(top);
                    labels.push(CaseLabel::Range(next, end));
                    next = end + 1 + self.r.pick(2) as i128;
                } else {
                    labels.push(CaseLabel::Single(next));
                    next += 1 + self.r.pick(2) as i128;
                }
            }
            if labels.is_empty() {
                break;
            }
            let b = self.block(depth + 1, 2);
            arms.push((labels, b));
        }
        if arms.is_empty() {
            let b = self.block(depth + 1, 1);
            arms.push((vec![CaseLabel::Single(start.min(top))], b));
        }
        let else_ = if self.r.chance(3, 5) {
            Some(self.block(depth + 1, 2))
        } else {
            None
        };
        self.stmt(StmtKind::Case {
            sel,
            sel_ty: Ty::Elem(e),
            arms,
            else_,
        })
    }

    fn for_stmt(&mut self, depth: usize) -> Stmt {
        self.stmts_left = self.stmts_left.saturating_sub(1);
        let cands: Vec<(String, Elem)> = self
            .scope
            .iter()
            .filter(|v| v.role == Role::ForControl && !self.active_for.contains(&v.name))
            .filter_map(|v| v.ty.elem().map(|e| (v.name.clone(), e)))
            .collect();
        let (var, e) = cands[self.r.pick(cands.len())].clone();
        let (lo, hi) = e.int_range();
        let maxn = self.cfg.max_loop_iterations as i128;
        let n = self.r.pick(maxn as usize + 1) as i128; // planned iterations, 0 allowed
                                                        // step: the control variable's type (strict) -> unsigned types only count upwards
        let step: i128 = if e.is_signed_int() {
            [1i128, 1, 2, -1, 3, -2, 7, 0][self.r.weighted(&[8, 4, 3, 4, 2, 2, 1, 1])]
        } else {
            [1i128, 1, 2, 3, 7, 0][self.r.weighted(&[8, 4, 3, 2, 1, 1])]
        };
        let dir = if step < 0 { -1 } else { 1 };
        // start: small, or close enough to the type's end that the increment leaves it
        let near_edge = self.r.chance(1, 8);
        let from = if near_edge {
            if dir > 0 {
                hi - (n.max(1) - 1) * step.max(1) - self.r.pick(2) as i128
            } else {
                lo + (n.max(1) - 1) * (-step) + self.r.pick(2) as i128
            }
        } else {
            [0i128, 1, -2, 3, 10][self.r.weighted(&[5, 5, 2, 1, 1])]
        };
        let from = from.max(lo).min(hi);
        let to = if n == 0 {
            from - dir
        } else {
            from + (n - 1) * step.max(-1000).min(1000)
                + if step.abs() > 1 {
                    self.r.pick(step.unsigned_abs() as usize) as i128 * dir
                } else {
                    0
                }
        };
        let to = to.max(lo).min(hi);
        let lit = |v: i128| Expr::Lit(Val::Int(e, v));
        let from_e = lit(from);
        // a variable upper bound for the narrow types (at most 256 iterations)
        let to_e = if e.bits() == 8 && self.r.chance(1, 5) {
            self.expr(e, 1, false)
        } else {
            lit(to)
        };
        let by_e = if step == 1 && self.r.flag() {
            None
        } else {
            Some(lit(step))
        };
        let mut bound_reads = Vec::new();
        reads_in_expr(&to_e, &mut bound_reads);
        let nfrozen = self.frozen.len();
        self.frozen.extend(bound_reads);
        self.active_for.push(var.clone());
        self.loop_depth += 1;
        let body = self.block(depth + 1, 3);
        self.loop_depth -= 1;
        self.active_for.pop();
        self.frozen.truncate(nfrozen);
        self.stmt(StmtKind::For {
            var,
            from: from_e,
            to: to_e,
            by: by_e,
            body,
        })
    }

    fn guard_parts(&mut self) -> (String, Expr, Stmt, Stmt) {
        // g := 0;   g < k   g := g + 1
        let g = format!("g{}", self.loop_depth);
        let k = 1 + self.r.pick(self.cfg.max_loop_iterations as usize) as i128;
        let gv = || Expr::Read(Place::var(&format!("g{}", 0)));
        let _ = gv;
        let read = Expr::Read(Place::var(&g));
        let init = self.stmt(StmtKind::Assign {
            target: Place::var(&g),
            value: Expr::Lit(Val::Int(Elem::Int, 0)),
        });
        let inc = self.stmt(StmtKind::Assign {
            target: Place::var(&g),
            value: Expr::Bin(
                BinOp::Add,
                Box::new(read.clone()),
                Box::new(Expr::Lit(Val::Int(Elem::Int, 1))),
            ),
        });
        let bound = Expr::Lit(Val::Int(Elem::Int, k));
        let _ = bound;
        (g, Expr::Lit(Val::Int(Elem::Int, k)), init, inc)
    }

    fn while_stmt(&mut self, depth: usize) -> Vec<Stmt> {
        self.stmts_left = self.stmts_left.saturating_sub(2);
        let (g, k, init, inc) = self.guard_parts();
        let c = self.cond();
        let guard = Expr::Bin(BinOp::Lt, Box::new(Expr::Read(Place::var(&g))), Box::new(k));
        let cond = if self.r.flag() {
            Expr::Bin(BinOp::And, Box::new(guard), Box::new(c))
        } else {
            Expr::Bin(BinOp::And, Box::new(c), Box::new(guard))
        };
        self.loop_depth += 1;
        let mut body = vec![inc];
        body.extend(self.block(depth + 1, 3));
        self.loop_depth -= 1;
        vec![init, self.stmt(StmtKind::While { cond, body })]
    }

    fn repeat_stmt(&mut self, depth: usize) -> Vec<Stmt> {
        self.stmts_left = self.stmts_left.saturating_sub(2);
        let (g, k, init, inc) = self.guard_parts();
        let c = self.cond();
        let guard = Expr::Bin(BinOp::Ge, Box::new(Expr::Read(Place::var(&g))), Box::new(k));
        let until = if self.r.flag() {
            Expr::Bin(BinOp::Or, Box::new(guard), Box::new(c))
        } else {
            Expr::Bin(BinOp::Or, Box::new(c), Box::new(guard))
        };
        self.loop_depth += 1;
        let mut body = vec![inc];
        body.extend(self.block(depth + 1, 3));
        self.loop_depth -= 1;
        vec![init, self.stmt(StmtKind::Repeat { body, until })]
    }

    fn fb_call(&mut self, inst: &str, fb: &str) -> Stmt {
        self.stmts_left = self.stmts_left.saturating_sub(1);
        let Some(sig) = self.fb_sigs.iter().find(|s| s.name == fb).cloned() else {
            return self.stmt(StmtKind::Empty);
        };
        let mut args = Vec::new();
        let mut used = Vec::new();
        for (name, kind, ty, _) in &sig.params {
            match kind {
                VarKind::Input => {
                    if self.cfg.features.fb_partial_inputs && self.r.chance(1, 4) {
                        continue;
                    }
                    if !matches!(ty, Ty::Elem(_) | Ty::Enum(_))
                        && !self.scope.iter().any(|v| v.ty == *ty)
                    {
                        continue;
                    }
                    let saved = std::mem::replace(&mut self.in_call_args, true);
                    let e = self.expr_of(ty, 2, false);
                    self.in_call_args = saved;
                    args.push(Arg {
                        param: name.clone(),
                        val: ArgVal::In(e),
                    });
                }
                VarKind::Output => {
                    if self.r.flag() {
                        continue;
                    }
                    let cands = self.out_candidates(ty, &used);
                    if cands.is_empty() {
                        continue;
                    }
                    let a = cands[self.r.pick(cands.len())].clone();
                    used.push(a.base.clone());
                    let p = self.const_place_of(&a);
                    args.push(Arg {
                        param: name.clone(),
                        val: ArgVal::Out(p),
                    });
                }
                VarKind::InOut => {
                    let cands = self.out_candidates(ty, &used);
                    if cands.is_empty() {
                        // cannot call this instance here
                        return self.assign(1);
                    }
                    let a = cands[self.r.pick(cands.len())].clone();
                    used.push(a.base.clone());
                    let p = self.const_place_of(&a);
                    args.push(Arg {
                        param: name.clone(),
                        val: ArgVal::InOut(p),
                    });
                }
                _ => {}
            }
        }
        self.stmt(StmtKind::FbCall {
            inst: Place::var(inst),
            fb: fb.to_string(),
            args,
        })
    }

    // ------------------------------------------------------------------ declarations

    fn init_for(&mut self, ty: &Ty, p_num: u32, p_den: u32) -> Option<Expr> {
        match ty {
            Ty::Elem(_) | Ty::Enum(_) if self.r.chance(p_num, p_den) => {
                Some(Expr::Lit(self.value_of(ty)))
            }
            _ => None,
        }
    }

    fn loop_vars(&mut self, vars: &mut Vec<VarDecl>, nfor: usize, nguard: usize) {
        for i in 0..nfor {
            let e = self.pick_int_elem();
            vars.push(VarDecl {
                name: format!("i{i}"),
                ty: Ty::Elem(e),
                kind: VarKind::Local,
                role: Role::ForControl,
                init: None,
                constant: false,
            });
        }
        for i in 0..nguard {
            vars.push(VarDecl {
                name: format!("g{i}"),
                ty: Ty::Elem(Elem::Int),
                kind: VarKind::Local,
                role: Role::LoopGuard,
                init: None,
                constant: false,
            });
        }
    }

    fn open_pou(&mut self, kind: PouKind, name: &str, ret: Option<Ty>, vars: &[VarDecl]) {
        self.pou_kind = kind;
        self.pou_name = name.to_string();
        self.pou_ret = ret.clone();
        self.scope.clear();
        self.active_for.clear();
        self.loop_depth = 0;
        self.no_out.clear();
        self.frozen.clear();
        self.in_call_args = false;
        for v in vars {
            let writable = !v.constant && v.kind != VarKind::Input;
            self.scope.push(ScopeVar {
                name: v.name.clone(),
                ty: v.ty.clone(),
                writable,
                role: v.role,
                constant: v.constant,
            });
        }
        if let (PouKind::Function, Some(ty)) = (kind, ret) {
            self.scope.push(ScopeVar {
                name: name.to_string(),
                ty,
                writable: true,
                role: Role::Result,
                constant: false,
            });
        }
        let budget = 1 + self.r.pick(self.cfg.max_stmts);
        self.stmts_left = budget;
    }

    fn gen_function(&mut self, idx: usize) -> Pou {
        let name = format!("F{idx}");
        let ret = Ty::Elem(self.pick_elem());
        let mut vars = Vec::new();
        let nin = 1 + self.r.pick(3);
        for i in 0..nin {
            let comp = self.r_chance_composite();
            let ty = self.pick_var_ty(comp);
            let init = if self.cfg.features.named_args {
                self.init_for(&ty, 1, 4)
            } else {
                None
            };
            vars.push(VarDecl {
                name: format!("a{i}"),
                ty,
                kind: VarKind::Input,
                role: Role::Data,
                init,
                constant: false,
            });
        }
        if self.r.chance(1, 3) {
            let ty = self.pick_var_ty(false);
            vars.push(VarDecl {
                name: "o0".into(),
                ty,
                kind: VarKind::Output,
                role: Role::Data,
                init: None,
                constant: false,
            });
        }
        if self.r.chance(1, 3) {
            let comp = self.r_chance_composite();
            let ty = self.pick_var_ty(comp);
            vars.push(VarDecl {
                name: "io0".into(),
                ty,
                kind: VarKind::InOut,
                role: Role::Data,
                init: None,
                constant: false,
            });
        }
        let nloc = self.r.pick(3);
        for i in 0..nloc {
            let ty = self.pick_var_ty(false);
            let init = self.init_for(&ty, 1, 2);
            vars.push(VarDecl {
                name: format!("t{i}"),
                ty,
                kind: VarKind::Local,
                role: Role::Data,
                init,
                constant: false,
            });
        }
        self.loop_vars(&mut vars, 1, 2);
        self.callable_fns = idx;
        self.open_pou(PouKind::Function, &name, Some(ret.clone()), &vars);
        let mut body = self.block(0, 4);
        {
            // the checker rejects a FUNCTION without an assignment to its result (E206)
            let saved = self.stmts_left;
            self.stmts_left = 1;
            let d = 1 + self.r.pick(2);
            let value = self.expr_of(&ret, d, true);
            body.push(self.stmt(StmtKind::Assign {
                target: Place::var(&name),
                value,
            }));
            self.stmts_left = saved;
        }
        let params: Vec<(String, VarKind, Ty, bool)> = vars
            .iter()
            .filter(|v| matches!(v.kind, VarKind::Input | VarKind::Output | VarKind::InOut))
            .map(|v| (v.name.clone(), v.kind, v.ty.clone(), v.init.is_some()))
            .collect();
        let pure_ = params.iter().all(|p| p.1 == VarKind::Input);
        self.fn_sigs.push(Sig {
            name: name.clone(),
            ret: Some(ret.clone()),
            params,
            pure_,
        });
        Pou {
            kind: PouKind::Function,
            name,
            ret: Some(ret),
            vars,
            body,
        }
    }

    fn r_chance_composite(&mut self) -> bool {
        self.r.chance(1, 3)
    }

    fn gen_fb(&mut self, idx: usize) -> Pou {
        let name = format!("FB{idx}");
        let mut vars = Vec::new();
        let nin = 1 + self.r.pick(2);
        for i in 0..nin {
            let ty = self.pick_var_ty(false);
            let init = if self.cfg.features.fb_input_inits {
                self.init_for(&ty, 1, 3)
            } else {
                None
            };
            vars.push(VarDecl {
                name: format!("x{i}"),
                ty,
                kind: VarKind::Input,
                role: Role::Data,
                init,
                constant: false,
            });
        }
        let nout = 1 + self.r.pick(2);
        for i in 0..nout {
            let ty = self.pick_var_ty(false);
            vars.push(VarDecl {
                name: format!("q{i}"),
                ty,
                kind: VarKind::Output,
                role: Role::Data,
                init: None,
                constant: false,
            });
        }
        if self.r.chance(1, 4) {
            let ty = self.pick_var_ty(false);
            vars.push(VarDecl {
                name: "io0".into(),
                ty,
                kind: VarKind::InOut,
                role: Role::Data,
                init: None,
                constant: false,
            });
        }
        let nst = 1 + self.r.pick(3);
        for i in 0..nst {
            let comp = self.r_chance_composite();
            let ty = self.pick_var_ty(comp);
            let init = self.init_for(&ty, 1, 2);
            vars.push(VarDecl {
                name: format!("s{i}"),
                ty,
                kind: VarKind::Local,
                role: Role::Data,
                init,
                constant: false,
            });
        }
        if idx > 0 && self.r.chance(1, 3) {
            let inner = self.r.pick(idx);
            vars.push(VarDecl {
                name: "inner".into(),
                ty: Ty::Fb(format!("FB{inner}")),
                kind: VarKind::Local,
                role: Role::Data,
                init: None,
                constant: false,
            });
        }
        if self.r.chance(1, 4) {
            let ty = Ty::Elem(self.pick_elem());
            let init = self.init_for(&ty, 1, 2);
            vars.push(VarDecl {
                name: "tmp0".into(),
                ty,
                kind: VarKind::Temp,
                role: Role::Data,
                init,
                constant: false,
            });
        }
        self.loop_vars(&mut vars, 1, 2);
        self.callable_fns = self.fn_sigs.len();
        self.open_pou(PouKind::FunctionBlock, &name, None, &vars);
        let body = self.block(0, 4);
        let params: Vec<(String, VarKind, Ty, bool)> = vars
            .iter()
            .filter(|v| matches!(v.kind, VarKind::Input | VarKind::Output | VarKind::InOut))
            .map(|v| (v.name.clone(), v.kind, v.ty.clone(), v.init.is_some()))
            .collect();
        self.fb_sigs.push(Sig {
            name: name.clone(),
            ret: None,
            params,
            pure_: false,
        });
        Pou {
            kind: PouKind::FunctionBlock,
            name,
            ret: None,
            vars,
            body,
        }
    }

    fn gen_main(&mut self) -> Pou {
        let name = "Main".to_string();
        let mut vars = Vec::new();
        for g in self.globals.clone() {
            vars.push(VarDecl {
                kind: VarKind::External,
                init: None,
                ..g
            });
        }
        let nv = 1 + self.r.pick(self.cfg.max_vars);
        for i in 0..nv {
            let ty = self.pick_var_ty(true);
            let init = self.init_for(&ty, 3, 5);
            vars.push(VarDecl {
                name: format!("v{i}"),
                ty,
                kind: VarKind::Local,
                role: Role::Data,
                init,
                constant: false,
            });
        }
        // variables of the types the callable POUs need by reference / as composites
        let mut needed: Vec<Ty> = Vec::new();
        for sig in self.fn_sigs.iter().chain(self.fb_sigs.iter()) {
            for (_, kind, ty, _) in &sig.params {
                let composite = !matches!(ty, Ty::Elem(_) | Ty::Enum(_));
                if (composite || matches!(kind, VarKind::InOut | VarKind::Output))
                    && !needed.contains(ty)
                {
                    needed.push(ty.clone());
                }
            }
        }
        for (i, ty) in needed.into_iter().enumerate() {
            if !vars.iter().any(|v| v.ty == ty && v.kind == VarKind::Local) || self.r.chance(1, 3) {
                let init = self.init_for(&ty, 1, 2);
                vars.push(VarDecl {
                    name: format!("w{i}"),
                    ty,
                    kind: VarKind::Local,
                    role: Role::Data,
                    init,
                    constant: false,
                });
            }
        }
        if self.cfg.features.function_blocks {
            for (i, sig) in self.fb_sigs.clone().iter().enumerate() {
                let n = 1 + self.r.weighted(&[5, 1]);
                for k in 0..n {
                    vars.push(VarDecl {
                        name: format!("fb{i}_{k}"),
                        ty: Ty::Fb(sig.name.clone()),
                        kind: VarKind::Local,
                        role: Role::Data,
                        init: None,
                        constant: false,
                    });
                }
            }
        }
        if self.r.chance(1, 5) {
            let ty = Ty::Elem(self.pick_elem());
            let init = Some(Expr::Lit(self.value_of(&ty)));
            vars.push(VarDecl {
                name: "k0".into(),
                ty,
                kind: VarKind::Local,
                role: Role::Data,
                init,
                constant: true,
            });
        }
        self.loop_vars(&mut vars, 2, 3);
        self.callable_fns = self.fn_sigs.len();
        self.open_pou(PouKind::Program, &name, None, &vars);
        // Main gets the full statement budget more often than the callees
        self.stmts_left = (self.stmts_left + 3).min(self.cfg.max_stmts);
        let body = self.block(0, 8);
        Pou {
            kind: PouKind::Program,
            name,
            ret: None,
            vars,
            body,
        }
    }

    pub(super) fn gen_types(&mut self) {
        let f = self.cfg.features.clone();
        if f.structs && self.r.chance(1, 3) {
            let nf = 2 + self.r.pick(3);
            let mut fields = Vec::new();
            for i in 0..nf {
                let ty = if f.arrays && self.r.chance(1, 5) {
                    Ty::Array {
                        dims: self.pick_dims(),
                        elem: Box::new(Ty::Elem(self.pick_elem())),
                    }
                } else {
                    Ty::Elem(self.pick_elem())
                };
                fields.push((format!("f{i}"), ty));
            }
            self.types.push(TypeDecl::Struct {
                name: "S0".into(),
                fields,
            });
        }
        if f.enums && self.r.chance(1, 4) {
            let n = 2 + self.r.pick(3);
            const NAMES: [&str; 5] = ["Red", "Green", "Blue", "Amber", "Off"];
            let variants = NAMES[..n].iter().map(|s| format!("E0_{s}")).collect();
            self.types.push(TypeDecl::Enum {
                name: "E0".into(),
                variants,
            });
        }
    }

    pub(super) fn gen_program(&mut self) -> Program {
        self.gen_types();
        let f = self.cfg.features.clone();
        if f.globals && self.r.chance(1, 5) {
            let n = 1 + self.r.pick(2);
            for i in 0..n {
                let ty = Ty::Elem(self.pick_elem());
                let init = self.init_for(&ty, 1, 2);
                self.globals.push(VarDecl {
                    name: format!("gv{i}"),
                    ty,
                    kind: VarKind::Global,
                    role: Role::Data,
                    init,
                    constant: false,
                });
            }
        }
        let mut pous = Vec::new();
        let nf = if f.functions {
            self.r.pick(self.cfg.max_functions + 1)
        } else {
            0
        };
        for i in 0..nf {
            pous.push(self.gen_function(i));
        }
        let nb = if f.function_blocks {
            self.r.pick(self.cfg.max_fbs + 1)
        } else {
            0
        };
        for i in 0..nb {
            pous.push(self.gen_fb(i));
        }
        pous.push(self.gen_main());
        Program {
            types: self.types.clone(),
            pous,
            globals: self.globals.clone(),
            instances: vec![("Main".to_string(), "Main".to_string())],
        }
    }

    /// Input trace: per cycle a few whole-variable writes into Main / the globals.
    pub(super) fn gen_trace(&mut self, prog: &Program) -> Trace {
        let ncycles = 1 + self.r.pick(self.cfg.max_cycles);
        let main = prog.pou("Main");
        let mut targets: Vec<(String, String, Ty)> = Vec::new();
        if let Some(m) = main {
            for v in &m.vars {
                if v.role == Role::Data
                    && !v.constant
                    && v.kind == VarKind::Local
                    && matches!(v.ty, Ty::Elem(_) | Ty::Enum(_))
                {
                    targets.push(("Main".into(), v.name.clone(), v.ty.clone()));
                }
            }
        }
        for g in &prog.globals {
            targets.push((String::new(), g.name.clone(), g.ty.clone()));
        }
        let mut trace = Vec::new();
        for _ in 0..ncycles {
            let mut writes = Vec::new();
            // boundary burst (switch off = nothing consumed, historical behaviour): every
            // numeric input variable gets one of its type's extremes / -1 / 0 / 1
            if self.cfg.trace_boundary_bursts && !targets.is_empty() && self.r.chance(1, 4) {
                for (inst, var, ty) in targets.clone() {
                    let Ty::Elem(e) = ty else {
                        continue;
                    };
                    let value = if e.is_int() {
                        let (lo, hi) = e.int_range();
                        let set = [lo, (-1i128).max(lo), hi, 1, 0, (lo + 1).min(hi), hi - 1];
                        Val::Int(e, set[self.r.weighted(&[4, 4, 3, 2, 1, 1, 1])])
                    } else if e == Elem::Real {
                        Val::real([f32::MAX, -f32::MAX, 1.0, -1.0, 0.0, f32::MIN_POSITIVE, 2.0][self.r.pick(7)])
                    } else if e == Elem::LReal {
                        Val::lreal([f64::MAX, -f64::MAX, 1.0, -1.0, 0.0, f64::MIN_POSITIVE, 2.0][self.r.pick(7)])
                    } else {
                        continue;
                    };
                    writes.push(InputWrite { instance: inst, var, value });
                }
            }
            if !targets.is_empty() {
                let n = self.r.weighted(&[3, 3, 2, 1]);
                for _ in 0..n {
                    let (inst, var, ty) = targets[self.r.pick(targets.len())].clone();
                    let value = self.value_of(&ty);
                    writes.push(InputWrite {
                        instance: inst,
                        var,
                        value,
                    });
                }
            }
            let dt_ns = [0i64, 1_000_000, 1, 10_000_000, 7_300_000, 3_600_000_000_000]
                [self.r.weighted(&[3, 4, 1, 3, 2, 1])];
            trace.push(CycleInput { writes, dt_ns });
        }
        trace
    }
}
