//! Shared typed ST program generator (see README "stgen / stref API").
//!
//! `generate(program_tape, trace_tape, &GenConfig)` is a deterministic function of the two
//! tapes; `print::print_program` turns the AST into the source text the toolchain sees;
//! `rt` drives the real runtime and dumps its storage in the vocabulary of `ast::Val`.
pub mod ast;
pub mod config;
mod gen;
mod gen_expr;
mod gen_stmt;
pub mod print;
pub mod rt;

pub use config::{Features, GenConfig};
pub use gen::Generated;

use crate::engine::tape::Tape;

/// Generate a program from `prog_tape` and an input trace for it from `trace_tape`.
pub fn generate(prog_tape: &Tape, trace_tape: &Tape, cfg: &GenConfig) -> Generated {
    let mut g = gen::Gen::new(prog_tape, cfg);
    let program = g.gen_program();
    let excluded = std::mem::take(&mut g.excluded);
    let mut t = gen::Gen::new(trace_tape, cfg);
    t.types = program.types.clone();
    let trace = t.gen_trace(&program);
    Generated {
        program,
        trace,
        excluded,
    }
}

/// Names and declared types of every variable of every POU, and of the globals:
/// `(owner, variable, type, kind, role)`; owner "" = CONFIGURATION globals.
pub fn declared_types(p: &ast::Program) -> Vec<(String, String, ast::Ty, ast::VarKind, ast::Role)> {
    let mut out = Vec::new();
    for g in &p.globals {
        out.push((String::new(), g.name.clone(), g.ty.clone(), g.kind, g.role));
    }
    for pou in &p.pous {
        for v in &pou.vars {
            out.push((
                pou.name.clone(),
                v.name.clone(),
                v.ty.clone(),
                v.kind,
                v.role,
            ));
        }
    }
    out
}
