//! Pretty printer: `Program` -> ST source text. Expressions are printed with the
//! *minimal* parentheses IEC 61131-3 Table 71 needs (optionally fully parenthesised), so the
//! toolchain's parser has to rebuild the same tree from precedence and associativity alone.

use std::collections::BTreeMap;
use std::fmt::Write;

use super::ast::*;

#[derive(Clone, Copy, Debug, Default)]
pub struct PrintOpts {
    /// Parenthesise every binary/unary sub-expression.
    pub full_parens: bool,
    /// Print `&` instead of `AND`.
    pub ampersand: bool,
}

/// Where a statement starts in the printed text.
#[derive(Clone, Copy, Debug, PartialEq, Eq)]
pub struct StmtPos {
    /// 0-based line.
    pub line: u32,
    /// 0-based column in bytes (= chars, the text is ASCII).
    pub col: u32,
    /// Byte offset.
    pub offset: u32,
}

#[derive(Clone, Debug)]
pub struct Printed {
    pub source: String,
    /// Statement id -> start position (every statement starts on its own line).
    pub stmt_pos: BTreeMap<u32, StmtPos>,
}

struct P<'a> {
    out: String,
    line: u32,
    indent: usize,
    opts: PrintOpts,
    pos: BTreeMap<u32, StmtPos>,
    prog: &'a Program,
}

pub fn print_program(prog: &Program, opts: PrintOpts) -> Printed {
    let mut p = P {
        out: String::new(),
        line: 0,
        indent: 0,
        opts,
        pos: BTreeMap::new(),
        prog,
    };
    p.program();
    Printed {
        source: p.out,
        stmt_pos: p.pos,
    }
}

pub fn type_text(ty: &Ty) -> String {
    match ty {
        Ty::Elem(e) => e.name().to_string(),
        Ty::Array { dims, elem } => {
            let d: Vec<String> = dims.iter().map(|(l, h)| format!("{}..{}", l, h)).collect();
            format!("ARRAY[{}] OF {}", d.join(", "), type_text(elem))
        }
        Ty::Struct(n) | Ty::Enum(n) | Ty::Fb(n) => n.clone(),
    }
}

fn real_text(v: f64) -> String {
    // Shortest digits that round-trip the f64; IEC wants digits on both sides of '.'.
    let s = format!("{:e}", v);
    let (mant, exp) = s.split_once('e').unwrap_or((&s, "0"));
    let mant = if mant.contains('.') {
        mant.to_string()
    } else {
        format!("{}.0", mant)
    };
    if exp == "0" {
        mant
    } else {
        format!("{}E{}", mant, exp)
    }
}

fn time_text(ns: i64) -> String {
    // i64::MIN cannot be negated; print via milliseconds/nanoseconds of the magnitude.
    let neg = ns < 0;
    let mag = (ns as i128).unsigned_abs();
    let body = if mag % 1_000_000 == 0 {
        format!("{}ms", mag / 1_000_000)
    } else if mag % 1_000 == 0 {
        format!("{}us", mag / 1_000)
    } else {
        format!("{}ns", mag)
    };
    format!("T#{}{}", if neg { "-" } else { "" }, body)
}

/// Text of a literal. Values whose digits the toolchain's literal parser cannot take
/// (LINT minimum, ULINT above i64::MAX: digits are parsed as i64) are printed as a
/// parenthesised constant expression of the same value and type.
pub fn literal_text(v: &Val, prog: &Program, typed: bool) -> String {
    match v {
        Val::Bool(b) => {
            if *b {
                "TRUE".into()
            } else {
                "FALSE".into()
            }
        }
        Val::Int(e, n) => {
            let pre = if typed {
                format!("{}#", e.name())
            } else {
                String::new()
            };
            if *n < i64::MIN as i128 + 1 {
                format!("({pre}-9223372036854775807 - {pre}1)")
            } else if *n > i64::MAX as i128 {
                let r = *n - i64::MAX as i128; // 1 ..= i64::MAX + 1
                format!("({pre}9223372036854775807 + {pre}{} + {pre}1)", r - 1)
            } else {
                format!("{pre}{n}")
            }
        }
        Val::Real(b) => {
            let t = real_text(f32::from_bits(*b) as f64);
            if typed {
                format!("REAL#{t}")
            } else {
                t
            }
        }
        Val::LReal(b) => {
            let t = real_text(f64::from_bits(*b));
            if typed {
                format!("LREAL#{t}")
            } else {
                t
            }
        }
        Val::Time(ns) => time_text(*ns),
        Val::Enum(ty, idx) => {
            let name = match prog.type_decl(ty) {
                Some(TypeDecl::Enum { variants, .. }) => variants
                    .get(*idx as usize)
                    .cloned()
                    .unwrap_or_else(|| "?".into()),
                _ => "?".into(),
            };
            format!("{ty}#{name}")
        }
        other => format!("(* unprintable {} *)", other.show()),
    }
}

impl<'a> P<'a> {
    fn nl(&mut self) {
        self.out.push('\n');
        self.line += 1;
    }
    fn line_text(&mut self, text: &str) {
        for _ in 0..self.indent {
            self.out.push_str("  ");
        }
        self.out.push_str(text);
        self.nl();
    }
    fn mark(&mut self, id: u32) {
        // called right before the statement's first token is written on a fresh line
        let col = (self.indent * 2) as u32;
        let offset = self.out.len() as u32 + col;
        self.pos.insert(
            id,
            StmtPos {
                line: self.line,
                col,
                offset,
            },
        );
    }

    fn program(&mut self) {
        if !self.prog.types.is_empty() {
            self.line_text("TYPE");
            self.indent += 1;
            for t in &self.prog.types {
                match t {
                    TypeDecl::Struct { name, fields } => {
                        self.line_text(&format!("{name} : STRUCT"));
                        self.indent += 1;
                        for (f, ty) in fields {
                            self.line_text(&format!("{f} : {};", type_text(ty)));
                        }
                        self.indent -= 1;
                        self.line_text("END_STRUCT;");
                    }
                    TypeDecl::Enum { name, variants } => {
                        self.line_text(&format!("{name} : ({});", variants.join(", ")));
                    }
                }
            }
            self.indent -= 1;
            self.line_text("END_TYPE");
            self.nl();
        }
        for pou in &self.prog.pous {
            self.pou(pou);
            self.nl();
        }
        if self.prog.uses_configuration() {
            self.line_text("CONFIGURATION Conf");
            self.indent += 1;
            self.var_blocks(&self.prog.globals);
            for (inst, prog) in &self.prog.instances {
                self.line_text(&format!("PROGRAM {inst} : {prog};"));
            }
            self.indent -= 1;
            self.line_text("END_CONFIGURATION");
        }
    }

    fn var_blocks(&mut self, vars: &[VarDecl]) {
        let mut i = 0;
        while i < vars.len() {
            let kind = vars[i].kind;
            let constant = vars[i].constant;
            let mut j = i;
            while j < vars.len() && vars[j].kind == kind && vars[j].constant == constant {
                j += 1;
            }
            let head = match kind {
                VarKind::Input => "VAR_INPUT",
                VarKind::Output => "VAR_OUTPUT",
                VarKind::InOut => "VAR_IN_OUT",
                VarKind::Local => "VAR",
                VarKind::Temp => "VAR_TEMP",
                VarKind::External => "VAR_EXTERNAL",
                VarKind::Global => "VAR_GLOBAL",
            };
            let head = if constant {
                format!("{head} CONSTANT")
            } else {
                head.to_string()
            };
            self.line_text(&head);
            self.indent += 1;
            for v in &vars[i..j] {
                let init = match &v.init {
                    Some(e) => format!(" := {}", self.expr(e, 0)),
                    None => String::new(),
                };
                self.line_text(&format!("{} : {}{};", v.name, type_text(&v.ty), init));
            }
            self.indent -= 1;
            self.line_text("END_VAR");
            i = j;
        }
    }

    fn pou(&mut self, pou: &Pou) {
        let (open, close) = match pou.kind {
            PouKind::Program => (format!("PROGRAM {}", pou.name), "END_PROGRAM"),
            PouKind::Function => (
                format!(
                    "FUNCTION {} : {}",
                    pou.name,
                    pou.ret
                        .as_ref()
                        .map(type_text)
                        .unwrap_or_else(|| "INT".into())
                ),
                "END_FUNCTION",
            ),
            PouKind::FunctionBlock => {
                (format!("FUNCTION_BLOCK {}", pou.name), "END_FUNCTION_BLOCK")
            }
        };
        self.line_text(&open);
        self.var_blocks(&pou.vars);
        self.block(&pou.body);
        self.line_text(close);
    }

    fn block(&mut self, stmts: &[Stmt]) {
        self.indent += 1;
        for s in stmts {
            self.stmt(s);
        }
        self.indent -= 1;
    }

    fn stmt(&mut self, s: &Stmt) {
        self.mark(s.id);
        match &s.kind {
            StmtKind::Assign { target, value } => {
                let t = format!("{} := {};", self.place(target), self.expr(value, 0));
                self.line_text(&t);
            }
            StmtKind::If {
                cond,
                then_,
                elsifs,
                else_,
            } => {
                let t = format!("IF {} THEN", self.expr(cond, 0));
                self.line_text(&t);
                self.block(then_);
                for (c, b) in elsifs {
                    let t = format!("ELSIF {} THEN", self.expr(c, 0));
                    self.line_text(&t);
                    self.block(b);
                }
                if let Some(b) = else_ {
                    self.line_text("ELSE");
                    self.block(b);
                }
                self.line_text("END_IF;");
            }
            StmtKind::Case {
                sel,
                sel_ty,
                arms,
                else_,
            } => {
                let t = format!("CASE {} OF", self.expr(sel, 0));
                self.line_text(&t);
                self.indent += 1;
                for (labels, b) in arms {
                    let ls: Vec<String> =
                        labels.iter().map(|l| self.case_label(l, sel_ty)).collect();
                    self.line_text(&format!("{}:", ls.join(", ")));
                    if b.is_empty() {
                        self.indent += 1;
                        self.line_text(";");
                        self.indent -= 1;
                    }
                    self.block(b);
                }
                if let Some(b) = else_ {
                    self.line_text("ELSE");
                    self.block(b);
                }
                self.indent -= 1;
                self.line_text("END_CASE;");
            }
            StmtKind::For {
                var,
                from,
                to,
                by,
                body,
            } => {
                let mut t = format!(
                    "FOR {} := {} TO {}",
                    var,
                    self.expr(from, 0),
                    self.expr(to, 0)
                );
                if let Some(b) = by {
                    let _ = write!(t, " BY {}", self.expr(b, 0));
                }
                t.push_str(" DO");
                self.line_text(&t);
                self.block(body);
                self.line_text("END_FOR;");
            }
            StmtKind::While { cond, body } => {
                let t = format!("WHILE {} DO", self.expr(cond, 0));
                self.line_text(&t);
                self.block(body);
                self.line_text("END_WHILE;");
            }
            StmtKind::Repeat { body, until } => {
                self.line_text("REPEAT");
                self.block(body);
                let t = format!("UNTIL {}", self.expr(until, 0));
                self.line_text(&t);
                self.line_text("END_REPEAT;");
            }
            StmtKind::Exit => self.line_text("EXIT;"),
            StmtKind::Continue => self.line_text("CONTINUE;"),
            StmtKind::Return(None) => self.line_text("RETURN;"),
            StmtKind::Return(Some(e)) => {
                let t = format!("RETURN {};", self.expr(e, 0));
                self.line_text(&t);
            }
            StmtKind::FbCall { inst, args, .. } => {
                let t = format!("{}({});", self.place(inst), self.args(args, true));
                self.line_text(&t);
            }
            StmtKind::CallStmt(e) => {
                let t = format!("{};", self.expr(e, 0));
                self.line_text(&t);
            }
            StmtKind::Empty => self.line_text(";"),
        }
    }

    fn case_label(&self, l: &CaseLabel, sel_ty: &Ty) -> String {
        match l {
            CaseLabel::Single(v) => format!("{v}"),
            CaseLabel::Range(a, b) => format!("{a}..{b}"),
            CaseLabel::Variant(i) => match sel_ty {
                Ty::Enum(name) => literal_text(&Val::Enum(name.clone(), *i), self.prog, true),
                _ => format!("{i}"),
            },
        }
    }

    fn args(&self, args: &[Arg], formal: bool) -> String {
        let parts: Vec<String> = args
            .iter()
            .map(|a| {
                let (sep, text) = match &a.val {
                    ArgVal::In(e) => (":=", self.expr(e, 0)),
                    ArgVal::Out(p) => ("=>", self.place(p)),
                    ArgVal::InOut(p) => (":=", self.place(p)),
                };
                if formal {
                    format!("{} {} {}", a.param, sep, text)
                } else {
                    text
                }
            })
            .collect();
        parts.join(", ")
    }

    pub fn place(&self, p: &Place) -> String {
        let mut s = p.base.clone();
        for sel in &p.path {
            match sel {
                Sel::Index(ix) => {
                    let parts: Vec<String> = ix.iter().map(|e| self.expr(e, 0)).collect();
                    let _ = write!(s, "[{}]", parts.join(", "));
                }
                Sel::Field(f) => {
                    let _ = write!(s, ".{f}");
                }
            }
        }
        s
    }

    /// Print `e` in a context that requires precedence >= `min_prec`.
    fn expr(&self, e: &Expr, min_prec: u8) -> String {
        match e {
            Expr::Lit(v) => literal_text(v, self.prog, true),
            Expr::Untyped(v) => literal_text(v, self.prog, false),
            Expr::Read(p) => self.place(p),
            Expr::Un(op, inner) => {
                // operand: a primary, or parenthesised (never another bare unary: "- -x")
                let needs = !matches!(**inner, Expr::Read(_) | Expr::Call { .. } | Expr::Std(..))
                    && !matches!(&**inner, Expr::Lit(v) | Expr::Untyped(v) if !lit_is_negative(v));
                let it = if needs || self.opts.full_parens && !is_primary(inner) {
                    format!("({})", self.expr(inner, 0))
                } else {
                    self.expr(inner, 8)
                };
                let t = match op {
                    UnOp::Neg => format!("-{it}"),
                    UnOp::Not => format!("NOT {it}"),
                };
                if min_prec > 8 || (self.opts.full_parens && min_prec > 0) {
                    format!("({t})")
                } else {
                    t
                }
            }
            Expr::Bin(op, l, r) => {
                let p = op.prec();
                let sym = if *op == BinOp::And && self.opts.ampersand {
                    "&"
                } else {
                    op.symbol()
                };
                let t = format!("{} {} {}", self.expr(l, p), sym, self.expr(r, p + 1));
                if p < min_prec || (self.opts.full_parens && min_prec > 0) {
                    format!("({t})")
                } else {
                    t
                }
            }
            Expr::Call { func, args, formal } => format!("{}({})", func, self.args(args, *formal)),
            Expr::Std(f, args) => {
                let name = match f {
                    StdFn::Conv(a, b) => format!("{}_TO_{}", a.name(), b.name()),
                    StdFn::Abs => "ABS".into(),
                    StdFn::Min => "MIN".into(),
                    StdFn::Max => "MAX".into(),
                    StdFn::Sel => "SEL".into(),
                    StdFn::Limit => "LIMIT".into(),
                };
                let parts: Vec<String> = args.iter().map(|a| self.expr(a, 0)).collect();
                format!("{}({})", name, parts.join(", "))
            }
        }
    }
}

fn is_primary(e: &Expr) -> bool {
    matches!(
        e,
        Expr::Lit(_) | Expr::Untyped(_) | Expr::Read(_) | Expr::Call { .. } | Expr::Std(..)
    )
}

fn lit_is_negative(v: &Val) -> bool {
    match v {
        Val::Int(_, n) => *n < 0,
        Val::Real(b) => f32::from_bits(*b).is_sign_negative(),
        Val::LReal(b) => f64::from_bits(*b).is_sign_negative(),
        Val::Time(n) => *n < 0,
        _ => false,
    }
}

/// Print a single expression (used in messages).
pub fn expr_text(prog: &Program, e: &Expr) -> String {
    let p = P {
        out: String::new(),
        line: 0,
        indent: 0,
        opts: PrintOpts::default(),
        pos: BTreeMap::new(),
        prog,
    };
    p.expr(e, 0)
}
