//! Expression productions of the generator.

use super::ast::*;
use super::gen::{Access, AccessStep, Gen};

impl<'a, 't> Gen<'a, 't> {
    /// Index expression for one dimension. Mostly in bounds; variables and arithmetic make
    /// out-of-bounds subscripts (-> Index fault) reachable. Never a *constant* out of bounds.
    fn index_expr(&mut self, lo: i64, hi: i64, call_free: bool) -> Expr {
        let _ = call_free; // index expressions are always call-free
                           // an active FOR variable is the natural subscript
        let fors: Vec<(String, Elem)> = self
            .scope
            .iter()
            .filter(|v| self.active_for.contains(&v.name))
            .filter_map(|v| v.ty.elem().map(|e| (v.name.clone(), e)))
            .collect();
        let w_for = if fors.is_empty() { 0 } else { 6 };
        match self.r.weighted(&[8, w_for, 2, 2]) {
            1 => {
                let (n, _) = &fors[self.r.pick(fors.len())];
                Expr::Read(Place::var(n))
            }
            2 => {
                // any integer variable in scope
                let ints: Vec<Access> = self
                    .readable_any_int()
                    .into_iter()
                    .filter(|a| a.steps.is_empty() && !self.is_constant(&a.base))
                    .collect();
                if ints.is_empty() {
                    self.index_literal(lo, hi)
                } else {
                    let a = ints[self.r.pick(ints.len())].clone();
                    Expr::Read(Place::var(&a.base))
                }
            }
            3 => {
                // variable + in-range literal (same type)
                let ints: Vec<Access> = self
                    .readable_any_int()
                    .into_iter()
                    .filter(|a| a.steps.is_empty() && !self.is_constant(&a.base))
                    .collect();
                if ints.is_empty() {
                    return self.index_literal(lo, hi);
                }
                let a = ints[self.r.pick(ints.len())].clone();
                let Ty::Elem(e) = a.ty else {
                    return self.index_literal(lo, hi);
                };
                let (tlo, thi) = e.int_range();
                let k = (lo as i128).max(tlo).min(thi);
                Expr::Bin(
                    BinOp::Add,
                    Box::new(Expr::Read(Place::var(&a.base))),
                    Box::new(Expr::Lit(Val::Int(e, k))),
                )
            }
            _ => self.index_literal(lo, hi),
        }
    }

    fn index_literal(&mut self, lo: i64, hi: i64) -> Expr {
        let span = (hi - lo + 1).max(1) as usize;
        let v = lo + self.r.pick(span) as i64;
        // subscript literal types: INT mostly, any integer type that holds the value
        let mut cands = vec![Elem::Int, Elem::DInt, Elem::SInt, Elem::LInt];
        if v >= 0 {
            cands.extend([Elem::USInt, Elem::UInt, Elem::UDInt, Elem::ULInt]);
        }
        let e = cands[self.r.weighted(
            &vec![3; cands.len()]
                .iter()
                .enumerate()
                .map(|(i, w)| if i == 0 { 10 } else { *w })
                .collect::<Vec<u32>>(),
        )];
        let (tlo, thi) = e.int_range();
        let e = if (v as i128) < tlo || (v as i128) > thi {
            Elem::DInt
        } else {
            e
        };
        // The checker's constant evaluation of a *typed* negative literal subscript drops the
        // sign (E304 "array index 2 outside bounds -2..0" for `a[INT#-2]`), so negative
        // constant subscripts are written untyped (`a[-2]`, a DINT literal).
        if v < 0 || (!self.cfg.strict && self.r.flag()) {
            return Expr::Untyped(Val::Int(Elem::DInt, v as i128));
        }
        Expr::Lit(Val::Int(e, v as i128))
    }

    pub(super) fn place_of(&mut self, a: &Access) -> Place {
        let mut path = Vec::new();
        for s in &a.steps {
            match s {
                AccessStep::Field(f) => path.push(Sel::Field(f.clone())),
                AccessStep::Index(dims) => {
                    let ix: Vec<Expr> = dims
                        .clone()
                        .iter()
                        .map(|(lo, hi)| self.index_expr(*lo, *hi, true))
                        .collect();
                    path.push(Sel::Index(ix));
                }
            }
        }
        Place {
            base: a.base.clone(),
            path,
        }
    }

    /// Place with constant in-bounds subscripts (for VAR_OUTPUT / VAR_IN_OUT bindings).
    pub(super) fn const_place_of(&mut self, a: &Access) -> Place {
        let mut path = Vec::new();
        for s in &a.steps {
            match s {
                AccessStep::Field(f) => path.push(Sel::Field(f.clone())),
                AccessStep::Index(dims) => {
                    let ix: Vec<Expr> = dims
                        .clone()
                        .iter()
                        .map(|(lo, hi)| self.index_literal(*lo, *hi))
                        .collect();
                    path.push(Sel::Index(ix));
                }
            }
        }
        Place {
            base: a.base.clone(),
            path,
        }
    }

    fn readable(&self, ty: &Ty) -> Vec<Access> {
        self.accesses()
            .into_iter()
            .filter(|a| a.ty == *ty)
            // a FOR control variable is only meaningful inside the loop it controls
            .filter(|a| a.role != Role::ForControl || self.active_for.contains(&a.base))
            .filter(|a| a.role != Role::TolerantSink && a.role != Role::Result)
            .collect()
    }

    /// Leaf of type `ty`: a variable read when one exists (2:1), else a literal.
    pub(super) fn leaf(&mut self, ty: &Ty) -> Expr {
        let reads = self.readable(ty);
        if !reads.is_empty() && self.r.weighted(&[1, 2]) == 1 {
            let a = reads[self.r.pick(reads.len())].clone();
            return Expr::Read(self.place_of(&a));
        }
        self.literal(ty)
    }

    /// Expression of elementary type `e`. `effects`: calls that bind VAR_OUTPUT/VAR_IN_OUT
    /// are allowed at this position.
    pub(super) fn expr(&mut self, e: Elem, depth: usize, effects: bool) -> Expr {
        let ty = Ty::Elem(e);
        if depth == 0 || self.r.exhausted() {
            return self.leaf(&ty);
        }
        match e {
            Elem::Bool => self.bool_expr(depth, effects),
            Elem::Time => self.leaf(&ty),
            _ => self.num_expr(e, depth, effects),
        }
    }

    pub(super) fn expr_of(&mut self, ty: &Ty, depth: usize, effects: bool) -> Expr {
        match ty {
            Ty::Elem(e) => self.expr(*e, depth, effects),
            Ty::Enum(_) => self.leaf(ty),
            other => {
                // whole array / struct: a variable of exactly this type
                let vars: Vec<String> = self
                    .scope
                    .iter()
                    .filter(|v| v.ty == *other)
                    .map(|v| v.name.clone())
                    .collect();
                if vars.is_empty() {
                    Expr::Lit(Val::Bool(false)) // callers check availability first
                } else {
                    Expr::Read(Place::var(&vars[self.r.pick(vars.len())]))
                }
            }
        }
    }

    fn call_candidates(&self, ret: &Ty, effects: bool) -> Vec<usize> {
        if !self.cfg.features.functions {
            return Vec::new();
        }
        (0..self.callable_fns.min(self.fn_sigs.len()))
            .filter(|i| self.fn_sigs[*i].ret.as_ref() == Some(ret))
            .filter(|i| effects || self.fn_sigs[*i].pure_)
            .filter(|i| self.call_feasible(&self.fn_sigs[*i]))
            .collect()
    }

    /// Every composite / by-reference parameter needs a variable of exactly that type.
    pub(super) fn call_feasible(&self, sig: &super::gen::Sig) -> bool {
        let mut used: Vec<String> = Vec::new();
        for (_, kind, ty, _) in &sig.params {
            match kind {
                VarKind::Input => {
                    if !matches!(ty, Ty::Elem(_) | Ty::Enum(_))
                        && !self.scope.iter().any(|v| v.ty == *ty)
                    {
                        return false;
                    }
                }
                VarKind::Output | VarKind::InOut => {
                    let cand = self.out_candidates(ty, &used);
                    match cand.first() {
                        Some(a) => used.push(a.base.clone()),
                        None => return false,
                    }
                }
                _ => {}
            }
        }
        true
    }

    /// Writable places of type `ty` that may be bound to an output / in-out parameter.
    pub(super) fn out_candidates(&self, ty: &Ty, used: &[String]) -> Vec<Access> {
        let whole: Vec<Access> = self
            .scope
            .iter()
            .filter(|v| v.ty == *ty && v.writable && v.role == Role::Data)
            .map(|v| Access {
                base: v.name.clone(),
                steps: Vec::new(),
                ty: v.ty.clone(),
                writable: true,
                role: v.role,
            })
            .collect();
        let mut all = whole;
        if matches!(ty, Ty::Elem(_) | Ty::Enum(_)) {
            all.extend(self.accesses().into_iter().filter(|a| {
                a.ty == *ty && a.writable && a.role == Role::Data && a.steps.len() == 1
            }));
        }
        all.into_iter()
            .filter(|a| !self.no_out.contains(&a.base) && !self.frozen.contains(&a.base))
            .filter(|a| self.cfg.features.inout_alias || !used.contains(&a.base))
            .collect()
    }

    pub(super) fn call_expr(&mut self, idx: usize, depth: usize) -> Expr {
        let sig = self.fn_sigs[idx].clone();
        let nested = self.in_call_args;
        let formal = self.cfg.features.named_args && self.r.chance(2, 5) && !nested;
        let mut args = Vec::new();
        let mut used: Vec<String> = Vec::new();
        for (name, kind, ty, has_default) in &sig.params {
            match kind {
                VarKind::Input => {
                    // formal calls may leave inputs out (declared initial value / default)
                    if formal && self.r.chance(if *has_default { 2 } else { 1 }, 6) {
                        continue;
                    }
                    // nested calls inside arguments are pure (argument evaluation order
                    // of effects is not specified by the standard)
                    let saved = std::mem::replace(&mut self.in_call_args, true);
                    let e = self.expr_of(ty, depth.saturating_sub(1), false);
                    self.in_call_args = saved;
                    args.push(Arg {
                        param: name.clone(),
                        val: ArgVal::In(e),
                    });
                }
                VarKind::Output => {
                    if formal && self.r.chance(1, 4) {
                        continue;
                    }
                    let cands = self.out_candidates(ty, &used);
                    if cands.is_empty() {
                        continue;
                    }
                    let a = cands[self.r.pick(cands.len())].clone();
                    used.push(a.base.clone());
                    let p = self.const_place_of(&a);
                    args.push(Arg {
                        param: name.clone(),
                        val: ArgVal::Out(p),
                    });
                }
                VarKind::InOut => {
                    let cands = self.out_candidates(ty, &used);
                    if cands.is_empty() {
                        // no variable left to bind by reference: give up on the call
                        let ret = sig.ret.clone().unwrap_or(Ty::Elem(Elem::Int));
                        return self.leaf(&ret);
                    }
                    let a = cands[self.r.pick(cands.len())].clone();
                    used.push(a.base.clone());
                    let p = self.const_place_of(&a);
                    args.push(Arg {
                        param: name.clone(),
                        val: ArgVal::InOut(p),
                    });
                }
                _ => {}
            }
        }
        // positional calls need every parameter
        let complete = args.len() == sig.params.len();
        if nested && !complete {
            let ret = sig.ret.clone().unwrap_or(Ty::Elem(Elem::Int));
            return self.leaf(&ret);
        }
        let formal = formal || !complete;
        // written order of formal arguments is free when evaluating them cannot fault or
        // have effects (literals / plain variables) - otherwise keep declaration order
        if formal && args.len() > 1 && self.r.chance(1, 3) {
            let simple = args.iter().all(|a| match &a.val {
                ArgVal::In(Expr::Lit(_)) | ArgVal::In(Expr::Untyped(_)) => true,
                ArgVal::In(Expr::Read(p)) => p.path.is_empty(),
                ArgVal::In(_) => false,
                ArgVal::Out(p) | ArgVal::InOut(p) => p.path.is_empty(),
            });
            if simple {
                let k = self.r.pick(args.len());
                args.rotate_left(k);
            }
        }
        Expr::Call {
            func: sig.name.clone(),
            args,
            formal,
        }
    }

    fn num_expr(&mut self, e: Elem, depth: usize, effects: bool) -> Expr {
        let ty = Ty::Elem(e);
        let calls = self.call_candidates(&ty, effects);
        let w_call = if calls.is_empty() { 0 } else { 4 };
        let w_neg = if e.is_signed_int() || e.is_real() {
            2
        } else {
            0
        };
        let w_conv = if self.cfg.features.conversions && !self.conv_sources(e).is_empty() {
            2
        } else {
            0
        };
        let w_std = if self.cfg.features.std_functions {
            2
        } else {
            0
        };
        match self.r.weighted(&[6, 14, w_neg, w_call, w_conv, w_std]) {
            0 => self.leaf(&ty),
            2 => Expr::Un(UnOp::Neg, Box::new(self.expr(e, depth - 1, effects))),
            3 => {
                let i = calls[self.r.pick(calls.len())];
                self.call_expr(i, depth)
            }
            4 => {
                let srcs = self.conv_sources(e);
                let s = srcs[self.r.pick(srcs.len())];
                let saved = std::mem::replace(&mut self.in_call_args, true);
                let arg = self.expr(s, depth - 1, false);
                self.in_call_args = saved;
                Expr::Std(StdFn::Conv(s, e), vec![arg])
            }
            5 => {
                let saved = std::mem::replace(&mut self.in_call_args, true);
                let x = self.std_expr(e, depth);
                self.in_call_args = saved;
                x
            }
            _ => {
                // consumed only when the switch is on: other users' tapes are unaffected
                if self.cfg.boundary_pairs && self.r.chance(1, 20) {
                    return self.boundary_pair_expr(e);
                }
                let ops: &[BinOp] = if e.is_int() {
                    &[BinOp::Add, BinOp::Sub, BinOp::Mul, BinOp::Div, BinOp::Mod]
                } else {
                    &[BinOp::Add, BinOp::Sub, BinOp::Mul, BinOp::Div]
                };
                let op = ops[self.r.pick(ops.len())];
                let (lt, rt) = self.operand_types(e);
                let l = self.expr(lt, depth - 1, effects);
                let r = if matches!(op, BinOp::Div | BinOp::Mod) && self.r.chance(2, 3) {
                    self.nonzero_literal(rt)
                } else {
                    self.expr(rt, depth - 1, effects)
                };
                Expr::Bin(op, Box::new(l), Box::new(r))
            }
        }
    }

    fn std_expr(&mut self, e: Elem, depth: usize) -> Expr {
        let ty = Ty::Elem(e);
        match self.r.pick(4) {
            0 => Expr::Std(
                StdFn::Sel,
                vec![
                    self.sel_selector(depth - 1),
                    self.expr(e, depth - 1, false),
                    self.expr(e, depth - 1, false),
                ],
            ),
            1 => Expr::Std(
                StdFn::Min,
                vec![
                    self.expr(e, depth - 1, false),
                    self.expr(e, depth - 1, false),
                ],
            ),
            2 => Expr::Std(
                StdFn::Max,
                vec![
                    self.expr(e, depth - 1, false),
                    self.expr(e, depth - 1, false),
                ],
            ),
            _ => {
                if e.is_real() || e.is_unsigned_int() {
                    Expr::Std(StdFn::Abs, vec![self.expr(e, depth - 1, false)])
                } else {
                    self.leaf(&ty)
                }
            }
        }
    }

    /// One operand of a boundary pair: the literal (synthesised where the value has no
    /// literal form, see `print::literal_text`) or - 1 time in 3 - a variable of that type,
    /// which the trace's boundary bursts drive to the same extremes.
    fn boundary_operand(&mut self, e: Elem, v: Val) -> Expr {
        if self.r.chance(1, 3) {
            let reads: Vec<Access> = self
                .readable(&Ty::Elem(e))
                .into_iter()
                .filter(|a| a.steps.is_empty() && !self.is_constant(&a.base))
                .collect();
            if !reads.is_empty() {
                let a = reads[self.r.pick(reads.len())].clone();
                return Expr::Read(Place::var(&a.base));
            }
        }
        Expr::Lit(v)
    }

    /// Deliberately paired extremes: `min / -1`, `min MOD -1`, `min * -1`, `-min`,
    /// `min - 1`, `max + 1`, `max * 2`, REAL `MAX + MAX`, ... (half of the time the pair that
    /// sits exactly on the fault edge of the operator, else any pair of boundary values).
    fn boundary_pair_expr(&mut self, e: Elem) -> Expr {
        if e.is_real() {
            let vals: [f64; 8] = if e == Elem::Real {
                [f32::MAX as f64, -(f32::MAX as f64), 1.0, -1.0, 0.0, f32::MIN_POSITIVE as f64, 2.0, 0.5]
            } else {
                [f64::MAX, -f64::MAX, 1.0, -1.0, 0.0, f64::MIN_POSITIVE, 2.0, 0.5]
            };
            let mk = |x: f64| if e == Elem::Real { Val::real(x as f32) } else { Val::lreal(x) };
            let op = [BinOp::Mul, BinOp::Add, BinOp::Sub, BinOp::Div][self.r.pick(4)];
            let (a, b) = if self.r.flag() {
                match op {
                    BinOp::Mul => (vals[0], vals[6]),
                    BinOp::Add => (vals[0], vals[0]),
                    BinOp::Sub => (vals[1], vals[0]),
                    _ => (vals[0], vals[5]),
                }
            } else {
                (vals[self.r.pick(8)], vals[self.r.pick(8)])
            };
            let l = self.boundary_operand(e, mk(a));
            let r = self.boundary_operand(e, mk(b));
            return Expr::Bin(op, Box::new(l), Box::new(r));
        }
        if !e.is_int() {
            return self.leaf(&Ty::Elem(e));
        }
        let (lo, hi) = e.int_range();
        let clamp = |v: i128| v.max(lo).min(hi);
        let set = [lo, clamp(lo + 1), clamp(-1), 0, 1, hi - 1, hi];
        if e.is_signed_int() && self.r.chance(1, 6) {
            let v = if self.r.chance(2, 3) { lo } else { set[self.r.pick(7)] };
            let x = self.boundary_operand(e, Val::Int(e, v));
            return Expr::Un(UnOp::Neg, Box::new(x));
        }
        let op = [BinOp::Div, BinOp::Mod, BinOp::Mul, BinOp::Add, BinOp::Sub][self.r.pick(5)];
        let (a, b) = if self.r.flag() {
            match (op, e.is_signed_int()) {
                (BinOp::Div | BinOp::Mod | BinOp::Mul, true) => (lo, -1),
                (BinOp::Div | BinOp::Mod, false) => (hi, 1),
                (BinOp::Mul, false) => (hi, 2),
                (BinOp::Add, _) => (hi, 1),
                _ => (lo, 1),
            }
        } else {
            (set[self.r.pick(7)], set[self.r.pick(7)])
        };
        let (a, b) = if self.r.chance(1, 4) { (b, a) } else { (a, b) };
        let l = self.boundary_operand(e, Val::Int(e, a));
        let r = self.boundary_operand(e, Val::Int(e, b));
        Expr::Bin(op, Box::new(l), Box::new(r))
    }

    /// Operand types of a binary operation with result type `e`: both `e` in the strict
    /// dial; in the implicit dial one operand may be narrower (same promotion chain).
    fn operand_types(&mut self, e: Elem) -> (Elem, Elem) {
        if self.cfg.strict || !self.r.chance(1, 3) {
            return (e, e);
        }
        let narrower: Vec<Elem> = INT_TYPES
            .iter()
            .copied()
            .filter(|n| e.is_int() && n.is_signed_int() == e.is_signed_int() && n.bits() < e.bits())
            .chain(if e == Elem::LReal {
                vec![Elem::Real]
            } else {
                vec![]
            })
            .collect();
        if narrower.is_empty() {
            return (e, e);
        }
        let n = narrower[self.r.pick(narrower.len())];
        if self.r.flag() {
            (n, e)
        } else {
            (e, n)
        }
    }

    fn nonzero_literal(&mut self, e: Elem) -> Expr {
        let v = self.elem_value(e);
        let v = match v {
            Val::Int(t, 0) => Val::Int(t, 2),
            Val::Real(b) if f32::from_bits(b) == 0.0 => Val::real(2.0),
            Val::LReal(b) if f64::from_bits(b) == 0.0 => Val::lreal(2.0),
            other => other,
        };
        Expr::Lit(v)
    }

    /// Types with a value-preserving (or correctly rounding) conversion to `e`.
    fn conv_sources(&self, e: Elem) -> Vec<Elem> {
        let mut v = Vec::new();
        for s in INT_TYPES {
            if s == e {
                continue;
            }
            if e.is_int() {
                let ok = (s.is_signed_int() == e.is_signed_int() && s.bits() < e.bits())
                    || (s.is_unsigned_int() && e.is_signed_int() && s.bits() < e.bits());
                if ok {
                    v.push(s);
                }
            } else if e.is_real() && self.cfg.features.reals {
                v.push(s);
            }
        }
        if e == Elem::LReal && self.cfg.features.reals {
            v.push(Elem::Real);
        }
        v
    }

    fn bool_expr(&mut self, depth: usize, effects: bool) -> Expr {
        let ty = Ty::Elem(Elem::Bool);
        let calls = self.call_candidates(&ty, effects);
        let w_call = if calls.is_empty() { 0 } else { 2 };
        match self.r.weighted(&[4, 8, 5, 2, 3, w_call]) {
            0 => self.leaf(&ty),
            1 => {
                // enum equality when an enum variable is in scope
                let enums: Vec<Ty> = {
                    let mut v: Vec<Ty> = Vec::new();
                    for a in self.accesses() {
                        if matches!(a.ty, Ty::Enum(_)) && !v.contains(&a.ty) {
                            v.push(a.ty.clone());
                        }
                    }
                    v
                };
                if !enums.is_empty() && self.r.chance(1, 4) {
                    let ty = enums[self.r.pick(enums.len())].clone();
                    let op = if self.r.flag() { BinOp::Eq } else { BinOp::Ne };
                    let l = self.leaf(&ty);
                    let r = self.leaf(&ty);
                    return Expr::Bin(op, Box::new(l), Box::new(r));
                }
                // comparison over some type that has readable variables, else any type
                let e = self.pick_cmp_type();
                let ops: &[BinOp] = if e == Elem::Bool {
                    &[BinOp::Eq, BinOp::Ne]
                } else {
                    &[
                        BinOp::Lt,
                        BinOp::Eq,
                        BinOp::Gt,
                        BinOp::Le,
                        BinOp::Ne,
                        BinOp::Ge,
                    ]
                };
                let op = ops[self.r.pick(ops.len())];
                let l = self.expr(e, depth - 1, effects);
                let r = self.expr(e, depth - 1, effects);
                Expr::Bin(op, Box::new(l), Box::new(r))
            }
            2 => {
                let op = [BinOp::And, BinOp::Or, BinOp::Xor][self.r.weighted(&[3, 3, 1])];
                let l = self.expr(Elem::Bool, depth - 1, effects);
                let r = self.expr(Elem::Bool, depth - 1, effects);
                Expr::Bin(op, Box::new(l), Box::new(r))
            }
            3 => Expr::Un(
                UnOp::Not,
                Box::new(self.expr(Elem::Bool, depth - 1, effects)),
            ),
            4 => self.guarded_expr(depth),
            _ => {
                let i = calls[self.r.pick(calls.len())];
                self.call_expr(i, depth)
            }
        }
    }

    /// Selector of SEL: a variable/literal or a comparison. (`SEL(a & b, ..)` is rejected by
    /// the checker with "expected BOOL selector"; `SEL(a AND b, ..)` is accepted.)
    fn sel_selector(&mut self, depth: usize) -> Expr {
        if depth == 0 || self.r.flag() {
            return self.leaf(&Ty::Elem(Elem::Bool));
        }
        let e = self.pick_cmp_type();
        let op = if e == Elem::Bool {
            BinOp::Eq
        } else {
            [BinOp::Lt, BinOp::Ge, BinOp::Eq][self.r.pick(3)]
        };
        let l = self.expr(e, depth - 1, false);
        let r = self.expr(e, depth - 1, false);
        Expr::Bin(op, Box::new(l), Box::new(r))
    }

    fn pick_cmp_type(&mut self) -> Elem {
        let mut present: Vec<Elem> = Vec::new();
        for a in self.accesses() {
            if let Ty::Elem(e) = a.ty {
                if !present.contains(&e) {
                    present.push(e);
                }
            }
        }
        if !present.is_empty() && self.r.chance(3, 4) {
            present[self.r.pick(present.len())]
        } else {
            self.pick_elem()
        }
    }

    /// Short-circuit shapes whose right operand faults exactly when the left operand does
    /// not protect it: `(d <> 0) AND (n / d > k)`, `(d = 0) OR (n MOD d = k)`.
    fn guarded_expr(&mut self, depth: usize) -> Expr {
        let ints: Vec<Access> = self
            .readable_any_int()
            .into_iter()
            .filter(|a| a.steps.is_empty())
            .collect();
        if ints.is_empty() {
            return self.leaf(&Ty::Elem(Elem::Bool));
        }
        let d = ints[self.r.pick(ints.len())].clone();
        let Ty::Elem(e) = d.ty else {
            return self.leaf(&Ty::Elem(Elem::Bool));
        };
        let dv = Expr::Read(Place::var(&d.base));
        let zero = Expr::Lit(Val::Int(e, 0));
        let n = self.expr(e, depth.saturating_sub(1).min(1), false);
        let k = self.literal(&Ty::Elem(e));
        let op = if self.r.flag() {
            BinOp::Div
        } else {
            BinOp::Mod
        };
        let risky = Expr::Bin(
            [BinOp::Gt, BinOp::Eq, BinOp::Le][self.r.pick(3)],
            Box::new(Expr::Bin(op, Box::new(n), Box::new(dv.clone()))),
            Box::new(k),
        );
        match self.r.pick(4) {
            0 => Expr::Bin(
                BinOp::And,
                Box::new(Expr::Bin(BinOp::Ne, Box::new(dv), Box::new(zero))),
                Box::new(risky),
            ),
            1 => Expr::Bin(
                BinOp::Or,
                Box::new(Expr::Bin(BinOp::Eq, Box::new(dv), Box::new(zero))),
                Box::new(risky),
            ),
            // unprotecting variants: the fault must appear when d = 0
            2 => Expr::Bin(
                BinOp::And,
                Box::new(Expr::Bin(BinOp::Eq, Box::new(dv), Box::new(zero))),
                Box::new(risky),
            ),
            _ => Expr::Bin(
                BinOp::Or,
                Box::new(Expr::Bin(BinOp::Ne, Box::new(dv), Box::new(zero))),
                Box::new(risky),
            ),
        }
    }

    /// Constants fold at compile time: a constant subscript outside the bounds is a
    /// compile error (E304), not a runtime fault.
    fn is_constant(&self, base: &str) -> bool {
        self.scope.iter().any(|v| v.name == base && v.constant)
    }

    fn readable_any_int(&self) -> Vec<Access> {
        self.accesses()
            .into_iter()
            .filter(|a| matches!(a.ty, Ty::Elem(e) if e.is_int()))
            .filter(|a| a.role != Role::ForControl || self.active_for.contains(&a.base))
            .filter(|a| a.role != Role::TolerantSink && a.role != Role::Result)
            .collect()
    }
}
