//! Driver for the *real* runtime: compile a printed program with `TestHarness`, apply an
//! input trace, run cycles and dump the complete variable storage after every cycle in
//! the vocabulary of `stgen::ast::Val` (so that it can be compared with `stref`).

use std::collections::BTreeMap;

use trust_runtime::error::RuntimeError;
use trust_runtime::harness::TestHarness;
use trust_runtime::memory::{InstanceId, VariableStorage};
use trust_runtime::value::{Duration, Value};

use super::ast::*;

/// Observed value: like `Val`, plus a catch-all for runtime values outside the generated
/// core (they only show up when something went wrong, e.g. a wrongly typed store).
#[derive(Clone, Debug, PartialEq)]
pub enum Obs {
    V(Val),
    Other(String),
}

/// Fault classes of the property statement.
#[derive(
    Clone, Copy, Debug, PartialEq, Eq, Hash, PartialOrd, Ord, serde::Serialize, serde::Deserialize,
)]
pub enum FaultKind {
    DivByZero,
    ModByZero,
    Overflow,
    Index,
    ForStepZero,
    Null,
}

impl FaultKind {
    pub fn name(self) -> &'static str {
        match self {
            FaultKind::DivByZero => "DivisionByZero",
            FaultKind::ModByZero => "ModuloByZero",
            FaultKind::Overflow => "Overflow",
            FaultKind::Index => "IndexOutOfBounds",
            FaultKind::ForStepZero => "ForStepZero",
            FaultKind::Null => "NullReference",
        }
    }
}

/// Outcome of one cycle of the real runtime.
#[derive(Clone, Debug)]
pub enum RealFault {
    /// A fault of one of the value-dependent classes.
    Kind(FaultKind),
    /// Any other runtime error (static-class errors, timeouts, ...), rendered.
    Other(String),
}

pub fn classify(err: &RuntimeError) -> RealFault {
    match err {
        RuntimeError::DivisionByZero => RealFault::Kind(FaultKind::DivByZero),
        RuntimeError::ModuloByZero => RealFault::Kind(FaultKind::ModByZero),
        RuntimeError::Overflow => RealFault::Kind(FaultKind::Overflow),
        RuntimeError::IndexOutOfBounds { .. } => RealFault::Kind(FaultKind::Index),
        RuntimeError::ForStepZero => RealFault::Kind(FaultKind::ForStepZero),
        RuntimeError::NullReference => RealFault::Kind(FaultKind::Null),
        other => RealFault::Other(format!("{other:?}")),
    }
}

/// Flattened state: path ("Main.x", "Main.fb0.cnt", "Main.a[2]", "G.g") -> leaf value.
pub type FlatState = BTreeMap<String, Obs>;

pub fn val_to_value(v: &Val, prog: &Program) -> Option<Value> {
    Some(match v {
        Val::Enum(ty, idx) => {
            let Some(TypeDecl::Enum { variants, .. }) = prog.type_decl(ty) else {
                return None;
            };
            Value::Enum(trust_runtime::value::EnumValue {
                type_name: ty.as_str().into(),
                variant_name: variants.get(*idx as usize)?.as_str().into(),
                numeric_value: *idx as i64,
            })
        }
        Val::Bool(b) => Value::Bool(*b),
        Val::Int(e, n) => match e {
            Elem::SInt => Value::SInt(*n as i8),
            Elem::Int => Value::Int(*n as i16),
            Elem::DInt => Value::DInt(*n as i32),
            Elem::LInt => Value::LInt(*n as i64),
            Elem::USInt => Value::USInt(*n as u8),
            Elem::UInt => Value::UInt(*n as u16),
            Elem::UDInt => Value::UDInt(*n as u32),
            Elem::ULInt => Value::ULInt(*n as u64),
            _ => return None,
        },
        Val::Real(b) => Value::Real(f32::from_bits(*b)),
        Val::LReal(b) => Value::LReal(f64::from_bits(*b)),
        Val::Time(ns) => Value::Time(Duration::from_nanos(*ns)),
        _ => return None,
    })
}

/// Convert a runtime value into the observation vocabulary. `enum_index` resolves an enum
/// variant name to its index in the generated declaration.
fn observe(value: &Value, storage: &VariableStorage, prog: &Program, depth: u32) -> Obs {
    if depth > 8 {
        return Obs::Other("<nesting too deep>".into());
    }
    Obs::V(match value {
        Value::Bool(b) => Val::Bool(*b),
        Value::SInt(v) => Val::Int(Elem::SInt, *v as i128),
        Value::Int(v) => Val::Int(Elem::Int, *v as i128),
        Value::DInt(v) => Val::Int(Elem::DInt, *v as i128),
        Value::LInt(v) => Val::Int(Elem::LInt, *v as i128),
        Value::USInt(v) => Val::Int(Elem::USInt, *v as i128),
        Value::UInt(v) => Val::Int(Elem::UInt, *v as i128),
        Value::UDInt(v) => Val::Int(Elem::UDInt, *v as i128),
        Value::ULInt(v) => Val::Int(Elem::ULInt, *v as i128),
        Value::Real(v) => Val::Real(v.to_bits()),
        Value::LReal(v) => Val::LReal(v.to_bits()),
        Value::Time(d) => Val::Time(d.as_nanos()),
        Value::Enum(e) => {
            let idx = match prog
                .types
                .iter()
                .find(|t| t.name().eq_ignore_ascii_case(&e.type_name))
            {
                Some(TypeDecl::Enum { variants, name }) => {
                    match variants
                        .iter()
                        .position(|v| v.eq_ignore_ascii_case(&e.variant_name))
                    {
                        Some(i) => return Obs::V(Val::Enum(name.clone(), i as u32)),
                        None => None::<u32>,
                    }
                }
                _ => None,
            };
            let _ = idx;
            return Obs::Other(format!("{value:?}"));
        }
        Value::Array(a) => {
            let mut elems = Vec::with_capacity(a.elements.len());
            for e in &a.elements {
                match observe(e, storage, prog, depth + 1) {
                    Obs::V(v) => elems.push(v),
                    Obs::Other(s) => return Obs::Other(format!("array element {s}")),
                }
            }
            Val::Array {
                dims: a.dimensions.clone(),
                elems,
            }
        }
        Value::Struct(s) => {
            let mut fields = Vec::with_capacity(s.fields.len());
            for (n, v) in &s.fields {
                match observe(v, storage, prog, depth + 1) {
                    Obs::V(v) => fields.push((n.to_string(), v)),
                    Obs::Other(o) => return Obs::Other(format!("field {n}: {o}")),
                }
            }
            let ty = prog
                .types
                .iter()
                .find(|t| t.name().eq_ignore_ascii_case(&s.type_name))
                .map(|t| t.name().to_string())
                .unwrap_or_else(|| s.type_name.to_string());
            Val::Struct { ty, fields }
        }
        Value::Instance(id) => return observe_instance(*id, storage, prog, depth + 1),
        other => return Obs::Other(format!("{other:?}")),
    })
}

fn observe_instance(id: InstanceId, storage: &VariableStorage, prog: &Program, depth: u32) -> Obs {
    let Some(inst) = storage.get_instance(id) else {
        return Obs::Other(format!("dangling instance {id:?}"));
    };
    let mut vars = Vec::with_capacity(inst.variables.len());
    for (n, v) in &inst.variables {
        match observe(v, storage, prog, depth) {
            Obs::V(v) => vars.push((n.to_string(), v)),
            Obs::Other(o) => vars.push((
                n.to_string(),
                Val::Struct {
                    ty: format!("<other:{o}>"),
                    fields: vec![],
                },
            )),
        }
    }
    let ty = prog
        .pous
        .iter()
        .find(|p| p.name.eq_ignore_ascii_case(&inst.type_name))
        .map(|p| p.name.clone())
        .unwrap_or_else(|| inst.type_name.to_string());
    Obs::V(Val::Fb { ty, vars })
}

/// Flatten a value into leaf paths.
pub fn flatten(prefix: &str, v: &Val, out: &mut BTreeMap<String, Val>) {
    match v {
        Val::Array { dims, elems } => {
            let mut idx: Vec<i64> = dims.iter().map(|d| d.0).collect();
            for e in elems {
                let parts: Vec<String> = idx.iter().map(|i| i.to_string()).collect();
                flatten(&format!("{}[{}]", prefix, parts.join(",")), e, out);
                // advance row-major
                for d in (0..dims.len()).rev() {
                    idx[d] += 1;
                    if idx[d] <= dims[d].1 {
                        break;
                    }
                    idx[d] = dims[d].0;
                }
            }
            out.insert(
                format!("{prefix}.#dims"),
                Val::Array {
                    dims: dims.clone(),
                    elems: vec![],
                },
            );
        }
        Val::Struct { ty, fields } => {
            out.insert(format!("{prefix}.#type"), Val::Enum(ty.clone(), 0));
            for (n, f) in fields {
                flatten(&format!("{prefix}.{n}"), f, out);
            }
        }
        Val::Fb { ty, vars } => {
            out.insert(format!("{prefix}.#type"), Val::Enum(ty.clone(), 0));
            for (n, f) in vars {
                flatten(&format!("{prefix}.{n}"), f, out);
            }
        }
        leaf => {
            out.insert(prefix.to_string(), leaf.clone());
        }
    }
}

/// A compiled program on the real runtime.
pub struct Real {
    pub harness: TestHarness,
}

/// Snapshot of the whole storage: globals (under "G.") and every program instance.
pub fn snapshot(harness: &TestHarness, prog: &Program) -> BTreeMap<String, Val> {
    let storage = harness.runtime().storage();
    let mut out = BTreeMap::new();
    for (name, value) in storage.globals() {
        let is_instance = prog
            .instances
            .iter()
            .any(|(inst, _)| inst.as_str() == name.as_str());
        let prefix = if is_instance {
            name.to_string()
        } else {
            format!("G.{name}")
        };
        match observe(value, storage, prog, 0) {
            Obs::V(v) => flatten(&prefix, &v, &mut out),
            Obs::Other(o) => {
                out.insert(
                    prefix,
                    Val::Struct {
                        ty: format!("<other:{o}>"),
                        fields: vec![],
                    },
                );
            }
        }
    }
    out
}

impl Real {
    pub fn compile(source: &str) -> Result<Real, String> {
        match TestHarness::from_source(source) {
            Ok(harness) => Ok(Real { harness }),
            Err(e) => Err(e.to_string()),
        }
    }

    /// Apply the writes and the clock step of one cycle input.
    pub fn apply(&mut self, prog: &Program, input: &CycleInput) -> Result<(), String> {
        for w in &input.writes {
            let value = val_to_value(&w.value, prog)
                .ok_or_else(|| format!("cannot write {:?}", w.value))?;
            if w.instance.is_empty() {
                self.harness
                    .runtime_mut()
                    .storage_mut()
                    .set_global(w.var.as_str(), value);
                continue;
            }
            let storage = self.harness.runtime().storage();
            let Some(Value::Instance(id)) = storage.get_global(w.instance.as_str()).cloned() else {
                return Err(format!("program instance {} not found", w.instance));
            };
            if storage.get_instance_var(id, w.var.as_str()).is_none() {
                return Err(format!("variable {}.{} not found", w.instance, w.var));
            }
            self.harness
                .runtime_mut()
                .storage_mut()
                .set_instance_var(id, w.var.as_str(), value);
        }
        let _ = prog;
        if input.dt_ns > 0 {
            self.harness.advance_time(Duration::from_nanos(input.dt_ns));
        }
        Ok(())
    }

    /// Run one cycle with an execution deadline; returns the fault, if any.
    pub fn cycle(&mut self, deadline_ms: u64) -> Option<RealFault> {
        let deadline = std::time::Instant::now() + std::time::Duration::from_millis(deadline_ms);
        self.harness
            .runtime_mut()
            .set_execution_deadline(Some(deadline));
        let result = self.harness.cycle();
        self.harness.runtime_mut().set_execution_deadline(None);
        result.errors.first().map(classify)
    }

    pub fn frames_left(&self) -> usize {
        self.harness.runtime().storage().frames().len()
    }
}
