use std::path::Path;

use tpverif::engine::{run_check, run_replay, run_worker, Tier};
use tpverif::props::registry;

fn usage() -> ! {
    eprintln!(
        "usage: tpv check <id> <quick|thorough>\n       tpv replay <id> <file>\n       tpv worker <id> <tier> <seed> <worker> <nworkers>\n       tpv list"
    );
    std::process::exit(2);
}

fn seed_from_env() -> u64 {
    std::env::var("VERIF_SEED")
        .ok()
        .and_then(|s| s.trim().parse::<u64>().ok())
        .unwrap_or(20260925)
}

fn main() {
    let args: Vec<String> = std::env::args().collect();
    if args.len() < 2 {
        usage();
    }
    // Property-specific helper subcommands (child processes of a check).
    if let Some(code) = tpverif::props::helper_subcommand(&args[1..]) {
        std::process::exit(code);
    }
    let reg = registry();
    let find = |id: &str| {
        reg.iter().find(|p| p.id.eq_ignore_ascii_case(id)).unwrap_or_else(|| {
            eprintln!("unknown property {id}");
            std::process::exit(2);
        })
    };
    match args[1].as_str() {
        "list" => {
            for p in &reg {
                println!("{}", p.id);
            }
        }
        "check" => {
            if args.len() < 4 {
                usage();
            }
            let info = find(&args[2]);
            let tier = Tier::parse(&args[3]).unwrap_or_else(|| usage());
            std::process::exit(run_check(info, tier, seed_from_env()));
        }
        "replay" => {
            // Run the case in a child process so that an abort / stack overflow / OOM of the
            // code under test is reported as a violation of the replayed case.
            if args.len() < 4 {
                usage();
            }
            let info = find(&args[2]);
            let exe = std::env::current_exe().expect("current_exe");
            let status = std::process::Command::new(exe)
                .arg("replay-inner")
                .arg(&args[2])
                .arg(&args[3])
                .status();
            match status {
                Ok(st) => match st.code() {
                    Some(c @ 0..=2) => std::process::exit(c),
                    _ => {
                        println!("VIOLATION property={} replay={}", info.id, &args[3]);
                        eprintln!("  replay process died ({st}) while running this case");
                        std::process::exit(1);
                    }
                },
                Err(e) => {
                    eprintln!("cannot spawn replay process: {e}");
                    std::process::exit(2);
                }
            }
        }
        "replay-inner" => {
            if args.len() < 4 {
                usage();
            }
            let info = find(&args[2]);
            std::process::exit(run_replay(info, Path::new(&args[3])));
        }
        "worker" => {
            if args.len() < 7 {
                usage();
            }
            let info = find(&args[2]);
            let tier = Tier::parse(&args[3]).unwrap_or_else(|| usage());
            let seed: u64 = args[4].parse().unwrap_or(0);
            let worker: usize = args[5].parse().unwrap_or(0);
            let nworkers: usize = args[6].parse().unwrap_or(1);
            std::process::exit(run_worker(info, tier, seed, worker, nworkers));
        }
        _ => usage(),
    }
}
