//! The reference interpreter proper. See the module documentation of `crate::stref` for
//! the semantics it implements and where they come from.

use std::collections::BTreeMap;

use crate::engine::digest64;
use crate::stgen::ast::*;
use crate::stgen::rt::FaultKind;

use super::{Coverage, CycleEnd, CycleOutcome, Fault, TraceEvent};

#[derive(Clone, Debug)]
pub struct RefConfig {
    /// Statements (plus loop iterations) per cycle before the run is abandoned.
    pub max_steps: u64,
    /// Record the executed-statement trace.
    pub trace: bool,
    /// Attach a digest of the whole state to every trace event (expensive).
    pub trace_digests: bool,
    /// Maximum call depth (the generator keeps the call graph acyclic, this is a backstop).
    pub max_depth: u32,
}

impl Default for RefConfig {
    fn default() -> Self {
        RefConfig {
            max_steps: 60_000,
            trace: true,
            trace_digests: false,
            max_depth: 32,
        }
    }
}

#[derive(Clone, Debug, PartialEq)]
enum Step {
    Field(String),
    Index(usize),
}

/// Location of a variable (or part of one): root object + path.
#[derive(Clone, Debug, PartialEq)]
struct Ref {
    root: usize,
    path: Vec<Step>,
    /// Flattened display path ("Main.a[1,2].f") - used for `Fault::unsettled`.
    shown: String,
}

enum Stop {
    Fault(Vec<FaultKind>),
    Budget,
    /// Inconsistent AST (generator bug) - never a verdict about the runtime.
    Internal(String),
}

type R<T> = Result<T, Stop>;

fn fault<T>(k: FaultKind) -> R<T> {
    Err(Stop::Fault(vec![k]))
}

fn internal<T>(msg: impl Into<String>) -> R<T> {
    Err(Stop::Internal(msg.into()))
}

#[derive(Clone, Copy, Debug, PartialEq)]
enum Flow {
    Normal,
    Exit,
    Continue,
    Return,
}

struct Frame<'p> {
    pou: &'p Pou,
    /// Where the persistent variables of a PROGRAM / FUNCTION_BLOCK activation live.
    statics: Option<Ref>,
    /// Root holding per-activation variables (function variables, FB temporaries).
    locals: usize,
    inouts: Vec<(String, Ref)>,
    /// Caller-side targets of VAR_OUTPUT / VAR_IN_OUT bindings (for `unsettled`).
    bound_targets: Vec<String>,
    depth: u32,
}

pub struct Machine<'p> {
    prog: &'p Program,
    pub cfg: RefConfig,
    /// roots[0] = globals, roots[1..=n] = program instances, then activation records.
    roots: Vec<Val>,
    root_names: Vec<String>,
    nstatic: usize,
    frames: Vec<Frame<'p>>,
    steps: u64,
    trace: Vec<TraceEvent>,
    pub coverage: Coverage,
    cur_stmt: u32,
    halted: bool,
    /// Set when the machine met an inconsistent AST.
    pub internal_error: Option<String>,
}

fn zero(e: Elem) -> Val {
    match e {
        Elem::Bool => Val::Bool(false),
        Elem::Real => Val::Real(0f32.to_bits()),
        Elem::LReal => Val::LReal(0f64.to_bits()),
        Elem::Time => Val::Time(0),
        t => Val::Int(t, 0),
    }
}

fn nav<'a>(mut v: &'a Val, path: &[Step]) -> Option<&'a Val> {
    for s in path {
        v = match (v, s) {
            (Val::Fb { vars, .. }, Step::Field(n)) => &vars.iter().find(|(k, _)| k == n)?.1,
            (Val::Struct { fields, .. }, Step::Field(n)) => &fields.iter().find(|(k, _)| k == n)?.1,
            (Val::Array { elems, .. }, Step::Index(i)) => elems.get(*i)?,
            _ => return None,
        };
    }
    Some(v)
}

fn nav_mut<'a>(mut v: &'a mut Val, path: &[Step]) -> Option<&'a mut Val> {
    for s in path {
        v = match (v, s) {
            (Val::Fb { vars, .. }, Step::Field(n)) => &mut vars.iter_mut().find(|(k, _)| k == n)?.1,
            (Val::Struct { fields, .. }, Step::Field(n)) => {
                &mut fields.iter_mut().find(|(k, _)| k == n)?.1
            }
            (Val::Array { elems, .. }, Step::Index(i)) => elems.get_mut(*i)?,
            _ => return None,
        };
    }
    Some(v)
}

/// Result type of a binary numeric operation (promotion chains of 05 §"Promotion Rules").
pub fn promote(a: Elem, b: Elem) -> Option<Elem> {
    if a == b {
        return Some(a);
    }
    if a.is_int() && b.is_int() {
        if a.is_signed_int() == b.is_signed_int() {
            return Some(if a.bits() >= b.bits() { a } else { b });
        }
        return None;
    }
    if a.is_real() && b.is_real() {
        return Some(Elem::LReal);
    }
    if a.is_real() && b.is_int() {
        return Some(a);
    }
    if a.is_int() && b.is_real() {
        return Some(b);
    }
    None
}

fn int_to_f32(n: i128) -> f32 {
    n as f32
}
fn int_to_f64(n: i128) -> f64 {
    n as f64
}

/// Convert `v` to the elementary type `to` where IEC defines an implicit (widening)
/// conversion; None if there is none.
pub fn widen(v: &Val, to: Elem) -> Option<Val> {
    let from = v.elem_ty()?;
    if from == to {
        return Some(v.clone());
    }
    match (v, to) {
        (Val::Int(f, n), t) if t.is_int() => {
            let ok = (f.is_signed_int() == t.is_signed_int() && t.bits() >= f.bits())
                || (f.is_unsigned_int() && t.is_signed_int() && t.bits() > f.bits());
            if ok {
                Some(Val::Int(t, *n))
            } else {
                None
            }
        }
        (Val::Int(_, n), Elem::Real) => Some(Val::real(int_to_f32(*n))),
        (Val::Int(_, n), Elem::LReal) => Some(Val::lreal(int_to_f64(*n))),
        (Val::Real(b), Elem::LReal) => Some(Val::lreal(f32::from_bits(*b) as f64)),
        _ => None,
    }
}

impl<'p> Machine<'p> {
    pub fn new(prog: &'p Program, cfg: RefConfig) -> Result<Machine<'p>, String> {
        let mut m = Machine {
            prog,
            cfg,
            roots: Vec::new(),
            root_names: Vec::new(),
            nstatic: 0,
            frames: Vec::new(),
            steps: 0,
            trace: Vec::new(),
            coverage: BTreeMap::new(),
            cur_stmt: 0,
            halted: false,
            internal_error: None,
        };
        let mut gvars = Vec::new();
        for g in &prog.globals {
            let v = m
                .init_var(g)
                .map_err(|_| format!("initialiser of global {} failed", g.name))?;
            gvars.push((g.name.clone(), v));
        }
        m.roots.push(Val::Fb {
            ty: "G".into(),
            vars: gvars,
        });
        m.root_names.push("G".into());
        for (inst, pname) in &prog.instances {
            let pou = prog
                .pou(pname)
                .ok_or_else(|| format!("program {pname} missing"))?;
            let v = m
                .instantiate(pou)
                .map_err(|_| format!("initialisation of program instance {inst} failed"))?;
            m.roots.push(v);
            m.root_names.push(inst.clone());
        }
        m.nstatic = m.roots.len();
        Ok(m)
    }

    fn cover(&mut self, label: String) {
        *self.coverage.entry(label).or_default() += 1;
    }

    /// Static variables of a PROGRAM / FUNCTION_BLOCK instance.
    fn instantiate(&mut self, pou: &'p Pou) -> R<Val> {
        let mut vars = Vec::new();
        for d in &pou.vars {
            match d.kind {
                VarKind::Input | VarKind::Output | VarKind::Local => {
                    let v = self.init_var(d)?;
                    vars.push((d.name.clone(), v));
                }
                VarKind::InOut | VarKind::Temp | VarKind::External | VarKind::Global => {}
            }
        }
        Ok(Val::Fb {
            ty: pou.name.clone(),
            vars,
        })
    }

    fn init_var(&mut self, d: &VarDecl) -> R<Val> {
        match &d.init {
            Some(e) => {
                let v = self.eval(e)?;
                self.coerce_to(&v, &d.ty)
            }
            None => self.default_val(&d.ty),
        }
    }

    fn default_val(&mut self, ty: &Ty) -> R<Val> {
        Ok(match ty {
            Ty::Elem(e) => zero(*e),
            Ty::Enum(n) => Val::Enum(n.clone(), 0),
            Ty::Array { dims, elem } => {
                let n: usize = dims
                    .iter()
                    .map(|(l, h)| (h - l + 1).max(0) as usize)
                    .product();
                let d = self.default_val(elem)?;
                Val::Array {
                    dims: dims.clone(),
                    elems: vec![d; n],
                }
            }
            Ty::Struct(name) => {
                let Some(TypeDecl::Struct { fields, .. }) = self.prog.type_decl(name) else {
                    return internal(format!("unknown struct {name}"));
                };
                let mut out = Vec::new();
                for (f, t) in fields {
                    out.push((f.clone(), self.default_val(t)?));
                }
                Val::Struct {
                    ty: name.clone(),
                    fields: out,
                }
            }
            Ty::Fb(name) => {
                let Some(pou) = self.prog.pou(name) else {
                    return internal(format!("unknown FB {name}"));
                };
                self.instantiate(pou)?
            }
        })
    }

    /// Value stored by an assignment of `v` to a variable of type `ty`.
    fn coerce_to(&mut self, v: &Val, ty: &Ty) -> R<Val> {
        match ty {
            Ty::Elem(e) => match widen(v, *e) {
                Some(w) => Ok(w),
                None => internal(format!(
                    "no implicit conversion of {} to {}",
                    v.show(),
                    e.name()
                )),
            },
            _ => Ok(v.clone()),
        }
    }

    // ---------------------------------------------------------------- public driving API

    /// Names of the static roots ("G", then program instance names).
    pub fn root_names(&self) -> &[String] {
        &self.root_names[..self.nstatic]
    }

    /// The static state: ("G", globals) and one entry per program instance.
    pub fn state(&self) -> Vec<(String, Val)> {
        (0..self.nstatic)
            .map(|i| (self.root_names[i].clone(), self.roots[i].clone()))
            .collect()
    }

    pub fn digest(&self) -> u64 {
        let text = format!("{:?}", &self.roots[..self.nstatic]);
        digest64(text.as_bytes())
    }

    /// Overwrite a whole variable of a program instance ("" = global) before a cycle.
    pub fn write_input(&mut self, w: &InputWrite) -> Result<(), String> {
        let root = if w.instance.is_empty() {
            0
        } else {
            self.root_names[..self.nstatic]
                .iter()
                .position(|n| *n == w.instance)
                .ok_or_else(|| format!("no instance {}", w.instance))?
        };
        let slot = nav_mut(&mut self.roots[root], &[Step::Field(w.var.clone())])
            .ok_or_else(|| format!("no variable {}.{}", w.instance, w.var))?;
        *slot = w.value.clone();
        Ok(())
    }

    pub fn halted(&self) -> bool {
        self.halted
    }

    /// Execute one cycle: every program instance once, in configuration order.
    pub fn cycle(&mut self) -> CycleOutcome {
        self.steps = 0;
        self.trace.clear();
        if self.halted {
            return CycleOutcome {
                end: CycleEnd::Ok,
                trace: Vec::new(),
                steps: 0,
            };
        }
        let mut end = CycleEnd::Ok;
        let instances: Vec<(usize, &'p Pou)> = self
            .prog
            .instances
            .iter()
            .enumerate()
            .filter_map(|(i, (_, p))| self.prog.pou(p).map(|pou| (i + 1, pou)))
            .collect();
        'outer: for (root, pou) in instances {
            let locals = self.push_root(
                Val::Fb {
                    ty: "<temps>".into(),
                    vars: Vec::new(),
                },
                "<temps>",
            );
            let statics = Ref {
                root,
                path: Vec::new(),
                shown: self.root_names[root].clone(),
            };
            self.frames.push(Frame {
                pou,
                statics: Some(statics),
                locals,
                inouts: Vec::new(),
                bound_targets: Vec::new(),
                depth: 0,
            });
            let r = self.init_temps(pou).and_then(|_| self.block(&pou.body));
            match r {
                Ok(_) => {
                    self.frames.pop();
                    self.pop_root();
                }
                Err(stop) => {
                    let mut unsettled = Vec::new();
                    let depth = self.frames.last().map(|f| f.depth).unwrap_or(0);
                    for f in &self.frames {
                        unsettled.extend(f.bound_targets.iter().cloned());
                    }
                    self.frames.clear();
                    self.roots.truncate(self.nstatic);
                    self.root_names.truncate(self.nstatic);
                    match stop {
                        Stop::Fault(kinds) => {
                            self.halted = true;
                            end = CycleEnd::Fault(Fault {
                                kinds,
                                stmt: self.cur_stmt,
                                depth,
                                unsettled,
                            });
                        }
                        Stop::Budget => end = CycleEnd::Budget,
                        Stop::Internal(msg) => {
                            self.internal_error = Some(msg);
                            end = CycleEnd::Budget;
                        }
                    }
                    break 'outer;
                }
            }
        }
        CycleOutcome {
            end,
            trace: std::mem::take(&mut self.trace),
            steps: self.steps,
        }
    }

    // ---------------------------------------------------------------- storage

    fn push_root(&mut self, v: Val, name: &str) -> usize {
        self.roots.push(v);
        self.root_names.push(name.to_string());
        self.roots.len() - 1
    }

    fn pop_root(&mut self) {
        self.roots.pop();
        self.root_names.pop();
    }

    fn read_ref(&self, r: &Ref) -> R<Val> {
        match nav(&self.roots[r.root], &r.path) {
            Some(v) => Ok(v.clone()),
            None => internal(format!("dangling reference {}", r.shown)),
        }
    }

    fn write_ref(&mut self, r: &Ref, v: Val) -> R<()> {
        match nav_mut(&mut self.roots[r.root], &r.path) {
            Some(slot) => {
                *slot = v;
                Ok(())
            }
            None => internal(format!("dangling reference {}", r.shown)),
        }
    }

    /// Declared type and location of a variable name in the current frame.
    fn lookup(&self, name: &str) -> R<(Ref, Ty)> {
        let Some(f) = self.frames.last() else {
            return internal(format!("variable {name} read outside any POU"));
        };
        // the FUNCTION result variable
        if f.pou.kind == PouKind::Function && f.pou.name == name {
            let ty = f.pou.ret.clone().unwrap_or(Ty::Elem(Elem::Int));
            return Ok((
                Ref {
                    root: f.locals,
                    path: vec![Step::Field(name.to_string())],
                    shown: format!("<local>.{name}"),
                },
                ty,
            ));
        }
        let Some(d) = f.pou.var(name) else {
            return internal(format!("{}: undeclared variable {name}", f.pou.name));
        };
        let r = match d.kind {
            VarKind::InOut => match f.inouts.iter().find(|(n, _)| n == name) {
                Some((_, r)) => r.clone(),
                None => return internal(format!("in-out {name} is not bound")),
            },
            VarKind::External | VarKind::Global => Ref {
                root: 0,
                path: vec![Step::Field(name.to_string())],
                shown: format!("G.{name}"),
            },
            VarKind::Temp => Ref {
                root: f.locals,
                path: vec![Step::Field(name.to_string())],
                shown: format!("<local>.{name}"),
            },
            VarKind::Input | VarKind::Output | VarKind::Local => match (&f.statics, f.pou.kind) {
                (Some(s), PouKind::Program | PouKind::FunctionBlock) => {
                    let mut path = s.path.clone();
                    path.push(Step::Field(name.to_string()));
                    Ref {
                        root: s.root,
                        path,
                        shown: format!("{}.{}", s.shown, name),
                    }
                }
                _ => Ref {
                    root: f.locals,
                    path: vec![Step::Field(name.to_string())],
                    shown: format!("<local>.{name}"),
                },
            },
        };
        Ok((r, d.ty.clone()))
    }

    /// Resolve a place to a location and its static type. Index expressions are evaluated
    /// left to right; an index outside the declared bounds is an `Index` fault.
    fn place(&mut self, p: &Place) -> R<(Ref, Ty)> {
        let (mut r, mut ty) = self.lookup(&p.base)?;
        for sel in &p.path {
            match sel {
                Sel::Field(fname) => {
                    let fty = match &ty {
                        Ty::Struct(sn) => match self.prog.type_decl(sn) {
                            Some(TypeDecl::Struct { fields, .. }) => fields
                                .iter()
                                .find(|(n, _)| n == fname)
                                .map(|(_, t)| t.clone()),
                            _ => None,
                        },
                        Ty::Fb(fb) => self
                            .prog
                            .pou(fb)
                            .and_then(|pou| pou.var(fname))
                            .map(|d| d.ty.clone()),
                        _ => None,
                    };
                    let Some(fty) = fty else {
                        return internal(format!("no field {fname} in {ty:?}"));
                    };
                    r.path.push(Step::Field(fname.clone()));
                    r.shown = format!("{}.{}", r.shown, fname);
                    ty = fty;
                }
                Sel::Index(ix) => {
                    let Ty::Array { dims, elem } = &ty else {
                        return internal(format!("indexing a non-array {ty:?}"));
                    };
                    if dims.len() != ix.len() {
                        return internal("wrong number of indices");
                    }
                    let mut vals = Vec::new();
                    for e in ix {
                        match self.eval(e)? {
                            Val::Int(_, n) => vals.push(n),
                            other => return internal(format!("index is {}", other.show())),
                        }
                    }
                    let mut off: usize = 0;
                    for ((lo, hi), v) in dims.iter().zip(&vals) {
                        if *v < *lo as i128 || *v > *hi as i128 {
                            return fault(FaultKind::Index);
                        }
                        let len = (hi - lo + 1) as usize;
                        off = off * len + (*v - *lo as i128) as usize;
                    }
                    let shown: Vec<String> = vals.iter().map(|v| v.to_string()).collect();
                    r.path.push(Step::Index(off));
                    r.shown = format!("{}[{}]", r.shown, shown.join(","));
                    ty = (**elem).clone();
                }
            }
        }
        Ok((r, ty))
    }

    // ---------------------------------------------------------------- expressions

    fn eval(&mut self, e: &Expr) -> R<Val> {
        match e {
            Expr::Lit(v) | Expr::Untyped(v) => Ok(v.clone()),
            Expr::Read(p) => {
                let (r, _) = self.place(p)?;
                self.read_ref(&r)
            }
            Expr::Un(op, inner) => {
                let v = self.eval(inner)?;
                self.unary(*op, v)
            }
            Expr::Bin(op, l, r) => {
                if matches!(op, BinOp::And | BinOp::Or) {
                    let lv = self.eval(l)?;
                    let Val::Bool(lb) = lv else {
                        return internal("AND/OR on non-BOOL");
                    };
                    // 10-runtime §6.3: AND stops on the first FALSE, OR on the first TRUE
                    if (*op == BinOp::And && !lb) || (*op == BinOp::Or && lb) {
                        self.cover(format!("op:{}:short_circuit", op.symbol()));
                        return Ok(Val::Bool(lb));
                    }
                    let rv = self.eval(r)?;
                    let Val::Bool(rb) = rv else {
                        return internal("AND/OR on non-BOOL");
                    };
                    self.cover(format!("op:{}:BOOL", op.symbol()));
                    return Ok(Val::Bool(rb));
                }
                // 05 rule 3: the leftmost operand is evaluated first
                let lv = self.eval(l)?;
                let rv = self.eval(r)?;
                self.binary(*op, lv, rv)
            }
            Expr::Call { func, args, .. } => self.call_function(func, args),
            Expr::Std(f, args) => {
                let mut vals = Vec::new();
                for a in args {
                    vals.push(self.eval(a)?);
                }
                self.std_call(*f, vals)
            }
        }
    }

    fn range_check(&mut self, t: Elem, n: i128) -> R<Val> {
        let (lo, hi) = t.int_range();
        if n < lo || n > hi {
            return fault(FaultKind::Overflow);
        }
        if n == lo || n == hi {
            self.cover("boundary:result".into());
        }
        Ok(Val::Int(t, n))
    }

    fn unary(&mut self, op: UnOp, v: Val) -> R<Val> {
        match (op, v) {
            (UnOp::Not, Val::Bool(b)) => {
                self.cover("op:NOT:BOOL".into());
                Ok(Val::Bool(!b))
            }
            (UnOp::Neg, Val::Int(t, n)) => {
                self.cover(format!("op:neg:{}", t.name()));
                if n == t.int_range().0 {
                    self.cover("boundary:operand".into());
                }
                self.range_check(t, -n)
            }
            (UnOp::Neg, Val::Real(b)) => {
                self.cover("op:neg:REAL".into());
                Ok(Val::real(-f32::from_bits(b)))
            }
            (UnOp::Neg, Val::LReal(b)) => {
                self.cover("op:neg:LREAL".into());
                Ok(Val::lreal(-f64::from_bits(b)))
            }
            (op, v) => internal(format!("unary {op:?} on {}", v.show())),
        }
    }

    fn binary(&mut self, op: BinOp, l: Val, r: Val) -> R<Val> {
        if op.is_cmp() {
            return self.compare(op, l, r);
        }
        if op == BinOp::Xor {
            return match (l, r) {
                (Val::Bool(a), Val::Bool(b)) => {
                    self.cover("op:XOR:BOOL".into());
                    Ok(Val::Bool(a ^ b))
                }
                _ => internal("XOR on non-BOOL"),
            };
        }
        let (Some(lt), Some(rt)) = (l.elem_ty(), r.elem_ty()) else {
            return internal("arithmetic on non-elementary values");
        };
        if op == BinOp::Pow {
            // ANY_REAL ** ANY_NUM -> type of the base (05 §4.1, §6.1)
            let base = match &l {
                Val::Real(b) => f32::from_bits(*b) as f64,
                Val::LReal(b) => f64::from_bits(*b),
                _ => return internal("** with a non-real base"),
            };
            let exp = match &r {
                Val::Real(b) => f32::from_bits(*b) as f64,
                Val::LReal(b) => f64::from_bits(*b),
                Val::Int(_, n) => *n as f64,
                _ => return internal("** with a non-numeric exponent"),
            };
            let res_ty = if lt == Elem::LReal || rt == Elem::LReal {
                Elem::LReal
            } else {
                Elem::Real
            };
            self.cover(format!("op:**:{}", res_ty.name()));
            let x = base.powf(exp);
            return match res_ty {
                Elem::Real => {
                    let y = x as f32;
                    if !y.is_finite() {
                        fault(FaultKind::Overflow)
                    } else {
                        Ok(Val::real(y))
                    }
                }
                _ => {
                    if !x.is_finite() {
                        fault(FaultKind::Overflow)
                    } else {
                        Ok(Val::lreal(x))
                    }
                }
            };
        }
        let Some(t) = promote(lt, rt) else {
            return internal(format!(
                "no common type for {} {} {}",
                lt.name(),
                op.symbol(),
                rt.name()
            ));
        };
        let (Some(l), Some(r)) = (widen(&l, t), widen(&r, t)) else {
            return internal("operand does not widen to the common type");
        };
        self.cover(format!("op:{}:{}", op.symbol(), t.name()));
        match (l, r) {
            (Val::Int(_, a), Val::Int(_, b)) => {
                let (lo, hi) = t.int_range();
                if a == lo || a == hi || b == lo || b == hi {
                    self.cover("boundary:operand".into());
                }
                let n = match op {
                    BinOp::Add => a.checked_add(b),
                    BinOp::Sub => a.checked_sub(b),
                    BinOp::Mul => a.checked_mul(b),
                    BinOp::Div => {
                        if b == 0 {
                            return fault(FaultKind::DivByZero);
                        }
                        // truncation toward zero (IEC 61131-3 Table 29)
                        a.checked_div(b)
                    }
                    BinOp::Mod => {
                        if b == 0 {
                            return fault(FaultKind::ModByZero);
                        }
                        // IN1 - (IN1/IN2)*IN2 with the truncating division
                        a.checked_div(b)
                            .and_then(|q| q.checked_mul(b))
                            .and_then(|m| a.checked_sub(m))
                    }
                    _ => return internal("not an arithmetic operator"),
                };
                match n {
                    Some(n) => self.range_check(t, n),
                    None => fault(FaultKind::Overflow),
                }
            }
            (Val::Real(a), Val::Real(b)) => {
                let (a, b) = (f32::from_bits(a), f32::from_bits(b));
                let x = match op {
                    BinOp::Add => a + b,
                    BinOp::Sub => a - b,
                    BinOp::Mul => a * b,
                    BinOp::Div => {
                        if b == 0.0 {
                            return fault(FaultKind::DivByZero);
                        }
                        a / b
                    }
                    _ => return internal("MOD on REAL"),
                };
                if !x.is_finite() {
                    return fault(FaultKind::Overflow);
                }
                Ok(Val::real(x))
            }
            (Val::LReal(a), Val::LReal(b)) => {
                let (a, b) = (f64::from_bits(a), f64::from_bits(b));
                let x = match op {
                    BinOp::Add => a + b,
                    BinOp::Sub => a - b,
                    BinOp::Mul => a * b,
                    BinOp::Div => {
                        if b == 0.0 {
                            return fault(FaultKind::DivByZero);
                        }
                        a / b
                    }
                    _ => return internal("MOD on LREAL"),
                };
                if !x.is_finite() {
                    return fault(FaultKind::Overflow);
                }
                Ok(Val::lreal(x))
            }
            (l, r) => internal(format!("arithmetic on {} and {}", l.show(), r.show())),
        }
    }

    fn compare(&mut self, op: BinOp, l: Val, r: Val) -> R<Val> {
        use std::cmp::Ordering::*;
        let ord: Option<std::cmp::Ordering> = match (&l, &r) {
            (Val::Bool(a), Val::Bool(b)) => {
                if !matches!(op, BinOp::Eq | BinOp::Ne) {
                    return internal("ordering comparison on BOOL");
                }
                self.cover(format!("op:{}:BOOL", op.symbol()));
                Some(a.cmp(b))
            }
            (Val::Time(a), Val::Time(b)) => {
                self.cover(format!("op:{}:TIME", op.symbol()));
                Some(a.cmp(b))
            }
            (Val::Enum(ta, a), Val::Enum(tb, b)) => {
                if ta != tb || !matches!(op, BinOp::Eq | BinOp::Ne) {
                    return internal("bad enum comparison");
                }
                self.cover(format!("op:{}:enum", op.symbol()));
                Some(a.cmp(b))
            }
            _ => {
                let (Some(lt), Some(rt)) = (l.elem_ty(), r.elem_ty()) else {
                    return internal("comparison of non-elementary values");
                };
                let Some(t) = promote(lt, rt) else {
                    return internal(format!(
                        "no common type for {} {} {}",
                        lt.name(),
                        op.symbol(),
                        rt.name()
                    ));
                };
                self.cover(format!("op:{}:{}", op.symbol(), t.name()));
                match (widen(&l, t), widen(&r, t)) {
                    (Some(Val::Int(_, a)), Some(Val::Int(_, b))) => Some(a.cmp(&b)),
                    (Some(Val::Real(a)), Some(Val::Real(b))) => {
                        f32::from_bits(a).partial_cmp(&f32::from_bits(b))
                    }
                    (Some(Val::LReal(a)), Some(Val::LReal(b))) => {
                        f64::from_bits(a).partial_cmp(&f64::from_bits(b))
                    }
                    _ => return internal("comparison operands do not widen"),
                }
            }
        };
        // ord == None only for NaN, which the core never produces (non-finite = fault)
        let res = match (op, ord) {
            (BinOp::Eq, o) => o == Some(Equal),
            (BinOp::Ne, o) => o != Some(Equal),
            (BinOp::Lt, o) => o == Some(Less),
            (BinOp::Le, o) => matches!(o, Some(Less | Equal)),
            (BinOp::Gt, o) => o == Some(Greater),
            (BinOp::Ge, o) => matches!(o, Some(Greater | Equal)),
            _ => return internal("not a comparison"),
        };
        Ok(Val::Bool(res))
    }

    fn std_call(&mut self, f: StdFn, mut vals: Vec<Val>) -> R<Val> {
        match f {
            StdFn::Conv(from, to) => {
                let [v] = vals.as_slice() else {
                    return internal("conversion takes one argument");
                };
                if v.elem_ty() != Some(from) {
                    return internal("conversion argument has the wrong type");
                }
                self.cover(format!("conv:{}_TO_{}", from.name(), to.name()));
                match widen(v, to) {
                    Some(w) => Ok(w),
                    None => internal("only value-preserving conversions are in the core"),
                }
            }
            StdFn::Abs => {
                self.cover("std:ABS".into());
                match vals.pop() {
                    Some(Val::Real(b)) => Ok(Val::real(f32::from_bits(b).abs())),
                    Some(Val::LReal(b)) => Ok(Val::lreal(f64::from_bits(b).abs())),
                    Some(Val::Int(t, n)) if t.is_unsigned_int() => Ok(Val::Int(t, n)),
                    // ABS of the minimum of a signed type has no representable result;
                    // docs/specs/07 §12 leaves numeric-function overflow to the implementer
                    // (saturate / wrap / error), so only the other values are asserted
                    Some(Val::Int(t, n)) if n != t.int_range().0 => Ok(Val::Int(t, n.abs())),
                    _ => internal("ABS outside the asserted domain"),
                }
            }
            StdFn::Min | StdFn::Max => {
                self.cover(format!("std:{f:?}"));
                if vals.len() != 2 {
                    return internal("MIN/MAX take two arguments here");
                }
                let b = vals.pop().unwrap_or(Val::Bool(false));
                let a = vals.pop().unwrap_or(Val::Bool(false));
                let Val::Bool(a_lt_b) = self.compare(BinOp::Lt, a.clone(), b.clone())? else {
                    return internal("compare");
                };
                let Val::Bool(b_lt_a) = self.compare(BinOp::Lt, b.clone(), a.clone())? else {
                    return internal("compare");
                };
                Ok(match f {
                    StdFn::Min => {
                        if b_lt_a {
                            b
                        } else {
                            a
                        }
                    }
                    _ => {
                        if a_lt_b {
                            b
                        } else {
                            a
                        }
                    }
                })
            }
            StdFn::Sel => {
                self.cover("std:SEL".into());
                if vals.len() != 3 {
                    return internal("SEL takes three arguments");
                }
                let in1 = vals.pop().unwrap_or(Val::Bool(false));
                let in0 = vals.pop().unwrap_or(Val::Bool(false));
                match vals.pop() {
                    Some(Val::Bool(g)) => Ok(if g { in1 } else { in0 }),
                    _ => internal("SEL selector is not BOOL"),
                }
            }
            StdFn::Limit => internal("LIMIT is not asserted"),
        }
    }

    // ---------------------------------------------------------------- calls

    fn init_temps(&mut self, pou: &'p Pou) -> R<()> {
        // VAR_TEMP of PROGRAM / FUNCTION_BLOCK: re-initialised on every invocation
        for d in pou.vars.iter().filter(|d| d.kind == VarKind::Temp) {
            let v = self.init_var(d)?;
            let locals = self.frames.last().map(|f| f.locals).unwrap_or(0);
            if let Val::Fb { vars, .. } = &mut self.roots[locals] {
                vars.push((d.name.clone(), v));
            }
        }
        Ok(())
    }

    fn call_function(&mut self, func: &str, args: &[Arg]) -> R<Val> {
        let Some(pou) = self.prog.pou(func) else {
            return internal(format!("unknown function {func}"));
        };
        let depth = self.frames.last().map(|f| f.depth).unwrap_or(0) + 1;
        if depth > self.cfg.max_depth {
            return internal("call depth exceeded");
        }
        self.cover("call:function".into());
        let ret_ty = pou.ret.clone().unwrap_or(Ty::Elem(Elem::Int));
        // 1. evaluate the arguments in the caller, in written order
        let mut locals: Vec<(String, Val)> = Vec::new();
        let mut inouts = Vec::new();
        let mut outs: Vec<(String, Ref, Ty)> = Vec::new();
        let mut bound_targets = Vec::new();
        let mut supplied: Vec<&str> = Vec::new();
        for a in args {
            let Some(d) = pou.var(&a.param) else {
                return internal(format!("{func} has no parameter {}", a.param));
            };
            supplied.push(a.param.as_str());
            match (&a.val, d.kind) {
                (ArgVal::In(e), VarKind::Input) => {
                    let v = self.eval(e)?;
                    let v = self.coerce_to(&v, &d.ty)?;
                    locals.push((d.name.clone(), v));
                }
                (ArgVal::InOut(p), VarKind::InOut) => {
                    let (r, _) = self.place(p)?;
                    bound_targets.push(r.shown.clone());
                    inouts.push((d.name.clone(), r));
                    self.cover("call:inout".into());
                }
                (ArgVal::Out(p), VarKind::Output) => {
                    let (r, ty) = self.place(p)?;
                    bound_targets.push(r.shown.clone());
                    outs.push((d.name.clone(), r, ty));
                    self.cover("call:out".into());
                }
                _ => return internal(format!("argument kind mismatch for {}.{}", func, a.param)),
            }
        }
        // 2. everything not supplied gets its declared initial value / the type default
        let result_default = self.default_val(&ret_ty)?;
        let mut all: Vec<(String, Val)> = vec![(pou.name.clone(), result_default)];
        for d in &pou.vars {
            match d.kind {
                VarKind::Input => {
                    if let Some(pos) = locals.iter().position(|(n, _)| *n == d.name) {
                        all.push(locals.swap_remove(pos));
                    } else {
                        self.cover("call:defaulted_input".into());
                        let v = self.init_var(d)?;
                        all.push((d.name.clone(), v));
                    }
                }
                VarKind::Output | VarKind::Local | VarKind::Temp => {
                    let v = self.init_var(d)?;
                    all.push((d.name.clone(), v));
                }
                VarKind::InOut => {
                    if !supplied.contains(&d.name.as_str()) {
                        return internal(format!("in-out {} of {func} not supplied", d.name));
                    }
                }
                VarKind::External | VarKind::Global => {}
            }
        }
        let root = self.push_root(
            Val::Fb {
                ty: pou.name.clone(),
                vars: all,
            },
            "<local>",
        );
        self.frames.push(Frame {
            pou,
            statics: None,
            locals: root,
            inouts,
            bound_targets,
            depth,
        });
        let flow = self.block(&pou.body);
        if let Err(stop) = flow {
            // leave frames in place: `cycle` reads them for `unsettled`
            return Err(stop);
        }
        // 3. result and outputs
        let result = nav(&self.roots[root], &[Step::Field(pou.name.clone())]).cloned();
        let mut out_vals = Vec::new();
        for (name, r, ty) in &outs {
            let v = nav(&self.roots[root], &[Step::Field(name.clone())]).cloned();
            let Some(v) = v else {
                return internal("output variable vanished");
            };
            out_vals.push((r.clone(), v, ty.clone()));
        }
        self.frames.pop();
        self.pop_root();
        for (r, v, ty) in out_vals {
            let v = self.coerce_to(&v, &ty)?;
            self.write_ref(&r, v)?;
        }
        match result {
            Some(v) => Ok(v),
            None => internal("function result vanished"),
        }
    }

    fn call_fb(&mut self, inst: &Place, fb: &str, args: &[Arg]) -> R<()> {
        let Some(pou) = self.prog.pou(fb) else {
            return internal(format!("unknown FB {fb}"));
        };
        let depth = self.frames.last().map(|f| f.depth).unwrap_or(0) + 1;
        if depth > self.cfg.max_depth {
            return internal("call depth exceeded");
        }
        self.cover("call:fb".into());
        let (iref, ity) = self.place(inst)?;
        if ity != Ty::Fb(fb.to_string()) {
            return internal(format!("{} is not an instance of {fb}", iref.shown));
        }
        let mut inouts = Vec::new();
        let mut outs: Vec<(String, Ref, Ty)> = Vec::new();
        let mut bound_targets = Vec::new();
        let mut nsupplied = 0;
        let mut ninputs = 0;
        let mut in_vals: Vec<(Ref, Val)> = Vec::new();
        for a in args {
            let Some(d) = pou.var(&a.param) else {
                return internal(format!("{fb} has no parameter {}", a.param));
            };
            match (&a.val, d.kind) {
                (ArgVal::In(e), VarKind::Input) => {
                    let v = self.eval(e)?;
                    let v = self.coerce_to(&v, &d.ty)?;
                    let mut r = iref.clone();
                    r.path.push(Step::Field(d.name.clone()));
                    // bound only after every argument has been evaluated (the standard does
                    // not make a half-bound invocation observable)
                    in_vals.push((r, v));
                    nsupplied += 1;
                }
                (ArgVal::InOut(p), VarKind::InOut) => {
                    let (r, _) = self.place(p)?;
                    bound_targets.push(r.shown.clone());
                    inouts.push((d.name.clone(), r));
                    self.cover("call:inout".into());
                }
                (ArgVal::Out(p), VarKind::Output) => {
                    let (r, ty) = self.place(p)?;
                    bound_targets.push(r.shown.clone());
                    outs.push((d.name.clone(), r, ty));
                    self.cover("call:out".into());
                }
                _ => return internal(format!("argument kind mismatch for {}.{}", fb, a.param)),
            }
        }
        for d in pou.vars.iter() {
            if d.kind == VarKind::Input {
                ninputs += 1;
            }
            if d.kind == VarKind::InOut && !inouts.iter().any(|(n, _)| *n == d.name) {
                return internal(format!("in-out {} of {fb} not supplied", d.name));
            }
        }
        for (r, v) in in_vals {
            self.write_ref(&r, v)?;
        }
        if nsupplied < ninputs {
            // 06 §4: an input that is not assigned in the call keeps its previous value
            self.cover("call:fb_input_kept".into());
        }
        let root = self.push_root(
            Val::Fb {
                ty: "<temps>".into(),
                vars: Vec::new(),
            },
            "<temps>",
        );
        self.frames.push(Frame {
            pou,
            statics: Some(iref.clone()),
            locals: root,
            inouts,
            bound_targets,
            depth,
        });
        self.init_temps(pou)?;
        self.block(&pou.body)?;
        self.frames.pop();
        self.pop_root();
        for (name, r, ty) in outs {
            let mut src = iref.clone();
            src.path.push(Step::Field(name));
            let v = self.read_ref(&src)?;
            let v = self.coerce_to(&v, &ty)?;
            self.write_ref(&r, v)?;
        }
        Ok(())
    }

    // ---------------------------------------------------------------- statements

    fn block(&mut self, stmts: &'p [Stmt]) -> R<Flow> {
        for s in stmts {
            let f = self.stmt(s)?;
            if f != Flow::Normal {
                return Ok(f);
            }
        }
        Ok(Flow::Normal)
    }

    fn tick(&mut self) -> R<()> {
        self.steps += 1;
        if self.steps > self.cfg.max_steps {
            return Err(Stop::Budget);
        }
        Ok(())
    }

    fn cond(&mut self, e: &Expr) -> R<bool> {
        match self.eval(e)? {
            Val::Bool(b) => Ok(b),
            other => internal(format!("condition is {}", other.show())),
        }
    }

    fn stmt(&mut self, s: &'p Stmt) -> R<Flow> {
        self.tick()?;
        self.cur_stmt = s.id;
        if self.cfg.trace {
            let depth = self.frames.last().map(|f| f.depth).unwrap_or(0);
            let digest = if self.cfg.trace_digests {
                Some(self.digest())
            } else {
                None
            };
            self.trace.push(TraceEvent {
                stmt: s.id,
                depth,
                digest,
            });
        }
        match &s.kind {
            StmtKind::Empty => Ok(Flow::Normal),
            StmtKind::Assign { target, value } => {
                self.cover("stmt:assign".into());
                // The standard does not order "evaluate the target's subscripts" against
                // "evaluate the right-hand side". Subscripts of targets are call-free in the
                // generated core, so the order is only observable through *which* fault is
                // raised when both fault: report both classes.
                let rhs = self.eval(value);
                match rhs {
                    Ok(v) => {
                        let (r, ty) = self.place(target)?;
                        let v = self.coerce_to(&v, &ty)?;
                        if !target.path.is_empty() {
                            self.cover(format!(
                                "stmt:assign:{}",
                                if matches!(target.path[0], Sel::Index(_)) {
                                    "indexed"
                                } else {
                                    "field"
                                }
                            ));
                        }
                        self.write_ref(&r, v)?;
                        Ok(Flow::Normal)
                    }
                    Err(Stop::Fault(mut kinds)) => {
                        // discard the activation records a faulting call left behind before
                        // probing the target (the probe is call-free and cannot push any)
                        if let Err(Stop::Fault(k2)) = self.place_probe(target, s.id) {
                            for k in k2 {
                                if !kinds.contains(&k) {
                                    kinds.push(k);
                                }
                            }
                        }
                        Err(Stop::Fault(kinds))
                    }
                    Err(other) => Err(other),
                }
            }
            StmtKind::If {
                cond,
                then_,
                elsifs,
                else_,
            } => {
                self.cover("stmt:if".into());
                if self.cond(cond)? {
                    return self.block(then_);
                }
                for (c, b) in elsifs {
                    if self.cond(c)? {
                        self.cover("stmt:elsif_taken".into());
                        return self.block(b);
                    }
                }
                match else_ {
                    Some(b) => self.block(b),
                    None => Ok(Flow::Normal),
                }
            }
            StmtKind::Case {
                sel, arms, else_, ..
            } => {
                let v = self.eval(sel)?;
                let key: i128 = match &v {
                    Val::Int(t, n) => {
                        self.cover(format!("stmt:case:{}", t.name()));
                        *n
                    }
                    Val::Enum(_, i) => {
                        self.cover("stmt:case:enum".into());
                        *i as i128
                    }
                    other => return internal(format!("CASE selector is {}", other.show())),
                };
                for (labels, b) in arms {
                    let hit = labels.iter().any(|l| match l {
                        CaseLabel::Single(x) => *x == key,
                        CaseLabel::Range(a, b) => *a <= key && key <= *b,
                        CaseLabel::Variant(i) => *i as i128 == key,
                    });
                    if hit {
                        self.cover("stmt:case:arm_taken".into());
                        return self.block(b);
                    }
                }
                match else_ {
                    Some(b) => {
                        self.cover("stmt:case:else_taken".into());
                        self.block(b)
                    }
                    None => Ok(Flow::Normal),
                }
            }
            StmtKind::For {
                var,
                from,
                to,
                by,
                body,
            } => {
                let (cref, cty) = self.lookup(var)?;
                let Ty::Elem(ct) = cty else {
                    return internal("FOR control variable is not elementary");
                };
                if !ct.is_int() {
                    return internal("FOR control variable is not an integer");
                }
                self.cover(format!("loop:for:{}", ct.name()));
                let as_int = |v: Val| -> R<i128> {
                    match widen(&v, ct) {
                        Some(Val::Int(_, n)) => Ok(n),
                        _ => internal("FOR bound does not have the control variable's type"),
                    }
                };
                let from_v = self.eval(from)?;
                let from_v = as_int(from_v)?;
                let to_v = self.eval(to)?;
                let to_v = as_int(to_v)?;
                let by_v = match by {
                    Some(e) => {
                        let v = self.eval(e)?;
                        as_int(v)?
                    }
                    None => 1,
                };
                if by_v == 0 {
                    return fault(FaultKind::ForStepZero);
                }
                let (lo, hi) = ct.int_range();
                if from_v == lo || from_v == hi || to_v == lo || to_v == hi {
                    self.cover("boundary:for_bound".into());
                }
                let mut cur = from_v;
                self.write_ref(&cref, Val::Int(ct, cur))?;
                let mut iterations = 0u64;
                loop {
                    self.tick()?;
                    // test before every iteration
                    if (by_v > 0 && cur > to_v) || (by_v < 0 && cur < to_v) {
                        break;
                    }
                    iterations += 1;
                    match self.block(body)? {
                        Flow::Exit => {
                            self.cover("loop:exit".into());
                            break;
                        }
                        Flow::Return => return Ok(Flow::Return),
                        Flow::Continue => self.cover("loop:continue".into()),
                        Flow::Normal => {}
                    }
                    // control := control + step, in the control variable's type
                    let next = cur + by_v;
                    if next < lo || next > hi {
                        self.cur_stmt = s.id;
                        self.cover("loop:for:increment_overflow".into());
                        return fault(FaultKind::Overflow);
                    }
                    cur = next;
                    self.write_ref(&cref, Val::Int(ct, cur))?;
                }
                self.cover(if iterations == 0 {
                    "loop:for:zero_iterations".into()
                } else {
                    "loop:for:iterated".into()
                });
                Ok(Flow::Normal)
            }
            StmtKind::While { cond, body } => {
                self.cover("loop:while".into());
                loop {
                    self.tick()?;
                    if !self.cond(cond)? {
                        break;
                    }
                    match self.block(body)? {
                        Flow::Exit => {
                            self.cover("loop:exit".into());
                            break;
                        }
                        Flow::Return => return Ok(Flow::Return),
                        Flow::Continue => self.cover("loop:continue".into()),
                        Flow::Normal => {}
                    }
                }
                Ok(Flow::Normal)
            }
            StmtKind::Repeat { body, until } => {
                self.cover("loop:repeat".into());
                loop {
                    self.tick()?;
                    match self.block(body)? {
                        Flow::Exit => {
                            self.cover("loop:exit".into());
                            break;
                        }
                        Flow::Return => return Ok(Flow::Return),
                        Flow::Continue => self.cover("loop:continue".into()),
                        Flow::Normal => {}
                    }
                    if self.cond(until)? {
                        break;
                    }
                }
                Ok(Flow::Normal)
            }
            StmtKind::Exit => Ok(Flow::Exit),
            StmtKind::Continue => Ok(Flow::Continue),
            StmtKind::Return(e) => {
                self.cover("stmt:return".into());
                if let Some(e) = e {
                    // `RETURN expr;` (06 §6): the expression becomes the function result
                    let v = self.eval(e)?;
                    let Some(f) = self.frames.last() else {
                        return internal("RETURN outside a POU");
                    };
                    if f.pou.kind != PouKind::Function {
                        return internal("RETURN with a value outside a FUNCTION");
                    }
                    let name = f.pou.name.clone();
                    let (r, ty) = self.lookup(&name)?;
                    let v = self.coerce_to(&v, &ty)?;
                    self.write_ref(&r, v)?;
                }
                Ok(Flow::Return)
            }
            StmtKind::FbCall { inst, fb, args } => {
                self.call_fb(inst, fb, args)?;
                Ok(Flow::Normal)
            }
            StmtKind::CallStmt(e) => {
                self.eval(e)?;
                Ok(Flow::Normal)
            }
        }
    }

    /// Resolve a target after its right-hand side faulted, to learn whether the target's
    /// own subscripts fault as well. The frames of an abandoned call are still on the stack
    /// (they are needed for `unsettled`), so evaluate in the frame of the statement.
    fn place_probe(&mut self, target: &Place, stmt_id: u32) -> R<()> {
        if target.path.is_empty() {
            return Ok(());
        }
        // find the frame the statement belongs to: the innermost frame whose POU declares
        // the base variable and that was active when the statement started. Abandoned
        // callee frames sit above it; evaluate with them temporarily removed.
        let stmt_depth = self.frame_of_stmt(stmt_id);
        let mut stash = Vec::new();
        while self.frames.len() > stmt_depth + 1 {
            if let Some(f) = self.frames.pop() {
                stash.push(f);
            }
        }
        let saved_steps = self.steps;
        let r = self.place(target).map(|_| ());
        self.steps = saved_steps;
        while let Some(f) = stash.pop() {
            self.frames.push(f);
        }
        r
    }

    fn frame_of_stmt(&self, stmt_id: u32) -> usize {
        // frames[i].depth == i for every activation (depth counts activations)
        // The statement being executed is `cur_stmt`; its frame is the deepest frame whose
        // body contains it. Statement ids are unique, so search from the top.
        for (i, f) in self.frames.iter().enumerate().rev() {
            let mut found = false;
            walk_stmts(&f.pou.body, &mut |s| {
                if s.id == stmt_id {
                    found = true;
                }
            });
            if found {
                return i;
            }
        }
        self.frames.len().saturating_sub(1)
    }
}
