//! Independent reference evaluator for the generated ST core (`crate::stgen::ast`).
//!
//! Written from IEC 61131-3 Ed.3 and docs/specs/05-expressions.md, 06-statements.md,
//! 10-runtime.md - not from the runtime's sources:
//!
//! * integer arithmetic is exact (i128) and range-checked against the result type (the
//!   common operand type in strict mode, the widest operand type of the promotion chain
//!   otherwise); a result outside the type is an `Overflow` fault (05 §7.1);
//! * `/` truncates toward zero, `MOD` has the sign of the dividend; a zero divisor is a
//!   fault (05 §7.1, 07 §12);
//! * REAL/LREAL arithmetic is IEEE-754 binary32/binary64 round-to-nearest-even per
//!   operation; a non-finite result is an `Overflow` fault, a zero divisor a
//!   `DivisionByZero` fault;
//! * the left operand is evaluated first (05 rule 3); AND/OR short-circuit (10 §6.3);
//! * assignment stores a value of the variable's declared type;
//! * IF takes the first true branch, CASE the first matching label (ELSE otherwise, nothing
//!   without ELSE); FOR evaluates from/to/by once, a zero step is a fault, the test is made
//!   before every iteration, the increment is arithmetic in the control type (fault when it
//!   leaves the type); WHILE tests before, REPEAT after; EXIT/CONTINUE act on the innermost
//!   loop; RETURN leaves the POU;
//! * FUNCTION: inputs by value, VAR/VAR_OUTPUT/result re-initialised on every call, VAR_IN_OUT
//!   by reference, outputs copied to their targets on return; FUNCTION_BLOCK: instance
//!   variables persist, inputs not supplied in a call keep their value (06 §4), VAR_TEMP
//!   re-initialised per invocation.
//!
//! Aspects the standard and docs leave open are *reported* instead of decided: see
//! `Fault::kinds` (alternative fault classes) and `Fault::unsettled` (places whose value
//! after a fault is not asserted).

use std::collections::BTreeMap;

use crate::stgen::ast::*;
use crate::stgen::rt::{flatten, FaultKind};

pub mod eval;

pub use eval::{Machine, RefConfig};

/// One executed statement (the hook C17 compares debugger stops against).
#[derive(Clone, Debug, PartialEq)]
pub struct TraceEvent {
    pub stmt: u32,
    /// 0 in a PROGRAM body, +1 per FUNCTION / FUNCTION_BLOCK activation.
    pub depth: u32,
    /// Digest of the whole reference state before the statement (only with
    /// `RefConfig::trace_digests`).
    pub digest: Option<u64>,
}

#[derive(Clone, Debug, PartialEq)]
pub struct Fault {
    /// Acceptable fault classes; `kinds[0]` is the one the reference's own evaluation order
    /// produces, further entries are classes another *permitted* evaluation order of the
    /// same statement produces (assignment: target index vs. right-hand side).
    pub kinds: Vec<FaultKind>,
    pub stmt: u32,
    pub depth: u32,
    /// Flattened path prefixes whose value after this fault is not asserted: targets of
    /// VAR_IN_OUT / VAR_OUTPUT bindings of the activations that were abandoned (by-reference
    /// writes are visible immediately, copy-out implementations never deliver them; the
    /// standard does not define the state after an error).
    pub unsettled: Vec<String>,
}

#[derive(Clone, Debug, PartialEq)]
pub enum CycleEnd {
    Ok,
    Fault(Fault),
    /// The step budget was exhausted: the case is outside the explored domain.
    Budget,
}

#[derive(Clone, Debug)]
pub struct CycleOutcome {
    pub end: CycleEnd,
    pub trace: Vec<TraceEvent>,
    /// Number of statements executed.
    pub steps: u64,
}

/// Labels describing what a run exercised (operators x types, statement kinds, ...).
pub type Coverage = BTreeMap<String, u64>;

/// Flatten a reference state (instance name -> `Val::Fb`) the same way
/// `stgen::rt::snapshot` flattens the runtime's storage.
pub fn flatten_state(roots: &[(String, Val)]) -> BTreeMap<String, Val> {
    let mut out = BTreeMap::new();
    for (name, v) in roots {
        flatten(name, v, &mut out);
    }
    // the globals root is a construct of the reference, not an instance
    out.remove("G.#type");
    out
}
