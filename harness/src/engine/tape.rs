//! Choice tape: a generator is a deterministic function of a `Vec<u32>` drawn by
//! proptest. Shrinking the vector (dropping elements, lowering values) shrinks the
//! generated structure, provided generators map low values to simple choices.
//! Indices are mapped monotonically (`v * n >> 32`), never with `%`.

use proptest::collection::vec;
use proptest::prelude::*;
use serde::{Deserialize, Serialize};

#[derive(Clone, Debug, Serialize, Deserialize, PartialEq, Eq)]
pub struct Tape {
    pub data: Vec<u32>,
}

pub fn tape_strategy(max_len: usize) -> impl Strategy<Value = Tape> {
    // Mix of uniform words and small words so that both "pick anything" and
    // "boundary value index" choices are exercised.
    let word = prop_oneof![
        3 => any::<u32>(),
        1 => (0u32..16).prop_map(|v| v << 28),
        1 => Just(0u32),
        1 => Just(u32::MAX),
    ];
    vec(word, 0..max_len).prop_map(|data| Tape { data })
}

pub struct Reader<'a> {
    data: &'a [u32],
    pos: usize,
}

impl<'a> Reader<'a> {
    pub fn new(tape: &'a Tape) -> Reader<'a> {
        Reader {
            data: &tape.data,
            pos: 0,
        }
    }

    pub fn exhausted(&self) -> bool {
        self.pos >= self.data.len()
    }

    pub fn consumed(&self) -> usize {
        self.pos
    }

    pub fn word(&mut self) -> u32 {
        let v = self.data.get(self.pos).copied().unwrap_or(0);
        self.pos += 1;
        v
    }

    /// Uniform-ish choice in `0..n` (n >= 1); 0 when the tape is exhausted.
    pub fn pick(&mut self, n: usize) -> usize {
        if n <= 1 {
            // still consume, keeps alignment stable under shrinking of other parts
            let _ = self.word();
            return 0;
        }
        ((self.word() as u64 * n as u64) >> 32) as usize
    }

    /// Choice among weighted alternatives; returns the index.
    pub fn weighted(&mut self, weights: &[u32]) -> usize {
        let total: u64 = weights.iter().map(|w| *w as u64).sum();
        if total == 0 {
            let _ = self.word();
            return 0;
        }
        let mut x = (self.word() as u64 * total) >> 32;
        for (i, w) in weights.iter().enumerate() {
            if x < *w as u64 {
                return i;
            }
            x -= *w as u64;
        }
        weights.len() - 1
    }

    pub fn flag(&mut self) -> bool {
        self.word() >= 0x8000_0000
    }

    /// True with probability num/den.
    pub fn chance(&mut self, num: u32, den: u32) -> bool {
        ((self.word() as u64 * den as u64) >> 32) < num as u64
    }

    pub fn range_i64(&mut self, lo: i64, hi: i64) -> i64 {
        debug_assert!(lo <= hi);
        let span = (hi as i128 - lo as i128 + 1) as u128;
        let w = ((self.word() as u128) << 32) | self.word() as u128;
        lo.wrapping_add(((w * span) >> 64) as i64)
    }

    pub fn u64(&mut self) -> u64 {
        ((self.word() as u64) << 32) | self.word() as u64
    }

    pub fn choose<'b, T>(&mut self, items: &'b [T]) -> &'b T {
        let i = self.pick(items.len());
        &items[i]
    }
}
