//! PBT driver, statistics, evidence writer, known-findings matcher and the
//! child-process guard shared by every property check.
//!
//! A check is `tpv check <id> <tier>`: the parent spawns N worker processes
//! (`tpv worker ...`), each of which runs the property's `run` function on its share
//! of the cases with a seed derived from VERIF_SEED. Before a case runs it is written
//! to a journal, so a worker that dies (abort, stack overflow, OOM under RLIMIT_AS) is
//! attributed to the case it was running. Workers report through a JSON file; the
//! parent merges them, writes `evidence/<id>.json`, prints `KNOWN-FINDING:` and
//! `VIOLATION` lines and chooses the exit code (0 held, 1 violation, 2 inconclusive).

use std::cell::RefCell;
use std::collections::{BTreeMap, BTreeSet, HashSet};
use std::fmt::Debug;
use std::io::Write;
use std::path::{Path, PathBuf};
use std::time::{Duration, Instant};

use proptest::strategy::Strategy;
use proptest::test_runner::{Config, RngSeed, TestCaseError, TestError, TestRunner};
use serde::de::DeserializeOwned;
use serde::{Deserialize, Serialize};
use serde_json::{json, Value as J};
use sha2::{Digest, Sha256};

pub mod tape;

/// Root of the verification tree (evidence/, out/, replays/, known_findings.json).
/// `TPV_ROOT` overrides it for scratch runs against a mutated copy of the repository.
pub fn verif_root() -> PathBuf {
    PathBuf::from(std::env::var("TPV_ROOT").unwrap_or_else(|_| "/verif".to_string()))
}

/// Root of the repository under test (`TPV_REPO` overrides it for scratch runs).
pub fn repo_root() -> PathBuf {
    PathBuf::from(std::env::var("TPV_REPO").unwrap_or_else(|_| "/repo".to_string()))
}

#[derive(Clone, Copy, Debug, PartialEq, Eq, Serialize, Deserialize)]
pub enum Tier {
    Quick,
    Thorough,
}

impl Tier {
    pub fn parse(s: &str) -> Option<Tier> {
        match s {
            "quick" => Some(Tier::Quick),
            "thorough" => Some(Tier::Thorough),
            _ => None,
        }
    }
    pub fn name(self) -> &'static str {
        match self {
            Tier::Quick => "quick",
            Tier::Thorough => "thorough",
        }
    }
    /// Pick a case count by tier.
    pub fn pick(self, quick: u32, thorough: u32) -> u32 {
        match self {
            Tier::Quick => quick,
            Tier::Thorough => thorough,
        }
    }
}

pub fn digest64(bytes: &[u8]) -> u64 {
    let d = Sha256::digest(bytes);
    u64::from_le_bytes(d[..8].try_into().unwrap())
}

pub fn sha_hex(bytes: &[u8]) -> String {
    let d = Sha256::digest(bytes);
    d.iter().map(|b| format!("{b:02x}")).collect()
}

#[derive(Clone, Debug, Serialize, Deserialize)]
pub struct Violation {
    pub replay: String,
    pub message: String,
}

#[derive(Clone, Debug, Default, Serialize, Deserialize)]
pub struct Stats {
    pub evaluations: u64,
    pub nontrivial: HashSet<u64>,
    pub labels: BTreeMap<String, u64>,
    pub samples: Vec<J>,
    pub excluded: BTreeMap<String, u64>,
    pub violations: Vec<Violation>,
    pub known: BTreeSet<String>,
    pub notes: BTreeSet<String>,
    pub inconclusive: Vec<String>,
    pub searches: BTreeMap<String, u64>,
    pub replays_run: u64,
}

impl Stats {
    pub fn merge(&mut self, other: Stats) {
        self.evaluations += other.evaluations;
        self.nontrivial.extend(other.nontrivial);
        for (k, v) in other.labels {
            *self.labels.entry(k).or_default() += v;
        }
        for (k, v) in other.excluded {
            *self.excluded.entry(k).or_default() += v;
        }
        for (k, v) in other.searches {
            *self.searches.entry(k).or_default() += v;
        }
        for s in other.samples {
            if self.samples.len() < 12 {
                self.samples.push(s);
            }
        }
        self.violations.extend(other.violations);
        self.known.extend(other.known);
        self.notes.extend(other.notes);
        self.inconclusive.extend(other.inconclusive);
        self.replays_run += other.replays_run;
    }
}

/// Per-case observations. Committed to the run statistics only for cases generated
/// before the first failure (shrinking re-runs the closure and must not be counted).
#[derive(Default)]
pub struct Probe {
    pub labels: Vec<String>,
    pub nontrivial: Option<u64>,
    pub sample: Option<J>,
    pub excluded: Vec<String>,
    pub known: Vec<String>,
}

impl Probe {
    pub fn label(&mut self, l: impl Into<String>) {
        self.labels.push(l.into());
    }
    /// Mark the case as non-trivial; `key` identifies the case for distinctness.
    pub fn nontrivial(&mut self, key: &[u8]) {
        self.nontrivial = Some(digest64(key));
    }
    pub fn sample(&mut self, v: J) {
        self.sample = Some(v);
    }
    pub fn excluded(&mut self, what: impl Into<String>) {
        self.excluded.push(what.into());
    }
    /// The case hit an *open known finding* (by key in known_findings.json).
    pub fn known(&mut self, key: impl Into<String>) {
        self.known.push(key.into());
    }
}

#[derive(Clone, Debug, Serialize, Deserialize)]
pub struct KnownFinding {
    pub property: String,
    pub key: String,
    pub status: String,
    pub what: String,
    #[serde(default)]
    pub signature: String,
    #[serde(default)]
    pub reproducer: String,
    #[serde(default)]
    pub commit: String,
}

pub fn load_known_findings() -> Vec<KnownFinding> {
    let path = verif_root().join("known_findings.json");
    let mut all: Vec<KnownFinding> = match std::fs::read_to_string(&path) {
        Ok(text) => serde_json::from_str(&text).unwrap_or_else(|e| {
            eprintln!("known_findings.json does not parse: {e}");
            std::process::exit(2);
        }),
        Err(_) => Vec::new(),
    };
    // per-property fragments (merged into known_findings.json before the final commit)
    if let Ok(rd) = std::fs::read_dir(verif_root().join("known_findings.d")) {
        let mut paths: Vec<_> = rd
            .flatten()
            .map(|e| e.path())
            .filter(|p| p.extension().map(|e| e == "json").unwrap_or(false))
            .collect();
        paths.sort();
        for p in paths {
            if let Ok(text) = std::fs::read_to_string(&p) {
                match serde_json::from_str::<Vec<KnownFinding>>(&text) {
                    Ok(v) => {
                        for f in v {
                            // known_findings.json is generated from the fragments; skip duplicates
                            if !all.iter().any(|a| a.property == f.property && a.key == f.key) {
                                all.push(f);
                            }
                        }
                    }
                    Err(e) => {
                        eprintln!("{} does not parse: {e}", p.display());
                        std::process::exit(2);
                    }
                }
            }
        }
    }
    all
}

#[derive(Clone, Debug, Serialize, Deserialize)]
pub struct ReplayFile {
    pub property: String,
    pub search: String,
    /// "pass" (must hold) or "known:<key>" (open known finding: failing is expected).
    #[serde(default = "default_expect")]
    pub expect: String,
    #[serde(default)]
    pub message: String,
    pub case: J,
}

fn default_expect() -> String {
    "pass".into()
}

pub struct RunCtx {
    pub id: String,
    pub tier: Tier,
    pub seed: u64,
    pub worker: usize,
    pub nworkers: usize,
    pub out_dir: PathBuf,
    pub stats: Stats,
    pub findings: Vec<KnownFinding>,
    /// Only run this replay file (strict replay mode).
    pub only_replay: Option<PathBuf>,
    journal: Option<std::fs::File>,
    pub started: Instant,
}

thread_local! {
    static LAST_PANIC: RefCell<Option<String>> = const { RefCell::new(None) };
}

pub fn install_quiet_panic_hook() {
    std::panic::set_hook(Box::new(|info| {
        let loc = info
            .location()
            .map(|l| format!("{}:{}", l.file(), l.line()))
            .unwrap_or_default();
        let msg = if let Some(s) = info.payload().downcast_ref::<&str>() {
            (*s).to_string()
        } else if let Some(s) = info.payload().downcast_ref::<String>() {
            s.clone()
        } else {
            "<non-string panic>".to_string()
        };
        LAST_PANIC.with(|p| *p.borrow_mut() = Some(format!("panic at {loc}: {msg}")));
    }));
}

pub fn take_last_panic() -> Option<String> {
    LAST_PANIC.with(|p| p.borrow_mut().take())
}

/// Run `f`, turning a panic into `Err(message)`.
pub fn catch<R>(f: impl FnOnce() -> R) -> Result<R, String> {
    match std::panic::catch_unwind(std::panic::AssertUnwindSafe(f)) {
        Ok(r) => Ok(r),
        Err(_) => Err(take_last_panic().unwrap_or_else(|| "panic".into())),
    }
}

impl RunCtx {
    pub fn new(id: &str, tier: Tier, seed: u64, worker: usize, nworkers: usize) -> RunCtx {
        let out_dir = verif_root().join("out").join(id);
        let _ = std::fs::create_dir_all(&out_dir);
        RunCtx {
            id: id.to_string(),
            tier,
            seed,
            worker,
            nworkers,
            out_dir,
            stats: Stats::default(),
            findings: load_known_findings()
                .into_iter()
                .filter(|f| f.property == id)
                .collect(),
            only_replay: None,
            journal: None,
            started: Instant::now(),
        }
    }

    pub fn open_journal(&mut self) {
        let path = self.out_dir.join(format!("journal-{}.json", self.worker));
        self.journal = std::fs::File::create(path).ok();
    }

    /// This worker's share of `total` cases.
    pub fn share(&self, total: u32) -> u32 {
        let n = self.nworkers.max(1) as u32;
        let base = total / n;
        let extra = if (self.worker as u32) < total % n { 1 } else { 0 };
        base + extra
    }

    pub fn is_open(&self, key: &str) -> bool {
        self.findings
            .iter()
            .any(|f| f.key == key && f.status == "open")
    }

    fn known_line(&self, key: &str) -> String {
        match self.findings.iter().find(|f| f.key == key) {
            Some(f) => format!("KNOWN-FINDING: property={} {} [{}]", self.id, f.what, f.key),
            None => format!("KNOWN-FINDING: property={} {}", self.id, key),
        }
    }

    pub fn note(&mut self, s: impl Into<String>) {
        self.stats.notes.insert(s.into());
    }

    pub fn inconclusive(&mut self, s: impl Into<String>) {
        self.stats.inconclusive.push(s.into());
    }

    fn write_journal(&mut self, search: &str, case: &J) {
        if let Some(file) = self.journal.as_mut() {
            use std::io::{Seek, SeekFrom};
            let rec = json!({"property": self.id, "search": search, "expect": "pass", "message": "process died while running this case", "case": case});
            let text = serde_json::to_vec(&rec).unwrap_or_default();
            let _ = file.seek(SeekFrom::Start(0));
            let _ = file.set_len(0);
            let _ = file.write_all(&text);
        }
    }

    fn replay_dir(&self) -> PathBuf {
        verif_root().join("replays").join(&self.id)
    }

    fn replay_files_for(&self, search: &str) -> Vec<(PathBuf, ReplayFile)> {
        let mut out = Vec::new();
        let mut paths: Vec<PathBuf> = Vec::new();
        if let Some(p) = &self.only_replay {
            paths.push(p.clone());
        } else if let Ok(rd) = std::fs::read_dir(self.replay_dir()) {
            for e in rd.flatten() {
                let p = e.path();
                if p.extension().map(|e| e == "json").unwrap_or(false) {
                    paths.push(p);
                }
            }
        }
        paths.sort();
        for p in paths {
            let Ok(text) = std::fs::read_to_string(&p) else {
                continue;
            };
            match serde_json::from_str::<ReplayFile>(&text) {
                Ok(r) if r.search == search => out.push((p, r)),
                Ok(_) => {}
                Err(e) => {
                    if self.only_replay.is_some() {
                        eprintln!("replay file {} does not parse: {e}", p.display());
                    }
                }
            }
        }
        out
    }

    fn save_violation(&mut self, search: &str, case: &J, message: &str) -> String {
        let rec = json!({"property": self.id, "search": search, "expect": "pass", "message": message, "case": case});
        let text = serde_json::to_string_pretty(&rec).unwrap();
        let name = format!("viol-{}-{:016x}.json", search, digest64(text.as_bytes()));
        let path = self.out_dir.join(name);
        let _ = std::fs::write(&path, text);
        path.display().to_string()
    }

    fn commit_probe(&mut self, probe: Probe) {
        for l in probe.labels {
            *self.stats.labels.entry(l).or_default() += 1;
        }
        for l in probe.excluded {
            *self.stats.excluded.entry(l).or_default() += 1;
        }
        if let Some(d) = probe.nontrivial {
            self.stats.nontrivial.insert(d);
            if let Some(s) = probe.sample {
                if self.stats.samples.len() < 4 {
                    self.stats.samples.push(s);
                }
            }
        }
        for k in probe.known {
            let line = self.known_line(&k);
            self.stats.known.insert(line);
        }
    }

    /// Replay tier for one search: every file in replays/<id>/ recorded for `search`.
    /// Only worker 0 replays (or the strict single-file replay mode).
    fn run_replays<T, F>(&mut self, search: &str, f: &F)
    where
        T: DeserializeOwned + Serialize,
        F: Fn(&T, &mut Probe) -> Result<(), String>,
    {
        if self.worker != 0 && self.only_replay.is_none() {
            return;
        }
        for (path, rf) in self.replay_files_for(search) {
            let case: T = match serde_json::from_value(rf.case.clone()) {
                Ok(c) => c,
                Err(e) => {
                    self.inconclusive(format!(
                        "replay {} no longer deserialises: {e}",
                        path.display()
                    ));
                    continue;
                }
            };
            self.write_journal(search, &rf.case);
            let mut probe = Probe::default();
            let res = catch(|| f(&case, &mut probe)).and_then(|r| r);
            self.stats.replays_run += 1;
            *self.stats.labels.entry("replay".into()).or_default() += 1;
            match res {
                Ok(()) => {
                    // A probe may itself report an open known finding.
                    let known = std::mem::take(&mut probe.known);
                    for k in known {
                        let line = self.known_line(&k);
                        self.stats.known.insert(line);
                    }
                }
                Err(msg) => {
                    if let Some(key) = rf.expect.strip_prefix("known:") {
                        if self.is_open(key) {
                            let line = self.known_line(key);
                            self.stats.known.insert(line);
                            continue;
                        }
                    }
                    self.stats.violations.push(Violation {
                        replay: path.display().to_string(),
                        message: format!("[replay] {msg}"),
                    });
                }
            }
        }
    }

    /// Generated search: `cases` is the total over all workers.
    /// The closure returns Err(message) on a property violation; panics are failures too.
    pub fn search<T, S, F>(&mut self, search: &str, strat: S, cases: u32, f: F)
    where
        S: Strategy<Value = T>,
        T: Debug + Clone + Serialize + DeserializeOwned,
        F: Fn(&T, &mut Probe) -> Result<(), String>,
    {
        self.run_replays::<T, F>(search, &f);
        if self.only_replay.is_some() {
            return;
        }
        let my_cases = self.share(cases);
        if my_cases == 0 {
            return;
        }
        let seed = self
            .seed
            .wrapping_mul(1_000_003)
            .wrapping_add(self.worker as u64)
            .wrapping_add(digest64(search.as_bytes()) & 0xffff_ffff);
        let config = Config {
            cases: my_cases,
            rng_seed: RngSeed::Fixed(seed),
            failure_persistence: None,
            max_shrink_iters: 4096,
            max_global_rejects: 1_000_000,
            verbose: 0,
            ..Config::default()
        };
        let mut runner = TestRunner::new(config);
        let failed = RefCell::new(false);
        let this = RefCell::new(&mut *self);
        let result = runner.run(&strat, |case: T| {
            let counting = !*failed.borrow();
            if counting {
                let j = serde_json::to_value(&case).unwrap_or(J::Null);
                this.borrow_mut().write_journal(search, &j);
            }
            let mut probe = Probe::default();
            let res = catch(|| f(&case, &mut probe)).and_then(|r| r);
            if counting {
                let mut me = this.borrow_mut();
                me.stats.evaluations += 1;
                *me.stats.searches.entry(search.to_string()).or_default() += 1;
                me.commit_probe(probe);
            }
            match res {
                Ok(()) => Ok(()),
                Err(msg) => {
                    *failed.borrow_mut() = true;
                    Err(TestCaseError::fail(msg))
                }
            }
        });
        drop(this);
        match result {
            Ok(()) => {}
            Err(TestError::Fail(reason, minimal)) => {
                let j = serde_json::to_value(&minimal).unwrap_or(J::Null);
                // Re-run the minimal case once to get its own message (the reason proptest
                // hands back belongs to the minimal case already, but be explicit).
                let message = reason.message().to_string();
                let path = self.save_violation(search, &j, &message);
                self.stats.violations.push(Violation {
                    replay: path,
                    message,
                });
            }
            Err(TestError::Abort(reason)) => {
                self.inconclusive(format!("search {search} aborted: {}", reason.message()));
            }
        }
    }

    /// Record a violation found outside a proptest search (e.g. an enumerated grid).
    pub fn violation(&mut self, search: &str, case: &J, message: &str) {
        let path = self.save_violation(search, case, message);
        self.stats.violations.push(Violation {
            replay: path,
            message: message.to_string(),
        });
    }

    /// Journal + count one enumerated (non-proptest) case.
    pub fn enumerated<F>(&mut self, search: &str, case: &J, f: F)
    where
        F: FnOnce(&mut Probe) -> Result<(), String>,
    {
        self.write_journal(search, case);
        let mut probe = Probe::default();
        let res = catch(|| f(&mut probe)).and_then(|r| r);
        self.stats.evaluations += 1;
        *self.stats.searches.entry(search.to_string()).or_default() += 1;
        self.commit_probe(probe);
        if let Err(msg) = res {
            self.violation(search, case, &msg);
        }
    }

    pub fn elapsed(&self) -> Duration {
        self.started.elapsed()
    }
}

/// Limit the address space of this process (used by the worker for properties whose
/// violation can be an unbounded allocation).
pub fn limit_address_space(bytes: u64) {
    unsafe {
        let lim = libc::rlimit {
            rlim_cur: bytes,
            rlim_max: bytes,
        };
        libc::setrlimit(libc::RLIMIT_AS, &lim);
    }
}

/// Static description of a property check (what the evidence file says about it).
pub struct PropertyInfo {
    pub id: &'static str,
    pub level: &'static str,
    pub rule: &'static str,
    pub assumptions: &'static [&'static str],
    pub workers_quick: usize,
    pub workers_thorough: usize,
    /// RLIMIT_AS for workers, 0 = none.
    pub address_space_limit: u64,
    /// Whole-check watchdog in seconds (exit 2 when hit).
    pub watchdog_quick_s: u64,
    pub watchdog_thorough_s: u64,
    pub run: fn(&mut RunCtx),
}

pub fn write_evidence(info: &PropertyInfo, tier: Tier, seed: u64, stats: &Stats, wall_s: f64) {
    let dir = verif_root().join("evidence");
    let _ = std::fs::create_dir_all(&dir);
    let mut labels = serde_json::Map::new();
    for (k, v) in &stats.labels {
        labels.insert(k.clone(), json!(v));
    }
    let ev = json!({
        "property_id": info.id,
        "tier": tier.name(),
        "seed": seed,
        "level": info.level,
        "coverage": {
            "evaluations": stats.evaluations + stats.replays_run,
            "generated_cases": stats.evaluations,
            "replayed_cases": stats.replays_run,
            "distinct_nontrivial": stats.nontrivial.len(),
            "rule": info.rule,
            "samples": stats.samples,
            "classification": labels,
            "per_search": stats.searches,
            "excluded_known_shapes": stats.excluded,
            "known_findings_reported": stats.known,
            "notes": stats.notes,
            "inconclusive": stats.inconclusive,
            "violation_messages": stats.violations.iter().map(|v| v.message.clone()).take(5).collect::<Vec<_>>(),
        },
        "assumptions": info.assumptions,
        "wall_s": wall_s,
        "violations": stats.violations.len(),
    });
    let path = dir.join(format!("{}.json", info.id));
    let _ = std::fs::write(path, serde_json::to_string_pretty(&ev).unwrap());
}

/// Parent side: spawn workers, merge, write evidence, print lines, return exit code.
pub fn run_check(info: &PropertyInfo, tier: Tier, seed: u64) -> i32 {
    let started = Instant::now();
    let nworkers = match tier {
        Tier::Quick => info.workers_quick,
        Tier::Thorough => info.workers_thorough,
    }
    .max(1);
    let out_dir = verif_root().join("out").join(info.id);
    let _ = std::fs::remove_dir_all(&out_dir);
    let _ = std::fs::create_dir_all(&out_dir);
    let exe = std::env::current_exe().expect("current_exe");
    let mut children = Vec::new();
    for w in 0..nworkers {
        let child = std::process::Command::new(&exe)
            .arg("worker")
            .arg(info.id)
            .arg(tier.name())
            .arg(seed.to_string())
            .arg(w.to_string())
            .arg(nworkers.to_string())
            .stdin(std::process::Stdio::null())
            .spawn();
        match child {
            Ok(c) => children.push((w, c)),
            Err(e) => {
                eprintln!("cannot spawn worker: {e}");
                return 2;
            }
        }
    }
    let watchdog = Duration::from_secs(match tier {
        Tier::Quick => info.watchdog_quick_s,
        Tier::Thorough => info.watchdog_thorough_s,
    });
    let mut stats = Stats::default();
    let mut exit = 0;
    let mut pending = children;
    let mut finished: Vec<(usize, std::process::ExitStatus)> = Vec::new();
    while !pending.is_empty() {
        let mut still = Vec::new();
        for (w, mut c) in pending {
            match c.try_wait() {
                Ok(Some(status)) => finished.push((w, status)),
                Ok(None) => still.push((w, c)),
                Err(_) => still.push((w, c)),
            }
        }
        pending = still;
        if pending.is_empty() {
            break;
        }
        if started.elapsed() > watchdog {
            for (_, c) in pending.iter_mut() {
                let _ = c.kill();
                let _ = c.wait();
            }
            stats.inconclusive.push(format!(
                "watchdog: check exceeded {} s; workers killed (not a violation)",
                watchdog.as_secs()
            ));
            exit = 2;
            break;
        }
        std::thread::sleep(Duration::from_millis(20));
    }
    for (w, status) in finished {
        use std::os::unix::process::ExitStatusExt;
        let report = out_dir.join(format!("worker-{w}.json"));
        let clean = status.code() == Some(0);
        if clean {
            match std::fs::read_to_string(&report)
                .ok()
                .and_then(|t| serde_json::from_str::<Stats>(&t).ok())
            {
                Some(s) => stats.merge(s),
                None => {
                    stats
                        .inconclusive
                        .push(format!("worker {w} left no readable report"));
                    exit = exit.max(2);
                }
            }
        } else {
            // The worker died: attribute to the journalled case.
            let journal = out_dir.join(format!("journal-{w}.json"));
            let how = match status.signal() {
                Some(sig) => format!("signal {sig}"),
                None => format!("exit code {:?}", status.code()),
            };
            // Partial stats, if the worker managed to write any, are not available; count nothing.
            match std::fs::read_to_string(&journal) {
                Ok(text) if !text.trim().is_empty() => {
                    let name = format!("abort-{:016x}.json", digest64(text.as_bytes()));
                    let path = out_dir.join(name);
                    let mut rec: J = serde_json::from_str(&text).unwrap_or(J::Null);
                    if let Some(obj) = rec.as_object_mut() {
                        obj.insert(
                            "message".into(),
                            json!(format!("worker process died ({how}) while running this case")),
                        );
                    }
                    let _ = std::fs::write(&path, serde_json::to_string_pretty(&rec).unwrap());
                    stats.violations.push(Violation {
                        replay: path.display().to_string(),
                        message: format!("worker process died ({how})"),
                    });
                }
                _ => {
                    stats
                        .inconclusive
                        .push(format!("worker {w} died ({how}) before journalling a case"));
                    exit = exit.max(2);
                }
            }
        }
    }
    let wall = started.elapsed().as_secs_f64();
    // The evidence schema wants >= 2 distinct non-trivial cases; a run that produced
    // fewer did not explore anything and is reported as inconclusive.
    write_evidence(info, tier, seed, &stats, wall);
    for line in &stats.known {
        println!("{line}");
    }
    // Every open entry of the known-findings file is listed on every run, also one whose
    // shape is excluded by construction and has no reproducer that re-observes it.
    for f in load_known_findings()
        .into_iter()
        .filter(|f| f.property == info.id && f.status == "open")
    {
        let tag = format!("[{}]", f.key);
        if !stats.known.iter().any(|l| l.ends_with(&tag)) {
            println!(
                "KNOWN-FINDING: property={} {} (excluded by construction; not re-observed in this run) [{}]",
                info.id, f.what, f.key
            );
        }
    }
    for v in &stats.violations {
        println!("VIOLATION property={} replay={}", info.id, v.replay);
        eprintln!("  {}", v.message.lines().take(12).collect::<Vec<_>>().join("\n  "));
    }
    for s in &stats.inconclusive {
        eprintln!("INCONCLUSIVE: {s}");
    }
    if !stats.violations.is_empty() {
        return 1;
    }
    if !stats.inconclusive.is_empty() {
        exit = exit.max(2);
    }
    println!(
        "{} {}: {} cases (+{} replays), {} distinct non-trivial, {} known finding(s), {:.1}s",
        info.id,
        tier.name(),
        stats.evaluations,
        stats.replays_run,
        stats.nontrivial.len(),
        stats.known.len(),
        wall
    );
    exit
}

/// Worker side.
pub fn run_worker(info: &PropertyInfo, tier: Tier, seed: u64, worker: usize, nworkers: usize) -> i32 {
    install_quiet_panic_hook();
    if info.address_space_limit > 0 {
        limit_address_space(info.address_space_limit);
    }
    let run = info.run;
    let id = info.id;
    // Run on a thread with the platform's default main-thread stack size (8 MiB) so that
    // "stack overflow" is judged against what a user's process has.
    let handle = std::thread::Builder::new()
        .stack_size(8 << 20)
        .spawn(move || {
            let mut ctx = RunCtx::new(id, tier, seed, worker, nworkers);
            ctx.open_journal();
            run(&mut ctx);
            ctx.stats
        })
        .expect("spawn");
    match handle.join() {
        Ok(stats) => {
            let out = verif_root()
                .join("out")
                .join(info.id)
                .join(format!("worker-{worker}.json"));
            let _ = std::fs::write(out, serde_json::to_vec(&stats).unwrap());
            0
        }
        Err(_) => {
            eprintln!(
                "worker {worker} panicked outside a case: {}",
                take_last_panic().unwrap_or_default()
            );
            3
        }
    }
}

/// Strict single-file replay: exit 1 + VIOLATION if the case fails.
pub fn run_replay(info: &PropertyInfo, path: &Path) -> i32 {
    install_quiet_panic_hook();
    if info.address_space_limit > 0 {
        limit_address_space(info.address_space_limit);
    }
    let run = info.run;
    let id = info.id;
    let p = path.to_path_buf();
    let handle = std::thread::Builder::new()
        .stack_size(8 << 20)
        .spawn(move || {
            let mut ctx = RunCtx::new(id, Tier::Quick, 0, 0, 1);
            ctx.only_replay = Some(p);
            run(&mut ctx);
            ctx.stats
        })
        .expect("spawn");
    let stats = match handle.join() {
        Ok(s) => s,
        Err(_) => {
            println!("VIOLATION property={} replay={}", info.id, path.display());
            return 1;
        }
    };
    for line in &stats.known {
        println!("{line}");
    }
    for s in &stats.inconclusive {
        eprintln!("INCONCLUSIVE: {s}");
    }
    if !stats.inconclusive.is_empty() && stats.violations.is_empty() {
        return 2;
    }
    if stats.replays_run == 0 {
        eprintln!("no search claimed the replay file {}", path.display());
        return 2;
    }
    if let Some(v) = stats.violations.first() {
        println!("VIOLATION property={} replay={}", info.id, path.display());
        eprintln!("  {}", v.message);
        return 1;
    }
    println!("replay {}: held", path.display());
    0
}
