//! tpverif: property-based testing / fuzzing machinery for trust-platform.
pub mod engine;
pub mod props;
pub mod stgen;
pub mod stref;
