//! C16 project generator: a deterministic function of a tape. Emits 1-3 ST files and a
//! model of every identifier occurrence (which symbol, which role), with deliberately
//! overlapping name pools. All scalar data is INT (typed literals, exact-type
//! assignments: finding F8), one BOOL input, enum and struct variables.

use serde::{Deserialize, Serialize};

use crate::engine::tape::Reader;

const VAR_POOL: &[&str] = &["a", "b", "x", "y", "t", "k", "n", "g", "h", "v", "cnt", "val"];
const TOP_POOL: &[&str] = &["F", "G", "Calc", "Acc", "Fb", "Pt", "Col", "Lib", "Main", "Aux", "t", "x", "k", "val"];
const METHOD_POOL: &[&str] = &["M", "Bump", "Upd", "F", "x", "t", "G"];
const ENUM_POOL: &[&str] = &["Red", "Grn", "Blu", "a", "x", "Acc"];

#[derive(Clone, Debug, Serialize, Deserialize)]
pub struct Sym {
    pub name: String,
    pub kind: String,
    pub scope: usize,
}

#[derive(Clone, Debug, Serialize, Deserialize)]
pub struct Occ {
    pub file: usize,
    pub start: usize,
    pub end: usize,
    pub sym: usize,
    pub role: String,
}

#[derive(Clone, Debug)]
pub struct Scope {
    pub parent: Option<usize>,
    pub names: Vec<(String, usize)>,
    /// scopes that are not part of any lookup chain from below (struct fields, enum values,
    /// configuration) have `chained == false` for their children.
    pub kind: &'static str,
}

#[derive(Clone, Debug)]
pub struct Project {
    pub files: Vec<String>,
    pub syms: Vec<Sym>,
    pub scopes: Vec<Scope>,
    pub occs: Vec<Occ>,
    pub case_variants: bool,
    /// how often an FB instance name was re-drawn because a FUNCTION has that name
    pub avoided_instance_names: usize,
    /// how often a FUNCTION was kept out of a NAMESPACE
    pub avoided_ns_functions: usize,
    /// number of FUNCTIONs declared inside a NAMESPACE (behaviour is then not compared)
    pub ns_functions: usize,
    /// (scope, symbol) for every function block: the scope holding its members
    pub fb_scopes: Vec<(usize, usize)>,
    /// template-clone mode: files 1.. start with a clone of the first region of file 0 in
    /// which only the top-level names differ (by equal-length names), so that every nested
    /// declaration and use sits at the same byte offset in all files
    pub clone_mode: bool,
    /// a padding comment was inserted into a clone (offsets behind it are shifted)
    pub clone_padded: bool,
    /// dummy declarations appended at the end of the files (varies symbol-table sizes)
    pub dummy_decls: usize,
    /// enum literals qualified through an alias of the enum (`Shade#Red`): the analysis
    /// accepts them, the runtime compiler rejects them ("invalid typed literal")
    pub alias_literals: usize,
}

struct Model {
    syms: Vec<Sym>,
    scopes: Vec<Scope>,
    avoided_instance_names: usize,
    avoided_ns_functions: usize,
    ns_functions: usize,
}

impl Model {
    fn scope(&mut self, parent: Option<usize>, kind: &'static str) -> usize {
        self.scopes.push(Scope {
            parent,
            names: Vec::new(),
            kind,
        });
        self.scopes.len() - 1
    }
    fn has(&self, scope: usize, name: &str) -> bool {
        self.scopes[scope].names.iter().any(|(n, _)| n.eq_ignore_ascii_case(name))
    }
    /// Declare a symbol with a name from `pool` that is unique in `scope`.
    fn declare(&mut self, r: &mut Reader, scope: usize, pool: &[&str], kind: &str) -> usize {
        self.declare_avoiding(r, scope, pool, kind, "")
    }
    fn declare_avoiding(&mut self, r: &mut Reader, scope: usize, pool: &[&str], kind: &str, avoid: &str) -> usize {
        let avoid_list: Vec<String> = if kind == "fb_instance" {
            // open runtime finding: a call on an FB instance named like a global FUNCTION
            // (ignoring case) runs the function; excluded by construction
            self.syms.iter().filter(|s| s.kind == "function").map(|s| s.name.clone()).collect()
        } else {
            Vec::new()
        };
        let start = r.pick(pool.len());
        let mut name = None;
        for i in 0..pool.len() {
            let cand = pool[(start + i) % pool.len()];
            if avoid_list.iter().any(|a| a.eq_ignore_ascii_case(cand)) {
                self.avoided_instance_names += 1;
                continue;
            }
            if !self.has(scope, cand) && !cand.eq_ignore_ascii_case(avoid) {
                name = Some(cand.to_string());
                break;
            }
        }
        let name = name.unwrap_or_else(|| format!("u{}", self.syms.len()));
        self.declare_named(scope, &name, kind)
    }
    fn declare_named(&mut self, scope: usize, name: &str, kind: &str) -> usize {
        let id = self.syms.len();
        self.syms.push(Sym {
            name: name.to_string(),
            kind: kind.to_string(),
            scope,
        });
        self.scopes[scope].names.push((name.to_ascii_lowercase(), id));
        id
    }
    /// Model resolution of `name` from `scope` upwards.
    fn resolve(&self, scope: usize, name: &str) -> Option<usize> {
        let mut cur = Some(scope);
        while let Some(s) = cur {
            if let Some((_, id)) = self.scopes[s].names.iter().find(|(n, _)| n.eq_ignore_ascii_case(name)) {
                return Some(*id);
            }
            cur = self.scopes[s].parent;
        }
        None
    }
    fn visible(&self, scope: usize, sym: usize) -> bool {
        self.resolve(scope, &self.syms[sym].name) == Some(sym)
    }
}

struct FuncPlan {
    sym: usize,
    scope: usize,
    inputs: Vec<usize>,
    locals: Vec<usize>,
    ns: Option<usize>,
    file: usize,
    /// template-clone mode: a textual clone (not emitted by the normal loops)
    clone: bool,
    /// template-clone mode: declared once, after the cloned region, and referenced from
    /// the region of every file at the same offsets
    shared: bool,
}

struct MethodPlan {
    sym: usize,
    scope: usize,
    inputs: Vec<usize>,
    locals: Vec<usize>,
}

struct FbPlan {
    sym: usize,
    scope: usize,
    inputs: Vec<usize>,
    outputs: Vec<usize>,
    vars: Vec<usize>,
    methods: Vec<MethodPlan>,
    ns: Option<usize>,
    file: usize,
    clone: bool,
}

struct StructPlan {
    sym: usize,
    /// INT fields
    fields: Vec<usize>,
    /// a field whose type is an earlier struct of the project: (field, struct index)
    nested: Option<(usize, usize)>,
    is_union: bool,
    file: usize,
    clone: bool,
}

/// Other declarations of a TYPE block: aliases (of the enum, of a struct, of INT, of another
/// alias) and fillers (subrange, array type).
#[derive(Clone)]
struct AliasPlan {
    sym: usize,
    /// what is written after the colon: a symbol (enum, struct, alias) or plain text
    target_sym: Option<usize>,
    target_text: String,
    /// the enum / struct this alias finally names
    enum_idx: Option<usize>,
    struct_idx: Option<usize>,
    is_int: bool,
    file: usize,
    clone: bool,
}

struct EnumPlan {
    sym: usize,
    values: Vec<usize>,
    file: usize,
    clone: bool,
}

struct ProgPlan {
    sym: usize,
    scope: usize,
    externals: Vec<usize>,
    io: [usize; 3],
    locals: Vec<usize>,
    fb_insts: Vec<(usize, usize)>,
    struct_vars: Vec<(usize, usize)>,
    enum_vars: Vec<(usize, usize)>,
    /// arrays of structs: (variable, struct index)
    arr_vars: Vec<(usize, usize)>,
    /// the type name written in the declaration of a struct / enum variable (the type itself
    /// or one of its aliases): (variable, type symbol)
    var_types: Vec<(usize, usize)>,
    /// variables of an alias of INT
    int_alias_vars: Vec<(usize, usize)>,
    file: usize,
}

struct ConfPlan {
    sym: usize,
    globals: Vec<usize>,
    res: usize,
    task: usize,
    insts: Vec<(usize, usize)>,
    file: usize,
}

struct Em<'a> {
    files: Vec<String>,
    cur: usize,
    occs: Vec<Occ>,
    m: &'a Model,
    case_variants: bool,
    /// enum literals written with an alias of the enum as qualifier (`Shade#Red`)
    alias_literals: usize,
}

impl<'a> Em<'a> {
    fn t(&mut self, s: &str) {
        self.files[self.cur].push_str(s);
    }
    fn put(&mut self, sym: usize, role: &str, text: &str) {
        let start = self.files[self.cur].len();
        self.files[self.cur].push_str(text);
        self.occs.push(Occ {
            file: self.cur,
            start,
            end: start + text.len(),
            sym,
            role: role.to_string(),
        });
    }
    fn decl(&mut self, sym: usize) {
        let name = self.m.syms[sym].name.clone();
        self.put(sym, "decl", &name);
    }
    fn id(&mut self, r: &mut Reader, sym: usize, role: &str) {
        let mut name = self.m.syms[sym].name.clone();
        if self.case_variants && r.chance(1, 3) {
            let up = name.to_ascii_uppercase();
            name = if up != name { up } else { name.to_ascii_lowercase() };
        }
        self.put(sym, role, &name);
    }
}

/// What an INT expression may mention at some point of the program text.
#[derive(Default, Clone)]
struct Env {
    #[allow(dead_code)]
    scope: usize,
    /// plain INT variables readable here (all visible by the model's scoping)
    vars: Vec<usize>,
    /// functions callable here: index into funcs
    funcs: Vec<usize>,
    /// (instance symbol, fb index)
    insts: Vec<(usize, usize)>,
    /// (struct variable symbol, struct index)
    svars: Vec<(usize, usize)>,
    /// arrays of structs readable here
    avars: Vec<(usize, usize)>,
}

struct Gen<'a> {
    funcs: &'a [FuncPlan],
    fbs: &'a [FbPlan],
    structs: &'a [StructPlan],
}

impl<'a> Gen<'a> {
    fn lit(&self, em: &mut Em, r: &mut Reader) {
        em.t(&format!("INT#{}", r.pick(10)));
    }

    fn call_func(&self, em: &mut Em, r: &mut Reader, env: &Env, fi: usize, depth: usize, pos: bool) {
        let f = &self.funcs[fi];
        if let Some(ns) = f.ns {
            em.id(r, ns, "nsqual");
            em.t(".");
            em.id(r, f.sym, "ns_call");
        } else {
            em.id(r, f.sym, "call");
        }
        em.t("(");
        let named = r.chance(1, 2) && !pos;
        for (i, p) in f.inputs.iter().enumerate() {
            if i > 0 {
                em.t(", ");
            }
            if named {
                em.id(r, *p, "named_arg");
                em.t(" := ");
            }
            self.expr_p(em, r, env, depth + 1, !named);
        }
        em.t(")");
    }

    fn expr(&self, em: &mut Em, r: &mut Reader, env: &Env, depth: usize) {
        self.expr_p(em, r, env, depth, false)
    }

    /// `pos`: we are inside a positional call; nested calls must be positional as well
    /// (the checker treats a call as formal when any nested argument uses `:=`).
    fn expr_p(&self, em: &mut Em, r: &mut Reader, env: &Env, depth: usize, pos: bool) {
        let w_var = if env.vars.is_empty() { 0 } else { 6 };
        let w_bin = if depth < 2 { 4 } else { 0 };
        let w_fn = if depth < 2 && !env.funcs.is_empty() { 3 } else { 0 };
        let w_out = if env.insts.iter().any(|(_, f)| !self.fbs[*f].outputs.is_empty()) { 2 } else { 0 };
        let w_fld = if env.svars.is_empty() && env.avars.is_empty() { 0 } else { 3 };
        let w_meth = if depth < 2 && env.insts.iter().any(|(_, f)| !self.fbs[*f].methods.is_empty()) { 2 } else { 0 };
        let w_std = if depth < 2 { 3 } else { 0 };
        match r.weighted(&[2, w_var, w_bin, w_fn, w_out, w_fld, w_meth, w_std]) {
            0 => self.lit(em, r),
            1 => {
                let v = *r.choose(&env.vars);
                em.id(r, v, "use");
            }
            2 => {
                self.expr_p(em, r, env, depth + 1, pos);
                em.t(if r.flag() { " + " } else { " - " });
                self.expr_p(em, r, env, depth + 1, pos);
            }
            3 => {
                let fi = *r.choose(&env.funcs);
                self.call_func(em, r, env, fi, depth, pos);
            }
            4 => {
                let cands: Vec<(usize, usize)> =
                    env.insts.iter().copied().filter(|(_, f)| !self.fbs[*f].outputs.is_empty()).collect();
                let (inst, f) = *r.choose(&cands);
                let o = *r.choose(&self.fbs[f].outputs);
                em.id(r, inst, "use");
                em.t(".");
                em.id(r, o, "member");
            }
            5 => {
                // field read: plain, through a nested struct field, or of an array element
                let use_arr = !env.avars.is_empty() && (env.svars.is_empty() || r.chance(1, 3));
                let (sv, s) = if use_arr { *r.choose(&env.avars) } else { *r.choose(&env.svars) };
                em.id(r, sv, "use");
                if use_arr {
                    em.t(&format!("[{}]", r.pick(3)));
                }
                em.t(".");
                match self.structs[s].nested {
                    Some((nf, ns)) if r.chance(1, 3) => {
                        em.id(r, nf, "field");
                        em.t(".");
                        let fld = *r.choose(&self.structs[ns].fields);
                        em.id(r, fld, "field");
                    }
                    _ => {
                        let fld = *r.choose(&self.structs[s].fields);
                        em.id(r, fld, "field");
                    }
                }
            }
            7 => {
                // standard function call: a name that no project symbol binds
                match r.pick(4) {
                    0 => {
                        em.t("ABS(");
                        self.expr_p(em, r, env, depth + 1, true);
                        em.t(")");
                    }
                    1 => {
                        em.t("MAX(");
                        self.expr_p(em, r, env, depth + 1, true);
                        em.t(", ");
                        self.expr_p(em, r, env, depth + 1, true);
                        em.t(")");
                    }
                    2 => {
                        em.t("MIN(");
                        self.expr_p(em, r, env, depth + 1, true);
                        em.t(", ");
                        self.expr_p(em, r, env, depth + 1, true);
                        em.t(")");
                    }
                    _ => {
                        em.t("LIMIT(INT#0, ");
                        self.expr_p(em, r, env, depth + 1, true);
                        em.t(", INT#9)");
                    }
                }
            }
            _ => {
                let cands: Vec<(usize, usize)> =
                    env.insts.iter().copied().filter(|(_, f)| !self.fbs[*f].methods.is_empty()).collect();
                let (inst, f) = *r.choose(&cands);
                let mi = r.pick(self.fbs[f].methods.len());
                let m = &self.fbs[f].methods[mi];
                em.id(r, inst, "use");
                em.t(".");
                em.id(r, m.sym, "member_call");
                em.t("(");
                let named = r.chance(1, 2) && !pos;
                for (i, p) in m.inputs.iter().enumerate() {
                    if i > 0 {
                        em.t(", ");
                    }
                    if named {
                        em.id(r, *p, "named_arg");
                        em.t(" := ");
                    }
                    self.expr_p(em, r, env, depth + 1, !named);
                }
                em.t(")");
            }
        }
    }

    fn assign(&self, em: &mut Em, r: &mut Reader, env: &Env, target: usize, indent: &str) {
        em.t(indent);
        em.id(r, target, "use");
        em.t(" := ");
        self.expr(em, r, env, 0);
        em.t(";\n");
    }
}

fn var_block(em: &mut Em, header: &str, vars: &[usize], ty: &str) {
    if vars.is_empty() {
        return;
    }
    em.t(header);
    em.t("\n");
    for v in vars {
        em.t("    ");
        em.decl(*v);
        em.t(&format!(" : {ty};\n"));
    }
    em.t("END_VAR\n");
}

/// A name of the same length as `name` that is not yet declared at the global level.
fn equal_len_name(m: &Model, global: usize, name: &str, k: usize) -> String {
    const SINGLE: &[&str] = &["q", "r", "s", "u", "w", "z", "j", "m", "p", "d", "e", "i", "o", "l"];
    if name.len() == 1 {
        for i in 0..SINGLE.len() {
            let cand = SINGLE[(i + 3 * k) % SINGLE.len()];
            if !m.has(global, cand) {
                return cand.to_string();
            }
        }
        return name.to_string();
    }
    let stem = &name[..name.len() - 1];
    for d in 0..10 {
        let cand = format!("{stem}{}", (k + d) % 10);
        if !m.has(global, &cand) && !cand.eq_ignore_ascii_case(name) {
            return cand;
        }
    }
    name.to_string()
}

/// Clone a symbol into `scope`; top-level symbols get an equal-length new name.
fn clone_sym(m: &mut Model, map: &mut Vec<Option<usize>>, global: usize, old: usize, scope: usize, k: usize) -> usize {
    let name = if scope == global {
        equal_len_name(m, global, &m.syms[old].name.clone(), k)
    } else {
        m.syms[old].name.clone()
    };
    let kind = m.syms[old].kind.clone();
    let id = m.declare_named(scope, &name, &kind);
    if map.len() <= old {
        map.resize(old + 1, None);
    }
    map[old] = Some(id);
    id
}

pub fn generate(r: &mut Reader) -> Project {
    let mut m = Model {
        syms: Vec::new(),
        scopes: Vec::new(),
        avoided_instance_names: 0,
        avoided_ns_functions: 0,
        ns_functions: 0,
    };
    let global = m.scope(None, "global");
    let nfiles = 1 + r.weighted(&[2, 3, 4]);
    let case_variants = r.chance(1, 3) && r.chance(1, 3);
    // template-clone mode: about a third of the projects
    let clone_mode = r.chance(1, 4);
    let nclones = if clone_mode { 1 + r.weighted(&[3, 2]) } else { 0 };
    let nfiles = if clone_mode { 1 + nclones } else { nfiles };

    // ---- plan -------------------------------------------------------------------
    let ns_sym = if r.chance(2, 3) && !clone_mode { Some(m.declare(r, global, TOP_POOL, "namespace")) } else { None };
    let ns_scope = ns_sym.map(|_| m.scope(Some(global), "namespace"));

    let mut enums = Vec::new();
    if r.chance(2, 3) {
        let sym = m.declare(r, global, TOP_POOL, "enum_type");
        let n = 2 + r.pick(2);
        let values = (0..n).map(|_| m.declare(r, global, ENUM_POOL, "enum_value")).collect();
        let file = r.pick(nfiles);
        enums.push(EnumPlan {
            sym,
            values,
            file: if clone_mode { 0 } else { file },
            clone: false,
        });
    }
    // one file for all TYPE blocks (the region of file 0 in clone mode)
    let types_file = if clone_mode { 0 } else { r.pick(nfiles) };
    if let Some(e) = enums.last_mut() {
        e.file = types_file;
    }
    let mut structs: Vec<StructPlan> = Vec::new();
    for si in 0..r.weighted(&[1, 3, 3, 2]) {
        let sym = m.declare(r, global, TOP_POOL, "struct_type");
        let sc = m.scope(None, "struct");
        let n = 1 + r.pick(3);
        // the field pool is small on purpose: the structs of a project share field names
        let fields: Vec<usize> = (0..n).map(|_| m.declare(r, sc, &VAR_POOL[..6], "field")).collect();
        let is_union = si > 0 && r.chance(1, 5);
        let nested = if si > 0 && !is_union && r.chance(1, 2) {
            let target = r.pick(si);
            if structs[target].is_union {
                None
            } else {
                // often a name that the inner struct uses as well
                Some((m.declare(r, sc, &VAR_POOL[..6], "field"), target))
            }
        } else {
            None
        };
        structs.push(StructPlan { sym, fields, nested, is_union, file: types_file, clone: false });
    }
    const ALIAS_POOL: &[&str] = &["Shade", "Tint", "Alias", "MyInt", "Rng", "Ary", "T2", "val", "x"];
    let mut aliases: Vec<AliasPlan> = Vec::new();
    for _ in 0..r.weighted(&[2, 3, 3, 2]) {
        let what = r.weighted(&[if enums.is_empty() { 0 } else { 4 }, if structs.is_empty() { 0 } else { 3 }, 2, 1, 1]);
        let sym = m.declare(r, global, ALIAS_POOL, "alias_type");
        let mut a = AliasPlan {
            sym,
            target_sym: None,
            target_text: String::new(),
            enum_idx: None,
            struct_idx: None,
            is_int: false,
            file: types_file,
            clone: false,
        };
        match what {
            0 => {
                // alias of the enum, or of an earlier alias of it (chain)
                let earlier: Vec<usize> = aliases.iter().filter(|x| x.enum_idx.is_some()).map(|x| x.sym).collect();
                a.enum_idx = Some(0);
                a.target_sym = Some(if !earlier.is_empty() && r.chance(1, 2) { *r.choose(&earlier) } else { enums[0].sym });
            }
            1 => {
                let candidates: Vec<usize> = (0..structs.len()).filter(|i| !structs[*i].is_union).collect();
                if candidates.is_empty() {
                    a.is_int = true;
                    a.target_text = "INT".into();
                } else {
                    let si = *r.choose(&candidates);
                    let earlier: Vec<usize> = aliases.iter().filter(|x| x.struct_idx == Some(si)).map(|x| x.sym).collect();
                    a.struct_idx = Some(si);
                    a.target_sym = Some(if !earlier.is_empty() && r.chance(1, 2) { *r.choose(&earlier) } else { structs[si].sym });
                }
            }
            2 => {
                a.is_int = true;
                let earlier: Vec<usize> = aliases.iter().filter(|x| x.is_int).map(|x| x.sym).collect();
                if !earlier.is_empty() && r.chance(1, 2) {
                    a.target_sym = Some(*r.choose(&earlier));
                } else {
                    a.target_text = "INT".into();
                }
            }
            3 => a.target_text = "INT (0..100)".into(),
            _ => a.target_text = "ARRAY[0..3] OF INT".into(),
        }
        aliases.push(a);
    }

    let ns_first_file = r.pick(nfiles);
    let mut ns_members = 0usize;
    let mut funcs = Vec::new();
    let nfuncs = if clone_mode { 1 + r.weighted(&[3, 3]) } else { r.weighted(&[1, 3, 2]) };
    for _ in 0..nfuncs {
        // open runtime finding: the result assignment of a FUNCTION declared in a NAMESPACE
        // writes a same-named variable of the caller / a stray global. Functions are kept
        // out of namespaces (counted), function blocks are not.
        // Half of the wanted ones are declared in the namespace anyway: such projects are
        // judged by diagnostics, compilability and rename-back only (flag `ns_functions`).
        let wanted_ns = ns_sym.is_some() && r.chance(1, 2);
        let in_ns = wanted_ns && r.chance(1, 2);
        if wanted_ns && !in_ns {
            m.avoided_ns_functions += 1;
        }
        if in_ns {
            m.ns_functions += 1;
        }
        let parent = if in_ns { ns_scope.unwrap() } else { global };
        let sym = m.declare(r, parent, TOP_POOL, "function");
        let scope = m.scope(Some(parent), "function");
        let own = m.syms[sym].name.clone();
        let inputs = (0..1 + r.pick(2)).map(|_| m.declare_avoiding(r, scope, VAR_POOL, "func_input", &own)).collect();
        let locals = (0..r.pick(3)).map(|_| m.declare_avoiding(r, scope, VAR_POOL, "func_local", &own)).collect();
        let file = if in_ns {
            // blocks of one namespace are spread over the files
            ns_members += 1;
            let _ = r.pick(nfiles);
            (ns_first_file + ns_members - 1) % nfiles
        } else {
            r.pick(nfiles)
        };
        let shared = clone_mode && r.chance(1, 2);
        funcs.push(FuncPlan {
            sym,
            scope,
            inputs,
            locals,
            ns: if in_ns { ns_sym } else { None },
            file: if clone_mode { 0 } else { file },
            clone: false,
            shared,
        });
    }

    let mut fbs = Vec::new();
    for _ in 0..r.weighted(&[1, 3, 3, 1]) {
        let in_ns = ns_sym.is_some() && r.chance(2, 3);
        let parent = if in_ns { ns_scope.unwrap() } else { global };
        let sym = m.declare(r, parent, TOP_POOL, "fb");
        let scope = m.scope(Some(parent), "fb");
        let inputs: Vec<usize> = (0..1 + r.pick(2)).map(|_| m.declare(r, scope, VAR_POOL, "fb_input")).collect();
        let outputs: Vec<usize> = (0..1 + r.pick(2)).map(|_| m.declare(r, scope, VAR_POOL, "fb_output")).collect();
        let vars: Vec<usize> = (0..r.pick(3)).map(|_| m.declare(r, scope, VAR_POOL, "fb_var")).collect();
        let mut methods = Vec::new();
        for _ in 0..r.weighted(&[2, 3, 2]) {
            let msym = m.declare(r, scope, METHOD_POOL, "method");
            let mscope = m.scope(Some(scope), "method");
            let own = m.syms[msym].name.clone();
            let minputs = (0..1 + r.pick(2)).map(|_| m.declare_avoiding(r, mscope, VAR_POOL, "method_input", &own)).collect();
            let mlocals = (0..r.pick(3)).map(|_| m.declare_avoiding(r, mscope, VAR_POOL, "method_local", &own)).collect();
            methods.push(MethodPlan {
                sym: msym,
                scope: mscope,
                inputs: minputs,
                locals: mlocals,
            });
        }
        let file = if in_ns {
            ns_members += 1;
            let _ = r.pick(nfiles);
            (ns_first_file + ns_members - 1) % nfiles
        } else {
            r.pick(nfiles)
        };
        fbs.push(FbPlan {
            sym,
            scope,
            inputs,
            outputs,
            vars,
            methods,
            ns: if in_ns { ns_sym } else { None },
            file: if clone_mode { 0 } else { file },
            clone: false,
        });
    }

    // template clones: the same plans again with equal-length top-level names
    let mut clone_maps: Vec<Vec<Option<usize>>> = Vec::new();
    for k in 1..=nclones {
        let mut map: Vec<Option<usize>> = Vec::new();
        for i in 0..enums.len() {
            if enums[i].clone {
                continue;
            }
            let sym = clone_sym(&mut m, &mut map, global, enums[i].sym, global, k);
            let old_values = enums[i].values.clone();
            let values = old_values.iter().map(|v| clone_sym(&mut m, &mut map, global, *v, global, k)).collect();
            enums.push(EnumPlan { sym, values, file: k, clone: true });
        }
        for i in 0..structs.len() {
            if structs[i].clone {
                continue;
            }
            let sym = clone_sym(&mut m, &mut map, global, structs[i].sym, global, k);
            let sc = m.scope(None, "struct");
            let old_fields = structs[i].fields.clone();
            let fields = old_fields.iter().map(|f| clone_sym(&mut m, &mut map, global, *f, sc, k)).collect();
            let nested = structs[i].nested.map(|(f, target)| {
                let nf = clone_sym(&mut m, &mut map, global, f, sc, k);
                // the clone of the target struct: same position among the clones of this round
                let target_sym = map[structs[target].sym].unwrap();
                let ti = structs.iter().position(|x| x.sym == target_sym).unwrap();
                (nf, ti)
            });
            let is_union = structs[i].is_union;
            structs.push(StructPlan { sym, fields, nested, is_union, file: k, clone: true });
        }
        for i in 0..aliases.len() {
            if aliases[i].clone {
                continue;
            }
            let sym = clone_sym(&mut m, &mut map, global, aliases[i].sym, global, k);
            let mut a = aliases[i].clone();
            a.sym = sym;
            a.target_sym = a.target_sym.map(|t| map[t].unwrap());
            a.enum_idx = a.enum_idx.map(|_| enums.iter().position(|e| e.sym == map[enums[0].sym].unwrap()).unwrap());
            a.struct_idx = a.struct_idx.map(|si| structs.iter().position(|x| x.sym == map[structs[si].sym].unwrap()).unwrap());
            a.file = k;
            a.clone = true;
            aliases.push(a);
        }
        for i in 0..funcs.len() {
            if funcs[i].clone || funcs[i].shared {
                continue;
            }
            let sym = clone_sym(&mut m, &mut map, global, funcs[i].sym, global, k);
            let scope = m.scope(Some(global), "function");
            let (oi, ol) = (funcs[i].inputs.clone(), funcs[i].locals.clone());
            let inputs = oi.iter().map(|v| clone_sym(&mut m, &mut map, global, *v, scope, k)).collect();
            let locals = ol.iter().map(|v| clone_sym(&mut m, &mut map, global, *v, scope, k)).collect();
            funcs.push(FuncPlan { sym, scope, inputs, locals, ns: None, file: k, clone: true, shared: false });
        }
        for i in 0..fbs.len() {
            if fbs[i].clone {
                continue;
            }
            let sym = clone_sym(&mut m, &mut map, global, fbs[i].sym, global, k);
            let scope = m.scope(Some(global), "fb");
            let (oi, oo, ov) = (fbs[i].inputs.clone(), fbs[i].outputs.clone(), fbs[i].vars.clone());
            let inputs = oi.iter().map(|v| clone_sym(&mut m, &mut map, global, *v, scope, k)).collect();
            let outputs = oo.iter().map(|v| clone_sym(&mut m, &mut map, global, *v, scope, k)).collect();
            let vars = ov.iter().map(|v| clone_sym(&mut m, &mut map, global, *v, scope, k)).collect();
            let mut methods = Vec::new();
            for mi in 0..fbs[i].methods.len() {
                let (osym, oin, olo) = {
                    let me = &fbs[i].methods[mi];
                    (me.sym, me.inputs.clone(), me.locals.clone())
                };
                let msym = clone_sym(&mut m, &mut map, global, osym, scope, k);
                let mscope = m.scope(Some(scope), "method");
                let minputs = oin.iter().map(|v| clone_sym(&mut m, &mut map, global, *v, mscope, k)).collect();
                let mlocals = olo.iter().map(|v| clone_sym(&mut m, &mut map, global, *v, mscope, k)).collect();
                methods.push(MethodPlan { sym: msym, scope: mscope, inputs: minputs, locals: mlocals });
            }
            fbs.push(FbPlan { sym, scope, inputs, outputs, vars, methods, ns: None, file: k, clone: true });
        }
        clone_maps.push(map);
    }

    // configuration: globals live in the configuration scope (not visible from POUs)
    let has_conf = r.chance(3, 4);
    let conf_scope = m.scope(Some(global), "configuration");
    let mut globals = Vec::new();
    if has_conf {
        for _ in 0..1 + r.pick(3) {
            // VAR_GLOBAL names share the global name space with POUs and types
            globals.push(m.declare(r, global, VAR_POOL, "global_var"));
        }
    }

    let mut progs = Vec::new();
    let nprogs = if has_conf { 1 + r.weighted(&[3, 1]) } else { 1 };
    for _ in 0..nprogs {
        let sym = m.declare(r, global, TOP_POOL, "program");
        let scope = m.scope(Some(global), "program");
        let mut externals = Vec::new();
        for g in &globals {
            if r.chance(2, 3) && !m.has(scope, &m.syms[*g].name.clone()) {
                // the VAR_EXTERNAL redeclaration is the same variable as the global: the
                // model records it as an occurrence of the global symbol, and makes the
                // name resolve to it inside the program.
                let name = m.syms[*g].name.to_ascii_lowercase();
                m.scopes[scope].names.push((name, *g));
                externals.push(*g);
            }
        }
        let io = [
            m.declare(r, scope, VAR_POOL, "prog_input"),
            m.declare(r, scope, VAR_POOL, "prog_input"),
            m.declare(r, scope, VAR_POOL, "prog_input_bool"),
        ];
        let locals = (0..2 + r.pick(3)).map(|_| m.declare(r, scope, VAR_POOL, "prog_local")).collect();
        let mut fb_insts = Vec::new();
        for fi in 0..fbs.len() {
            for _ in 0..r.weighted(&[1, 4, 1]) {
                fb_insts.push((m.declare(r, scope, VAR_POOL, "fb_instance"), fi));
            }
        }
        let prog_file = r.pick(nfiles);
        let mut struct_vars = Vec::new();
        let mut arr_vars = Vec::new();
        let mut var_types = Vec::new();
        let mut int_alias_vars = Vec::new();
        for si in 0..structs.len() {
            if r.chance(2, 3) {
                let v = m.declare(r, scope, VAR_POOL, "struct_var");
                struct_vars.push((v, si));
                let names: Vec<usize> = aliases.iter().filter(|a| a.struct_idx == Some(si)).map(|a| a.sym).collect();
                let ty = if !names.is_empty() && r.chance(1, 2) { *r.choose(&names) } else { structs[si].sym };
                var_types.push((v, ty));
            }
            // arrays of a struct declared in another file are not analysed ("field access
            // requires struct"): only next to the type
            if !structs[si].is_union && structs[si].file == prog_file && r.chance(1, 3) {
                arr_vars.push((m.declare(r, scope, VAR_POOL, "struct_array_var"), si));
            }
        }
        let mut enum_vars = Vec::new();
        for ei in 0..enums.len() {
            for _ in 0..r.weighted(&[1, 3, 1]) {
                let v = m.declare(r, scope, VAR_POOL, "enum_var");
                enum_vars.push((v, ei));
                let names: Vec<usize> = aliases.iter().filter(|a| a.enum_idx == Some(ei)).map(|a| a.sym).collect();
                let ty = if !names.is_empty() && r.chance(1, 2) { *r.choose(&names) } else { enums[ei].sym };
                var_types.push((v, ty));
            }
        }
        for a in aliases.iter().filter(|a| a.is_int) {
            if r.chance(1, 2) {
                int_alias_vars.push((m.declare(r, scope, VAR_POOL, "int_alias_var"), a.sym));
            }
        }
        progs.push(ProgPlan {
            sym,
            scope,
            externals,
            io,
            locals,
            fb_insts,
            struct_vars,
            enum_vars,
            arr_vars,
            var_types,
            int_alias_vars,
            file: prog_file,
        });
    }

    let conf = if has_conf {
        let sym = m.declare_named(global, "Conf", "configuration");
        let res = m.declare_named(conf_scope, "Res", "resource");
        let res_scope = m.scope(Some(conf_scope), "resource");
        let task = m.declare_named(res_scope, "Tsk", "task");
        let mut insts = Vec::new();
        for (pi, _) in progs.iter().enumerate() {
            insts.push((m.declare_named(res_scope, &format!("Inst{pi}"), "program_instance"), pi));
        }
        Some(ConfPlan {
            sym,
            globals: globals.clone(),
            res,
            task,
            insts,
            file: r.pick(nfiles),
        })
    } else {
        None
    };

    // ---- emit -------------------------------------------------------------------
    let mut em = Em {
        files: vec![String::new(); nfiles],
        cur: 0,
        occs: Vec::new(),
        m: &m,
        case_variants,
        alias_literals: 0,
    };
    let g = Gen {
        funcs: &funcs,
        fbs: &fbs,
        structs: &structs,
    };

    // template-clone mode: starts of the items of the region of file 0
    let mut item_starts: Vec<usize> = Vec::new();

    // types: multi-declaration TYPE blocks (enum, structs/unions, aliases, fillers mixed)
    {
        #[derive(Clone, Copy)]
        enum Item {
            E(usize),
            S(usize),
            A(usize),
        }
        let mut items: Vec<Item> = Vec::new();
        items.extend((0..enums.len()).filter(|i| !enums[*i].clone).map(Item::E));
        items.extend((0..structs.len()).filter(|i| !structs[*i].clone).map(Item::S));
        items.extend((0..aliases.len()).filter(|i| !aliases[*i].clone).map(Item::A));
        let mut open = false;
        for (n, it) in items.iter().enumerate() {
            em.cur = types_file;
            if !open || r.chance(1, 3) {
                if open {
                    em.t("END_TYPE\n\n");
                }
                if clone_mode {
                    item_starts.push(em.files[0].len());
                }
                em.t("TYPE\n");
                open = true;
            }
            em.t("    ");
            match *it {
                Item::E(i) => {
                    let e = &enums[i];
                    em.decl(e.sym);
                    em.t(" : (");
                    for (j, v) in e.values.iter().enumerate() {
                        if j > 0 {
                            em.t(", ");
                        }
                        em.decl(*v);
                    }
                    em.t(");\n");
                }
                Item::S(i) => {
                    let st = &structs[i];
                    em.decl(st.sym);
                    em.t(if st.is_union { " : UNION\n" } else { " : STRUCT\n" });
                    for f in &st.fields {
                        em.t("        ");
                        em.decl(*f);
                        em.t(" : INT;\n");
                    }
                    if let Some((nf, target)) = st.nested {
                        em.t("        ");
                        em.decl(nf);
                        em.t(" : ");
                        em.id(r, structs[target].sym, "type_ref");
                        em.t(";\n");
                    }
                    em.t(if st.is_union { "    END_UNION;\n" } else { "    END_STRUCT;\n" });
                }
                Item::A(i) => {
                    let a = &aliases[i];
                    em.decl(a.sym);
                    em.t(" : ");
                    match a.target_sym {
                        Some(t) => em.id(r, t, "type_ref"),
                        None => em.t(&a.target_text),
                    }
                    em.t(";\n");
                }
            }
            if n + 1 == items.len() {
                em.t("END_TYPE\n\n");
            }
        }
    }

    // functions (function i may call functions j < i that are visible and not namespaced
    // differently)
    let emit_function = |em: &mut Em, r: &mut Reader, fi: usize| {
        let f = &funcs[fi];
        em.cur = f.file;
        if let Some(ns) = f.ns {
            em.t("NAMESPACE ");
            em.id(r, ns, "ns_decl");
            em.t("\n");
        }
        em.t("FUNCTION ");
        em.decl(f.sym);
        em.t(" : INT\n");
        var_block(em, "VAR_INPUT", &f.inputs, "INT");
        var_block(em, "VAR", &f.locals, "INT");
        let mut env = Env {
            scope: f.scope,
            ..Env::default()
        };
        env.vars = f.inputs.iter().chain(&f.locals).copied().filter(|v| m.visible(f.scope, *v)).collect();
        env.funcs = (0..fi)
            .filter(|j| {
                let o = &funcs[*j];
                match o.ns {
                    None => m.visible(f.scope, o.sym),
                    Some(_) => false,
                }
            })
            .collect();
        for l in &f.locals {
            g.assign(em, r, &env, *l, "    ");
        }
        // the result variable: only if the function's own name is not shadowed inside
        em.t("    ");
        em.id(r, f.sym, "result_var");
        em.t(" := ");
        g.expr(em, r, &env, 0);
        em.t(";\nEND_FUNCTION\n");
        if f.ns.is_some() {
            em.t("END_NAMESPACE\n");
        }
        em.t("\n");
    };

    for fi in 0..funcs.len() {
        let f = &funcs[fi];
        if f.clone || (clone_mode && f.shared) {
            continue;
        }
        if clone_mode {
            item_starts.push(em.files[0].len());
        }
        emit_function(&mut em, r, fi);
    }

    // function blocks
    for fb in fbs.iter() {
        if fb.clone {
            continue;
        }
        em.cur = fb.file;
        if clone_mode {
            item_starts.push(em.files[0].len());
        }
        if let Some(ns) = fb.ns {
            em.t("NAMESPACE ");
            em.id(r, ns, "ns_decl");
            em.t("\n");
        }
        em.t("FUNCTION_BLOCK ");
        em.decl(fb.sym);
        em.t("\n");
        var_block(&mut em, "VAR_INPUT", &fb.inputs, "INT");
        var_block(&mut em, "VAR_OUTPUT", &fb.outputs, "INT");
        var_block(&mut em, "VAR", &fb.vars, "INT");
        let callable: Vec<usize> = (0..funcs.len()).filter(|j| funcs[*j].ns.is_none()).collect();
        for me in &fb.methods {
            em.t("METHOD PUBLIC ");
            em.decl(me.sym);
            em.t(" : INT\n");
            var_block(&mut em, "VAR_INPUT", &me.inputs, "INT");
            var_block(&mut em, "VAR", &me.locals, "INT");
            let mut env = Env {
                scope: me.scope,
                ..Env::default()
            };
            env.vars = me
                .inputs
                .iter()
                .chain(&me.locals)
                .chain(&fb.inputs)
                .chain(&fb.outputs)
                .chain(&fb.vars)
                .copied()
                .filter(|v| m.visible(me.scope, *v))
                .collect();
            env.funcs = callable.iter().copied().filter(|j| m.visible(me.scope, funcs[*j].sym)).collect();
            for l in &me.locals {
                g.assign(&mut em, r, &env, *l, "    ");
            }
            let state: Vec<usize> =
                fb.vars.iter().chain(&fb.outputs).copied().filter(|v| m.visible(me.scope, *v)).collect();
            if !state.is_empty() && r.chance(2, 3) {
                let tgt = *r.choose(&state);
                g.assign(&mut em, r, &env, tgt, "    ");
            }
            em.t("    ");
            em.id(r, me.sym, "result_var");
            em.t(" := ");
            g.expr(&mut em, r, &env, 0);
            em.t(";\nEND_METHOD\n");
        }
        let mut env = Env {
            scope: fb.scope,
            ..Env::default()
        };
        env.vars = fb.inputs.iter().chain(&fb.outputs).chain(&fb.vars).copied().filter(|v| m.visible(fb.scope, *v)).collect();
        env.funcs = callable.iter().copied().filter(|j| m.visible(fb.scope, funcs[*j].sym)).collect();
        for v in fb.outputs.iter().chain(&fb.vars) {
            if m.visible(fb.scope, *v) {
                g.assign(&mut em, r, &env, *v, "    ");
            }
        }
        em.t("END_FUNCTION_BLOCK\n");
        if fb.ns.is_some() {
            em.t("END_NAMESPACE\n");
        }
        em.t("\n");
    }

    // template clones: files 1.. start with the region of file 0, top-level names replaced
    // by their equal-length clones; every other byte (and offset) is the same
    let mut clone_padded = false;
    if clone_mode {
        let region_text = em.files[0].clone();
        let mut region_occs: Vec<Occ> = em.occs.clone();
        region_occs.sort_by_key(|o| o.start);
        for (ki, map) in clone_maps.iter().enumerate() {
            let k = ki + 1;
            // optional padding comment in front of one item: offsets behind it shift
            let pad_at = if !item_starts.is_empty() && r.chance(1, 3) {
                clone_padded = true;
                Some(item_starts[r.pick(item_starts.len())])
            } else {
                None
            };
            const PAD: &str = "(* template copy *)\n";
            let mut text = String::with_capacity(region_text.len() + PAD.len());
            let mut pos = 0usize;
            let mut padded = false;
            let mut new_occs: Vec<Occ> = Vec::new();
            let push_plain = |text: &mut String, from: usize, to: usize, padded: &mut bool| {
                if let Some(at) = pad_at {
                    if !*padded && from <= at && at <= to {
                        text.push_str(&region_text[from..at]);
                        text.push_str(PAD);
                        text.push_str(&region_text[at..to]);
                        *padded = true;
                        return;
                    }
                }
                text.push_str(&region_text[from..to]);
            };
            for o in &region_occs {
                push_plain(&mut text, pos, o.start, &mut padded);
                let old_name = &m.syms[o.sym].name;
                let spelled = &region_text[o.start..o.end];
                let new_sym = map.get(o.sym).copied().flatten().unwrap_or(o.sym);
                let new_name = &m.syms[new_sym].name;
                let out = if spelled == old_name {
                    new_name.clone()
                } else if *spelled == old_name.to_ascii_uppercase() {
                    new_name.to_ascii_uppercase()
                } else {
                    new_name.to_ascii_lowercase()
                };
                let start = text.len();
                text.push_str(&out);
                new_occs.push(Occ { file: k, start, end: start + out.len(), sym: new_sym, role: o.role.clone() });
                pos = o.end;
            }
            push_plain(&mut text, pos, region_text.len(), &mut padded);
            em.files[k] = text;
            em.occs.extend(new_occs);
        }
        // shared functions: declared once, behind the region of file 0
        for fi in 0..funcs.len() {
            if funcs[fi].shared && !funcs[fi].clone {
                emit_function(&mut em, r, fi);
            }
        }
    }

    // configuration
    if let Some(c) = &conf {
        em.cur = c.file;
        em.t("CONFIGURATION ");
        em.decl(c.sym);
        em.t("\nVAR_GLOBAL\n");
        for gv in &c.globals {
            em.t("    ");
            em.decl(*gv);
            em.t(&format!(" : INT := INT#{};\n", r.pick(10)));
        }
        em.t("END_VAR\nRESOURCE ");
        em.decl(c.res);
        em.t(" ON PLC\n    TASK ");
        em.decl(c.task);
        em.t(" (INTERVAL := T#10ms, PRIORITY := 1);\n");
        for (inst, pi) in &c.insts {
            em.t("    PROGRAM ");
            em.decl(*inst);
            em.t(" WITH ");
            em.id(r, c.task, "task_ref");
            em.t(" : ");
            em.id(r, progs[*pi].sym, "program_type_ref");
            em.t(";\n");
        }
        em.t("END_RESOURCE\nEND_CONFIGURATION\n\n");
    }

    // programs
    for p in &progs {
        em.cur = p.file;
        em.t("PROGRAM ");
        em.decl(p.sym);
        em.t("\n");
        if !p.externals.is_empty() {
            em.t("VAR_EXTERNAL\n");
            for e in &p.externals {
                em.t("    ");
                em.id(r, *e, "external_decl");
                em.t(" : INT;\n");
            }
            em.t("END_VAR\n");
        }
        em.t("VAR\n    ");
        em.decl(p.io[0]);
        em.t(" AT %IW0 : INT;\n    ");
        em.decl(p.io[1]);
        em.t(" AT %IW2 : INT;\n    ");
        em.decl(p.io[2]);
        em.t(" AT %IX4.0 : BOOL;\n");
        for l in &p.locals {
            em.t("    ");
            em.decl(*l);
            em.t(" : INT;\n");
        }
        for (inst, fi) in &p.fb_insts {
            let fb = &fbs[*fi];
            em.t("    ");
            em.decl(*inst);
            em.t(" : ");
            if let Some(ns) = fb.ns {
                em.id(r, ns, "nsqual");
                em.t(".");
                em.id(r, fb.sym, "ns_type_ref");
            } else {
                em.id(r, fb.sym, "type_ref");
            }
            em.t(";\n");
        }
        for (v, _) in p.struct_vars.iter().chain(&p.enum_vars) {
            let ty = p.var_types.iter().find(|(x, _)| x == v).map(|(_, t)| *t).unwrap();
            em.t("    ");
            em.decl(*v);
            em.t(" : ");
            em.id(r, ty, "type_ref");
            em.t(";\n");
        }
        for (av, si) in &p.arr_vars {
            em.t("    ");
            em.decl(*av);
            em.t(" : ARRAY[0..2] OF ");
            em.id(r, structs[*si].sym, "type_ref");
            em.t(";\n");
        }
        for (iv, ty) in &p.int_alias_vars {
            em.t("    ");
            em.decl(*iv);
            em.t(" : ");
            em.id(r, *ty, "type_ref");
            em.t(";\n");
        }
        em.t("END_VAR\n");

        let mut env = Env {
            scope: p.scope,
            ..Env::default()
        };
        env.vars = p
            .externals
            .iter()
            .chain(&p.io[..2])
            .chain(&p.locals)
            .copied()
            .filter(|v| m.visible(p.scope, *v))
            .collect();
        env.funcs = (0..funcs.len())
            .filter(|j| {
                let f = &funcs[*j];
                match f.ns {
                    None => m.visible(p.scope, f.sym),
                    Some(ns) => m.visible(p.scope, ns),
                }
            })
            .collect();
        env.insts = p
            .fb_insts
            .iter()
            .copied()
            .filter(|(i, _)| m.visible(p.scope, *i))
            .collect();
        env.svars = p.struct_vars.iter().copied().filter(|(s, _)| m.visible(p.scope, *s)).collect();
        env.avars = p.arr_vars.iter().copied().filter(|(s, _)| m.visible(p.scope, *s)).collect();
        // variables of an alias of INT are ordinary INT variables
        let int_alias: Vec<usize> =
            p.int_alias_vars.iter().map(|(v, _)| *v).filter(|v| m.visible(p.scope, *v)).collect();
        env.vars.extend(int_alias.iter().copied());
        let writable: Vec<usize> = p
            .externals
            .iter()
            .chain(&p.locals)
            .copied()
            .filter(|v| m.visible(p.scope, *v))
            .chain(int_alias.iter().copied())
            .collect();
        let evars: Vec<(usize, usize)> = p.enum_vars.iter().copied().filter(|(e, _)| m.visible(p.scope, *e)).collect();
        let bool_in = p.io[2];

        let nstmts = 3 + r.pick(7);
        for _ in 0..nstmts {
            let w_inst = if env.insts.is_empty() { 0 } else { 3 };
            let w_fld = if env.svars.is_empty() { 0 } else { 2 };
            let w_enum = if evars.is_empty() { 0 } else { 2 };
            let w_asg = if writable.is_empty() { 0 } else { 6 };
            match r.weighted(&[w_asg, w_inst, w_fld, w_enum, if writable.is_empty() { 0 } else { 2 }]) {
                0 => {
                    if writable.is_empty() {
                        continue;
                    }
                    let tgt = *r.choose(&writable);
                    g.assign(&mut em, r, &env, tgt, "    ");
                }
                1 => {
                    let (inst, fi) = *r.choose(&env.insts);
                    let fb = &fbs[fi];
                    let preset = false;
                    em.t("    ");
                    em.id(r, inst, "call");
                    em.t("(");
                    let mut first = true;
                    if !preset {
                        for i in &fb.inputs {
                            if r.chance(1, 3) {
                                continue;
                            }
                            if !first {
                                em.t(", ");
                            }
                            first = false;
                            em.id(r, *i, "named_arg");
                            em.t(" := ");
                            g.expr(&mut em, r, &env, 1);
                        }
                        if !writable.is_empty() && r.chance(1, 3) {
                            let o = *r.choose(&fb.outputs);
                            let tgt = *r.choose(&writable);
                            if !first {
                                em.t(", ");
                            }
                            em.id(r, o, "named_arg");
                            em.t(" => ");
                            em.id(r, tgt, "use");
                        }
                    }
                    em.t(");\n");
                }
                2 => {
                    let (sv, si) = *r.choose(&env.svars);
                    let fld = *r.choose(&structs[si].fields);
                    em.t("    ");
                    em.id(r, sv, "use");
                    em.t(".");
                    em.id(r, fld, "field");
                    em.t(" := ");
                    g.expr(&mut em, r, &env, 0);
                    em.t(";\n");
                }
                3 => {
                    let (ev, ei) = *r.choose(&evars);
                    let e = &enums[ei];
                    let quals: Vec<usize> = std::iter::once(e.sym)
                        .chain(aliases.iter().filter(|a| a.enum_idx == Some(ei)).map(|a| a.sym))
                        .collect();
                    let v1 = *r.choose(&e.values);
                    let v2 = *r.choose(&e.values);
                    em.t("    IF ");
                    if m.visible(p.scope, bool_in) && r.flag() {
                        em.id(r, bool_in, "use");
                    } else {
                        em.id(r, ev, "use");
                        em.t(" = ");
                    {
                            let q = *r.choose(&quals);
                            if q == e.sym {
                                em.id(r, q, "enum_qual");
                            } else {
                                em.alias_literals += 1;
                                em.id(r, q, "alias_qual");
                            }
                        }
                        em.t("#");
                        em.id(r, v1, "enum_lit");
                    }
                    em.t(" THEN\n        ");
                    em.id(r, ev, "use");
                    em.t(" := ");
                    {
                        let q = *r.choose(&quals);
                        if q == e.sym {
                            em.id(r, q, "enum_qual");
                        } else {
                            em.alias_literals += 1;
                            em.id(r, q, "alias_qual");
                        }
                    }
                    em.t("#");
                    em.id(r, v2, "enum_lit");
                    em.t(";\n");
                    if !writable.is_empty() && r.flag() {
                        let tgt = *r.choose(&writable);
                        g.assign(&mut em, r, &env, tgt, "        ");
                    }
                    em.t("    END_IF;\n");
                }
                _ => {
                    let tgt = *r.choose(&writable);
                    em.t("    IF ");
                    g.expr(&mut em, r, &env, 1);
                    em.t(if r.flag() { " > " } else { " <= " });
                    g.expr(&mut em, r, &env, 1);
                    em.t(" THEN\n");
                    g.assign(&mut em, r, &env, tgt, "        ");
                    if r.flag() {
                        em.t("    ELSE\n");
                        let tgt2 = *r.choose(&writable);
                        g.assign(&mut em, r, &env, tgt2, "        ");
                    }
                    em.t("    END_IF;\n");
                }
            }
        }
        em.t("END_PROGRAM\n\n");
    }

    // dummy declarations at the END of the files: they vary the sizes of the symbol tables
    // (hash orders) without moving anything else
    let mut dummy_decls = 0usize;
    if clone_mode || r.chance(1, 6) {
        for f in 0..nfiles {
            let n = r.pick(41);
            if n == 0 {
                continue;
            }
            dummy_decls += n;
            em.cur = f;
            em.t(&format!("FUNCTION_BLOCK Dmy{f}\nVAR\n"));
            for i in 0..n {
                em.t(&format!("    pad{i} : INT;\n"));
            }
            em.t("END_VAR\nEND_FUNCTION_BLOCK\n");
        }
    }

    let alias_literals = em.alias_literals;
    let Em { files, occs, .. } = em;
    Project {
        files,
        avoided_instance_names: m.avoided_instance_names,
        avoided_ns_functions: m.avoided_ns_functions,
        ns_functions: m.ns_functions,
        fb_scopes: fbs.iter().map(|f| (f.scope, f.sym)).collect(),
        clone_mode,
        clone_padded,
        dummy_decls,
        alias_literals,
        syms: m.syms,
        scopes: m.scopes,
        occs,
        case_variants,
    }
}

impl Project {
    /// Model resolution of `name` from `scope` upwards.
    pub fn resolve(&self, scope: usize, name: &str) -> Option<usize> {
        let mut cur = Some(scope);
        while let Some(s) = cur {
            if let Some((_, id)) = self.scopes[s].names.iter().find(|(n, _)| n.eq_ignore_ascii_case(name)) {
                return Some(*id);
            }
            cur = self.scopes[s].parent;
        }
        None
    }

    pub fn ancestors(&self, scope: usize) -> Vec<usize> {
        let mut out = Vec::new();
        let mut cur = self.scopes[scope].parent;
        while let Some(s) = cur {
            out.push(s);
            cur = self.scopes[s].parent;
        }
        out
    }

    pub fn descendants(&self, scope: usize) -> Vec<usize> {
        (0..self.scopes.len()).filter(|s| self.ancestors(*s).contains(&scope)).collect()
    }
}

pub const FRESH: &[&str] = &["zz9", "fresh_1", "Qq", "newName", "w_2"];
pub const KEYWORDS: &[&str] = &["IF", "int", "VAR", "END_VAR", "TRUE", "Program", "MOD", "EN", "TOD", "RETURN", "AT"];
pub const INVALID: &[&str] = &["1x", "a-b", "", "a b", "x__y", "y_", "\u{e9}t\u{e9}", "a.b", "x;", "_", "(*c*)", "INT#5"];
pub const STDFN: &[&str] = &["ABS", "MAX", "MIN", "LIMIT", "abs", "Max", "LEN", "TON", "SEL", "CTU", "INT_TO_DINT", "R_TRIG", "MOVE"];
