//! C16 oracle plumbing: analysis with a fresh Database, rename, edit application,
//! execution + state dump, comparison modulo the renamed name.

use std::collections::BTreeMap;

use text_size::TextSize;
use trust_hir::db::{Database, FileId, SemanticDatabase, SourceDatabase};
use trust_hir::diagnostics::DiagnosticSeverity;
use trust_runtime::harness::TestHarness;
use trust_runtime::memory::InstanceId;
use trust_runtime::value::Value;
use trust_syntax::lexer::{lex, TokenKind};

/// One text edit (byte offsets into the file it belongs to).
#[derive(Clone, Debug, PartialEq, Eq, PartialOrd, Ord)]
pub struct Edit {
    pub start: usize,
    pub end: usize,
    pub text: String,
}

pub fn fresh_db(files: &[String]) -> Database {
    let mut db = Database::new();
    for (i, f) in files.iter().enumerate() {
        db.set_source_text(FileId(i as u32), f.clone());
    }
    db
}

/// A diagnostic reduced to what the comparison needs.
#[derive(Clone, Debug, PartialEq, Eq)]
pub struct Diag {
    pub file: usize,
    pub severity: String,
    pub code: String,
    pub start: usize,
    pub end: usize,
    pub message: String,
}

pub fn diagnostics(files: &[String]) -> Vec<Diag> {
    let db = fresh_db(files);
    let mut out = Vec::new();
    for i in 0..files.len() {
        for d in db.diagnostics(FileId(i as u32)).iter() {
            out.push(Diag {
                file: i,
                severity: match d.severity {
                    DiagnosticSeverity::Error => "error",
                    DiagnosticSeverity::Warning => "warning",
                    DiagnosticSeverity::Info => "info",
                    DiagnosticSeverity::Hint => "hint",
                }
                .to_string(),
                code: format!("{:?}", d.code),
                start: usize::from(d.range.start()),
                end: usize::from(d.range.end()),
                message: d.message.clone(),
            });
        }
    }
    out
}

pub fn has_errors(diags: &[Diag]) -> bool {
    diags.iter().any(|d| d.severity == "error")
}

/// Identifier tokens of a text: (start, end). `Ident` tokens only; the name part of a
/// typed-literal prefix (`Color#`) is reported separately by `prefix_tokens`.
pub fn ident_tokens(text: &str) -> Vec<(usize, usize)> {
    lex(text)
        .into_iter()
        .filter(|t| t.kind == TokenKind::Ident)
        .map(|t| (usize::from(t.range.start()), usize::from(t.range.end())))
        .collect()
}

/// Name parts of typed-literal prefixes (`Color#Red` -> range of `Color`).
pub fn prefix_tokens(text: &str) -> Vec<(usize, usize)> {
    lex(text)
        .into_iter()
        .filter(|t| t.kind == TokenKind::TypedLiteralPrefix)
        .map(|t| (usize::from(t.range.start()), usize::from(t.range.end()) - 1))
        .filter(|(s, e)| e > s)
        .collect()
}

/// Call rename on a fresh database. Edits come back grouped by file index, in the order
/// the implementation produced them (not sorted, not deduplicated).
pub fn do_rename(
    files: &[String],
    file: usize,
    offset: usize,
    new_name: &str,
) -> Option<BTreeMap<usize, Vec<Edit>>> {
    let db = fresh_db(files);
    let res = trust_ide::rename::rename(&db, FileId(file as u32), TextSize::from(offset as u32), new_name)?;
    let mut out: BTreeMap<usize, Vec<Edit>> = BTreeMap::new();
    for (fid, edits) in res.edits {
        let v = out.entry(fid.0 as usize).or_default();
        for e in edits {
            v.push(Edit {
                start: usize::from(e.range.start()),
                end: usize::from(e.range.end()),
                text: e.new_text,
            });
        }
    }
    Some(out)
}

/// Well-formedness of an edit set against the property text: in bounds, on char
/// boundaries, pairwise disjoint, each replacing exactly one identifier token that equals
/// the old name ignoring ASCII case, by the new name.
pub fn check_edits(
    files: &[String],
    edits: &BTreeMap<usize, Vec<Edit>>,
    old_name: &str,
    new_name: &str,
) -> Result<(), String> {
    for (fi, list) in edits {
        let Some(text) = files.get(*fi) else {
            return Err(format!("edits for file id {fi}, the project has {} files", files.len()));
        };
        let mut idents = ident_tokens(text);
        idents.extend(prefix_tokens(text));
        let mut sorted: Vec<&Edit> = list.iter().collect();
        sorted.sort();
        for e in &sorted {
            if e.start > e.end || e.end > text.len() {
                return Err(format!(
                    "edit {}..{} in file {fi} is outside 0..{}",
                    e.start,
                    e.end,
                    text.len()
                ));
            }
            if !text.is_char_boundary(e.start) || !text.is_char_boundary(e.end) {
                return Err(format!("edit {}..{} in file {fi} is not on char boundaries", e.start, e.end));
            }
            let slice = &text[e.start..e.end];
            if !idents.contains(&(e.start, e.end)) {
                return Err(format!(
                    "edit {}..{} in file {fi} replaces {:?}, which is not exactly one identifier token",
                    e.start, e.end, slice
                ));
            }
            if !slice.eq_ignore_ascii_case(old_name) {
                return Err(format!(
                    "edit {}..{} in file {fi} replaces identifier {:?}, which is not the renamed name {:?}",
                    e.start, e.end, slice, old_name
                ));
            }
            if e.text != new_name {
                return Err(format!(
                    "edit {}..{} in file {fi} inserts {:?}, not the new name {:?}",
                    e.start, e.end, e.text, new_name
                ));
            }
        }
        for w in sorted.windows(2) {
            if w[0].end > w[1].start || (w[0].start == w[1].start) {
                return Err(format!(
                    "edits {}..{} and {}..{} in file {fi} overlap (the same occurrence is edited twice)",
                    w[0].start, w[0].end, w[1].start, w[1].end
                ));
            }
        }
    }
    Ok(())
}

/// Apply (already checked) edits; returns the new files and, for the offset `at` in file
/// `at_file`, the shifted offset.
pub fn apply_edits(
    files: &[String],
    edits: &BTreeMap<usize, Vec<Edit>>,
    at_file: usize,
    at: usize,
) -> (Vec<String>, usize) {
    let mut out = files.to_vec();
    let mut shifted = at;
    for (fi, list) in edits {
        let mut sorted: Vec<&Edit> = list.iter().collect();
        sorted.sort();
        let text = &files[*fi];
        let mut s = String::with_capacity(text.len() + 16);
        let mut pos = 0usize;
        let mut delta: isize = 0;
        let mut my_delta: isize = 0;
        for e in sorted {
            s.push_str(&text[pos..e.start]);
            s.push_str(&e.text);
            pos = e.end;
            if *fi == at_file && e.start <= at {
                if e.end <= at {
                    my_delta = delta + e.text.len() as isize - (e.end - e.start) as isize;
                } else {
                    // the occurrence itself: keep the relative position inside it if possible
                    let inner = (at - e.start).min(e.text.len().saturating_sub(1));
                    my_delta = delta + inner as isize - (at - e.start) as isize;
                }
            }
            delta += e.text.len() as isize - (e.end - e.start) as isize;
        }
        s.push_str(&text[pos..]);
        if *fi == at_file {
            shifted = (at as isize + my_delta) as usize;
        }
        out[*fi] = s;
    }
    (out, shifted)
}

/// One token of a state dump: names may differ by the renaming, values may not.
#[derive(Clone, Debug, PartialEq)]
pub enum Tok {
    Name(String),
    Val(String),
}

fn dump_value(rt: &trust_runtime::Runtime, v: &Value, out: &mut Vec<Tok>, depth: usize) {
    if depth > 12 {
        out.push(Tok::Val("<deep>".into()));
        return;
    }
    match v {
        Value::Instance(id) => dump_instance(rt, *id, out, depth + 1),
        Value::Struct(s) => {
            out.push(Tok::Val("struct".into()));
            out.push(Tok::Name(s.type_name.to_string()));
            out.push(Tok::Val("{".into()));
            for (k, v) in &s.fields {
                out.push(Tok::Name(k.to_string()));
                dump_value(rt, v, out, depth + 1);
            }
            out.push(Tok::Val("}".into()));
        }
        Value::Enum(e) => {
            out.push(Tok::Val("enum".into()));
            out.push(Tok::Name(e.type_name.to_string()));
            out.push(Tok::Name(e.variant_name.to_string()));
            out.push(Tok::Val(e.numeric_value.to_string()));
        }
        Value::Array(a) => {
            out.push(Tok::Val(format!("array{:?}[", a.dimensions)));
            for el in &a.elements {
                dump_value(rt, el, out, depth + 1);
            }
            out.push(Tok::Val("]".into()));
        }
        Value::Reference(r) => {
            out.push(Tok::Val(if r.is_some() { "ref" } else { "nullref" }.into()));
        }
        other => out.push(Tok::Val(format!("{other:?}"))),
    }
}

fn dump_instance(rt: &trust_runtime::Runtime, id: InstanceId, out: &mut Vec<Tok>, depth: usize) {
    match rt.storage().get_instance(id) {
        Some(inst) => {
            out.push(Tok::Val("instance".into()));
            out.push(Tok::Name(inst.type_name.to_string()));
            out.push(Tok::Val("{".into()));
            for (k, v) in &inst.variables {
                out.push(Tok::Name(k.to_string()));
                dump_value(rt, v, out, depth + 1);
            }
            out.push(Tok::Val("}".into()));
        }
        None => out.push(Tok::Val("<dangling instance>".into())),
    }
}

pub fn dump_state(rt: &trust_runtime::Runtime) -> Vec<Tok> {
    let mut out = Vec::new();
    for (k, v) in rt.storage().globals() {
        out.push(Tok::Name(k.to_string()));
        dump_value(rt, v, &mut out, 0);
    }
    out
}

/// Input trace: per cycle the values written to %IW0, %IW2 (INT) and %IX4.0 (BOOL).
pub type Trace = Vec<(i16, i16, bool)>;

/// Result of executing a project over a trace.
#[derive(Clone, Debug, PartialEq)]
pub struct Run {
    /// state after initialisation and after every cycle
    pub states: Vec<Vec<Tok>>,
    /// per cycle: the errors of the cycle (Debug-rendered, names inside are not mapped)
    pub errors: Vec<Vec<String>>,
}

pub fn execute(files: &[String], trace: &Trace) -> Result<Run, String> {
    let refs: Vec<&str> = files.iter().map(|s| s.as_str()).collect();
    let mut h = TestHarness::from_sources(&refs).map_err(|e| format!("{e}"))?;
    let mut run = Run {
        states: vec![dump_state(h.runtime())],
        errors: Vec::new(),
    };
    for (a, b, c) in trace {
        let _ = h.set_direct_input("%IW0", Value::Word(*a as u16));
        let _ = h.set_direct_input("%IW2", Value::Word(*b as u16));
        let _ = h.set_direct_input("%IX4.0", Value::Bool(*c));
        h.advance_time(trust_runtime::value::Duration::from_millis(10));
        let r = h.cycle();
        run.errors.push(r.errors.iter().map(|e| format!("{e:?}")).collect());
        run.states.push(dump_state(h.runtime()));
        if !r.errors.is_empty() {
            // the resource is faulted; further cycles add nothing
            break;
        }
    }
    Ok(run)
}

fn name_matches(a: &str, b: &str, old: &str, new: &str) -> bool {
    // qualified type names (`Lib.Cnt`) contain the renamed name as a component
    if a == b || (a.eq_ignore_ascii_case(old) && b == new) {
        return true;
    }
    let pa: Vec<&str> = a.split('.').collect();
    let pb: Vec<&str> = b.split('.').collect();
    pa.len() == pb.len()
        && pa.iter().zip(&pb).all(|(x, y)| x == y || (x.eq_ignore_ascii_case(old) && *y == new))
}

/// Replace whole-word (identifier-boundary) case-insensitive occurrences of `old` by `new`.
pub fn replace_word(text: &str, old: &str, new: &str) -> String {
    if old.is_empty() {
        return text.to_string();
    }
    let bytes = text.as_bytes();
    let is_word = |b: u8| b.is_ascii_alphanumeric() || b == b'_';
    let mut out = String::with_capacity(text.len());
    let mut i = 0;
    while i < text.len() {
        if i + old.len() <= text.len()
            && text.is_char_boundary(i)
            && text.is_char_boundary(i + old.len())
            && text[i..i + old.len()].eq_ignore_ascii_case(old)
            && (i == 0 || !is_word(bytes[i - 1]))
            && (i + old.len() == text.len() || !is_word(bytes[i + old.len()]))
        {
            out.push_str(new);
            i += old.len();
        } else {
            let ch = text[i..].chars().next().unwrap();
            out.push(ch);
            i += ch.len_utf8();
        }
    }
    out
}

/// Compare two runs modulo the renaming old -> new. Values must be equal; a name may
/// differ only by being the old name on the left and the new name on the right.
pub fn compare_runs(a: &Run, b: &Run, old: &str, new: &str) -> Result<(), String> {
    if a.errors.len() != b.errors.len() {
        return Err(format!(
            "original ran {} cycle(s) (errors {:?}), renamed project ran {} cycle(s) (errors {:?})",
            a.errors.len(),
            a.errors.last(),
            b.errors.len(),
            b.errors.last()
        ));
    }
    for (i, (ea, eb)) in a.errors.iter().zip(&b.errors).enumerate() {
        let ok = ea.len() == eb.len()
            && ea
                .iter()
                .zip(eb)
                .all(|(x, y)| x == y || replace_word(x, old, new) == *y);
        if !ok {
            return Err(format!("cycle {}: original errors {:?}, renamed project errors {:?}", i + 1, ea, eb));
        }
    }
    for (i, (sa, sb)) in a.states.iter().zip(&b.states).enumerate() {
        let at = if i == 0 { "after initialisation".to_string() } else { format!("after cycle {i}") };
        if sa.len() != sb.len() {
            return Err(format!(
                "state {at} has a different shape: {} vs {} dump tokens",
                sa.len(),
                sb.len()
            ));
        }
        let mut last_name = String::new();
        for (ta, tb) in sa.iter().zip(sb) {
            match (ta, tb) {
                (Tok::Name(x), Tok::Name(y)) => {
                    if !name_matches(x, y, old, new) {
                        return Err(format!("state {at}: name {x:?} became {y:?} (renaming {old:?} -> {new:?})"));
                    }
                    last_name = x.clone();
                }
                (Tok::Val(x), Tok::Val(y)) => {
                    if x != y {
                        return Err(format!(
                            "state {at}: value at/after name {last_name:?} is {x} in the original and {y} in the renamed project"
                        ));
                    }
                }
                _ => {
                    return Err(format!("state {at}: dump shapes differ near name {last_name:?}"));
                }
            }
        }
    }
    Ok(())
}

/// Diagnostics of the renamed project must equal the original's up to the renamed text:
/// same file, severity, code; range shifted consistently (checked by token index rather
/// than bytes: we compare the identifier-token index of the range start), message equal
/// after substituting the name.
pub fn compare_diags(
    files_a: &[String],
    a: &[Diag],
    files_b: &[String],
    b: &[Diag],
    old: &str,
    new: &str,
) -> Result<(), String> {
    let tok_index = |files: &[String], d: &Diag| -> (usize, usize) {
        let toks = lex(&files[d.file]);
        let nontrivia: Vec<_> = toks.iter().filter(|t| !t.kind.is_trivia()).collect();
        let s = nontrivia.iter().filter(|t| usize::from(t.range.end()) <= d.start).count();
        let e = nontrivia.iter().filter(|t| usize::from(t.range.end()) <= d.end).count();
        (s, e)
    };
    let render = |files: &[String], d: &Diag| -> (usize, String, String, (usize, usize)) {
        (d.file, d.severity.clone(), d.code.clone(), tok_index(files, d))
    };
    let mut ka: Vec<_> = a.iter().map(|d| (render(files_a, d), d.message.clone())).collect();
    let mut kb: Vec<_> = b.iter().map(|d| (render(files_b, d), d.message.clone())).collect();
    ka.sort();
    kb.sort();
    if ka.len() != kb.len() {
        let extra: Vec<String> = b
            .iter()
            .filter(|d| !a.iter().any(|x| x.code == d.code && x.file == d.file && (x.message == d.message || replace_word(&x.message, old, new) == d.message)))
            .map(|d| format!("file {} {} {} {:?}", d.file, d.severity, d.code, d.message))
            .collect();
        let missing: Vec<String> = a
            .iter()
            .filter(|d| !b.iter().any(|x| x.code == d.code && x.file == d.file && (x.message == d.message || replace_word(&d.message, old, new) == x.message)))
            .map(|d| format!("file {} {} {} {:?}", d.file, d.severity, d.code, d.message))
            .collect();
        return Err(format!(
            "diagnostics differ after the rename: {} before, {} after; new: {:?}; gone: {:?}",
            ka.len(),
            kb.len(),
            extra,
            missing
        ));
    }
    for ((xa, ma), (xb, mb)) in ka.iter().zip(&kb) {
        if xa != xb {
            return Err(format!("diagnostics differ after the rename: {xa:?} {ma:?} vs {xb:?} {mb:?}"));
        }
        if ma != mb && replace_word(ma, old, new) != *mb {
            return Err(format!(
                "diagnostic message differs beyond the renamed name: {ma:?} vs {mb:?} ({:?})",
                xa
            ));
        }
    }
    Ok(())
}
