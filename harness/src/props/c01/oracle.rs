//! C01 oracle: compile a source text with the real toolchain, drive 1-6 cycles and judge
//! every cycle exactly by the property statement.
//!
//! Mapping of EVERY `RuntimeError` variant to a class (exhaustive `match`, no wildcard: a new
//! variant in /repo breaks the build of this check until it is classified):
//!
//! * value-dependent (an accepted program may raise them): DivisionByZero, ModuloByZero,
//!   Overflow, IndexOutOfBounds, NullReference, ForStepZero, DateTimeRange, ExecutionTimeout,
//!   WatchdogTimeout (the two budget kinds);
//! * static-class (the checker should have excluded them): UndefinedVariable,
//!   UndefinedFunction, UndefinedProgram, UndefinedFunctionBlock, UndefinedTask,
//!   UndefinedLabel, UndefinedField, InvalidTaskSingle, InvalidIoAddress, TypeMismatch,
//!   InvalidArgumentCount, InvalidArgumentName, InvalidControlFlow, ConditionNotBool,
//!   CaseSelectorType;
//! * latch: ResourceFaulted - required answer of every cycle after a fault, a violation on a
//!   resource that has not faulted;
//! * foreign (cannot come out of a scan cycle of this harness: no assertion functions are
//!   generated, no drivers, no bytecode, no retain store, no control server): AssertionFailed,
//!   InvalidFrame, IoDriver, UnsupportedBytecodeVersion, InvalidBytecodeMetadata,
//!   InvalidBytecode, ThreadSpawn, SimulationFault, InvalidConfig, InvalidBundle, RetainStore,
//!   ControlError. The property allows only the value-dependent kinds, so a foreign kind is
//!   reported as a violation too.

use serde::{Deserialize, Serialize};
use trust_runtime::error::RuntimeError;
use trust_runtime::harness::TestHarness;
use trust_runtime::value::{Duration, Value};

use crate::engine::catch;

#[derive(Clone, Copy, Debug, PartialEq, Eq)]
pub enum Class {
    ValueDependent,
    Static,
    Latch,
    Foreign,
}

pub fn classify(err: &RuntimeError) -> (Class, &'static str) {
    use Class::*;
    match err {
        RuntimeError::DivisionByZero => (ValueDependent, "DivisionByZero"),
        RuntimeError::ModuloByZero => (ValueDependent, "ModuloByZero"),
        RuntimeError::Overflow => (ValueDependent, "Overflow"),
        RuntimeError::IndexOutOfBounds { .. } => (ValueDependent, "IndexOutOfBounds"),
        RuntimeError::NullReference => (ValueDependent, "NullReference"),
        RuntimeError::ForStepZero => (ValueDependent, "ForStepZero"),
        RuntimeError::DateTimeRange(_) => (ValueDependent, "DateTimeRange"),
        RuntimeError::ExecutionTimeout => (ValueDependent, "ExecutionTimeout"),
        RuntimeError::WatchdogTimeout => (ValueDependent, "WatchdogTimeout"),

        RuntimeError::UndefinedVariable(_) => (Static, "UndefinedVariable"),
        RuntimeError::UndefinedFunction(_) => (Static, "UndefinedFunction"),
        RuntimeError::UndefinedProgram(_) => (Static, "UndefinedProgram"),
        RuntimeError::UndefinedFunctionBlock(_) => (Static, "UndefinedFunctionBlock"),
        RuntimeError::UndefinedTask(_) => (Static, "UndefinedTask"),
        RuntimeError::UndefinedLabel(_) => (Static, "UndefinedLabel"),
        RuntimeError::UndefinedField(_) => (Static, "UndefinedField"),
        RuntimeError::InvalidTaskSingle(_) => (Static, "InvalidTaskSingle"),
        RuntimeError::InvalidIoAddress(_) => (Static, "InvalidIoAddress"),
        RuntimeError::TypeMismatch => (Static, "TypeMismatch"),
        RuntimeError::InvalidArgumentCount { .. } => (Static, "InvalidArgumentCount"),
        RuntimeError::InvalidArgumentName(_) => (Static, "InvalidArgumentName"),
        RuntimeError::InvalidControlFlow => (Static, "InvalidControlFlow"),
        RuntimeError::ConditionNotBool => (Static, "ConditionNotBool"),
        RuntimeError::CaseSelectorType => (Static, "CaseSelectorType"),

        RuntimeError::ResourceFaulted => (Latch, "ResourceFaulted"),

        RuntimeError::AssertionFailed(_) => (Foreign, "AssertionFailed"),
        RuntimeError::InvalidFrame(_) => (Foreign, "InvalidFrame"),
        RuntimeError::IoDriver(_) => (Foreign, "IoDriver"),
        RuntimeError::UnsupportedBytecodeVersion { .. } => (Foreign, "UnsupportedBytecodeVersion"),
        RuntimeError::InvalidBytecodeMetadata(_) => (Foreign, "InvalidBytecodeMetadata"),
        RuntimeError::InvalidBytecode(_) => (Foreign, "InvalidBytecode"),
        RuntimeError::ThreadSpawn(_) => (Foreign, "ThreadSpawn"),
        RuntimeError::SimulationFault(_) => (Foreign, "SimulationFault"),
        RuntimeError::InvalidConfig(_) => (Foreign, "InvalidConfig"),
        RuntimeError::InvalidBundle(_) => (Foreign, "InvalidBundle"),
        RuntimeError::RetainStore(_) => (Foreign, "RetainStore"),
        RuntimeError::ControlError(_) => (Foreign, "ControlError"),
    }
}

/// A typed scalar written before a cycle (self-contained: replay files do not depend on the
/// generator's AST). `ty` is the IEC type name; `bits` the value (two's complement for signed
/// integers, IEEE bits for REAL/LREAL, nanoseconds for TIME/LTIME).
#[derive(Clone, Debug, PartialEq, Serialize, Deserialize)]
pub struct Scalar {
    pub ty: String,
    pub bits: u64,
}

impl Scalar {
    pub fn to_value(&self) -> Option<Value> {
        let b = self.bits;
        Some(match self.ty.as_str() {
            "BOOL" => Value::Bool(b & 1 == 1),
            "SINT" => Value::SInt(b as i8),
            "INT" => Value::Int(b as i16),
            "DINT" => Value::DInt(b as i32),
            "LINT" => Value::LInt(b as i64),
            "USINT" => Value::USInt(b as u8),
            "UINT" => Value::UInt(b as u16),
            "UDINT" => Value::UDInt(b as u32),
            "ULINT" => Value::ULInt(b),
            "REAL" => Value::Real(f32::from_bits(b as u32)),
            "LREAL" => Value::LReal(f64::from_bits(b)),
            "BYTE" => Value::Byte(b as u8),
            "WORD" => Value::Word(b as u16),
            "DWORD" => Value::DWord(b as u32),
            "LWORD" => Value::LWord(b),
            "TIME" => Value::Time(Duration::from_nanos(b as i64)),
            "LTIME" => Value::LTime(Duration::from_nanos(b as i64)),
            _ => return None,
        })
    }
    pub fn show(&self) -> String {
        match self.to_value() {
            Some(v) => format!("{v:?}"),
            None => format!("{}#{:#x}", self.ty, self.bits),
        }
    }
}

/// One write applied before a cycle.
#[derive(Clone, Debug, PartialEq, Serialize, Deserialize)]
pub enum Write {
    /// `instance.var := value` (program instance variable; instance "" = global). Applied only
    /// when the variable exists and currently holds a value of the same runtime type, so the
    /// harness itself never puts a wrongly typed value into a variable (a mutation may have
    /// changed the declared type).
    Var {
        instance: String,
        var: String,
        value: Scalar,
    },
    /// Direct input image write, e.g. `%IW4 := WORD#..` (value type = the address size).
    Direct { address: String, value: Scalar },
}

#[derive(Clone, Debug, PartialEq, Serialize, Deserialize)]
pub struct CycleIn {
    pub writes: Vec<Write>,
    /// Clock step before the cycle (ns, >= 0). The sum over a trace stays below i64::MAX.
    pub dt_ns: i64,
}

pub type XTrace = Vec<CycleIn>;

/// What one cycle did.
#[derive(Clone, Debug)]
pub struct CycleObs {
    pub error: Option<RuntimeError>,
    pub frames_left: usize,
    pub wall_ms: u128,
}

/// A failed demand of the property.
#[derive(Clone, Debug)]
pub struct Failure {
    /// 0-based cycle.
    pub cycle: usize,
    /// Short machine-readable kind: `static:<Variant>`, `foreign:<Variant>`, `panic`,
    /// `frames`, `latch-missing`, `latch-unexpected`, `deadline`.
    pub kind: String,
    pub detail: String,
    /// The runtime error (for signature matching).
    pub error: Option<RuntimeError>,
}

#[derive(Clone, Debug, Default)]
pub struct RunReport {
    pub accepted: bool,
    pub compile_error: String,
    pub compile_panic: Option<String>,
    pub cycles: Vec<CycleObs>,
    pub failure: Option<Failure>,
    /// Name of the value-dependent fault that ended the trace, if any.
    pub fault: Option<&'static str>,
    pub writes_applied: usize,
    pub writes_skipped: usize,
    /// Statements the runtime reported executing are not observable without the debug hook;
    /// `ran_cycles` counts completed cycle calls.
    pub ran_cycles: usize,
}

pub const DEADLINE_MS: u64 = 2_000;

/// Execution deadline of the case that is running (0 = `DEADLINE_MS`; stored as ms + 1 so
/// that a deadline of 0 ms can be expressed). Cases run one at a time on the worker thread.
static DEADLINE_OVERRIDE: std::sync::atomic::AtomicU64 = std::sync::atomic::AtomicU64::new(0);

pub fn set_case_deadline(ms: Option<u64>) {
    DEADLINE_OVERRIDE.store(ms.map(|m| m + 1).unwrap_or(0), std::sync::atomic::Ordering::SeqCst);
}

pub fn case_deadline_ms() -> u64 {
    match DEADLINE_OVERRIDE.load(std::sync::atomic::Ordering::SeqCst) {
        0 => DEADLINE_MS,
        v => v - 1,
    }
}

// ---------------------------------------------------------------------------- hang guard
//
// "Each scan cycle terminates": a cycle that never returns must become a VIOLATION, not a
// worker that hangs until the engine's watchdog turns the run into exit 2. A monitor thread
// watches the CPU time the worker THREAD has spent inside the running cycle
// (pthread_getcpuclockid + clock_gettime, so a slow or oversubscribed machine cannot trip it)
// and, past 50x the case's execution deadline (at least 10 s), says so and aborts the
// process: the engine attributes a dead worker to the journalled case and reports it as a
// VIOLATION ("worker process died").
/// CPU-time clock of the worker thread (Linux encodes the thread id in it: the value is
/// NEGATIVE, so validity is kept in GUARD_SINCE != 0, never in the sign).
static GUARD_CLOCK: std::sync::atomic::AtomicI32 = std::sync::atomic::AtomicI32::new(0);
/// CPU time (ns, never 0) of the worker thread when the running cycle started; 0 = no cycle.
static GUARD_SINCE: std::sync::atomic::AtomicU64 = std::sync::atomic::AtomicU64::new(0);
static GUARD_BOUND_NS: std::sync::atomic::AtomicU64 = std::sync::atomic::AtomicU64::new(0);
static GUARD_DEADLINE_MS: std::sync::atomic::AtomicU64 = std::sync::atomic::AtomicU64::new(0);
static GUARD_STARTED: std::sync::Once = std::sync::Once::new();

fn clock_ns(clk: libc::clockid_t) -> u64 {
    let mut ts = libc::timespec { tv_sec: 0, tv_nsec: 0 };
    unsafe {
        libc::clock_gettime(clk, &mut ts);
    }
    (ts.tv_sec as u64).saturating_mul(1_000_000_000).saturating_add(ts.tv_nsec as u64)
}

fn guard_enter(deadline_ms: u64) {
    use std::sync::atomic::Ordering::SeqCst;
    let mut clk: libc::clockid_t = 0;
    let ok = unsafe { libc::pthread_getcpuclockid(libc::pthread_self(), &mut clk) } == 0;
    if !ok {
        return;
    }
    GUARD_CLOCK.store(clk, SeqCst);
    GUARD_DEADLINE_MS.store(deadline_ms, SeqCst);
    GUARD_BOUND_NS.store((deadline_ms.saturating_mul(50)).max(10_000).saturating_mul(1_000_000), SeqCst);
    GUARD_SINCE.store(clock_ns(clk).max(1), SeqCst);
    GUARD_STARTED.call_once(|| {
        let _ = std::thread::Builder::new().name("c01-hang-guard".into()).spawn(|| loop {
            std::thread::sleep(std::time::Duration::from_millis(250));
            let since = GUARD_SINCE.load(SeqCst);
            if since == 0 {
                continue;
            }
            let clk = GUARD_CLOCK.load(SeqCst);
            let spent = clock_ns(clk).saturating_sub(since);
            // re-read: the cycle may have ended (and another begun) in between
            if GUARD_SINCE.load(SeqCst) != since {
                continue;
            }
            if spent > GUARD_BOUND_NS.load(SeqCst) {
                eprintln!(
                    "C01 hang guard: cycle did not return: the worker thread spent {:.1} s of CPU time in one scan cycle with an execution deadline of {} ms (bound: 50x the deadline); no ExecutionTimeout was raised. Aborting this worker - the journalled case is the one whose cycle did not return.",
                    spent as f64 / 1e9,
                    GUARD_DEADLINE_MS.load(SeqCst)
                );
                std::process::abort();
            }
        });
    });
}

fn guard_leave() {
    GUARD_SINCE.store(0, std::sync::atomic::Ordering::SeqCst);
}
/// A cycle that needs more than this (50x the execution deadline) did not "return within the
/// execution deadline": the budget check runs before every statement and loop iteration, so
/// only a single unbounded primitive can get here.
pub const HARD_LIMIT_MS: u128 = 100_000;

fn same_kind(a: &Value, b: &Value) -> bool {
    std::mem::discriminant(a) == std::mem::discriminant(b)
}

pub fn apply_writes(h: &mut TestHarness, c: &CycleIn, rep: &mut RunReport) {
    for w in &c.writes {
        match w {
            Write::Var {
                instance,
                var,
                value,
            } => {
                let Some(v) = value.to_value() else {
                    rep.writes_skipped += 1;
                    continue;
                };
                if instance.is_empty() {
                    let ok = matches!(h.runtime().storage().get_global(var.as_str()), Some(cur) if same_kind(cur, &v));
                    if ok {
                        h.runtime_mut().storage_mut().set_global(var.as_str(), v);
                        rep.writes_applied += 1;
                    } else {
                        rep.writes_skipped += 1;
                    }
                    continue;
                }
                let id = match h.runtime().storage().get_global(instance.as_str()) {
                    Some(Value::Instance(id)) => *id,
                    _ => {
                        rep.writes_skipped += 1;
                        continue;
                    }
                };
                let ok = matches!(h.runtime().storage().get_instance_var(id, var.as_str()), Some(cur) if same_kind(cur, &v));
                if ok {
                    h.runtime_mut()
                        .storage_mut()
                        .set_instance_var(id, var.as_str(), v);
                    rep.writes_applied += 1;
                } else {
                    rep.writes_skipped += 1;
                }
            }
            Write::Direct { address, value } => {
                let Some(v) = value.to_value() else {
                    rep.writes_skipped += 1;
                    continue;
                };
                match h.set_direct_input(address, v) {
                    Ok(()) => rep.writes_applied += 1,
                    Err(_) => rep.writes_skipped += 1,
                }
            }
        }
    }
    if c.dt_ns > 0 {
        // saturating: the harness never asks for a clock beyond the representable range
        let now = h.runtime().current_time().as_nanos();
        let next = now.saturating_add(c.dt_ns);
        h.runtime_mut().set_current_time(Duration::from_nanos(next));
    }
}

/// Compile `source` with the toolchain's own pipeline. `Err(report)` = not accepted.
pub fn compile(source: &str) -> Result<TestHarness, RunReport> {
    match catch(|| TestHarness::from_source(source)) {
        Ok(Ok(h)) => Ok(h),
        Ok(Err(e)) => Err(RunReport {
            accepted: false,
            compile_error: e.to_string(),
            ..RunReport::default()
        }),
        Err(p) => Err(RunReport {
            accepted: false,
            compile_panic: Some(p),
            ..RunReport::default()
        }),
    }
}

/// Run one cycle under the execution deadline.
pub fn one_cycle(h: &mut TestHarness) -> Result<CycleObs, String> {
    let t0 = std::time::Instant::now();
    let deadline_ms = case_deadline_ms();
    let deadline = t0 + std::time::Duration::from_millis(deadline_ms);
    h.runtime_mut().set_execution_deadline(Some(deadline));
    guard_enter(deadline_ms);
    let res = catch(|| h.cycle());
    guard_leave();
    let wall_ms = t0.elapsed().as_millis();
    let res = res?;
    h.runtime_mut().set_execution_deadline(None);
    Ok(CycleObs {
        error: res.errors.first().cloned(),
        frames_left: h.runtime().storage().frames().len(),
        wall_ms,
    })
}

/// Executed statements of one cycle: (start, end) byte offsets, in execution order.
pub type StmtLog = Vec<Vec<(u32, u32)>>;

/// Drive the whole trace and judge it. After a fault one further cycle is run to check the
/// latch (`ResourceFaulted`).
pub fn run(source: &str, trace: &XTrace) -> RunReport {
    run_inner(source, trace, None)
}

/// Like `run`, but with the debug hook attached and ONE logpoint that covers the whole file,
/// so that every executed statement is logged with its location (non-blocking). Used to find
/// out whether a mutated site was reached and to try further traces; a failure seen here is
/// only reported after a hook-free `run` of the same trace confirmed it.
pub fn run_traced(source: &str, trace: &XTrace, log: &mut StmtLog) -> RunReport {
    run_inner(source, trace, Some(log))
}

fn run_inner(source: &str, trace: &XTrace, mut log: Option<&mut StmtLog>) -> RunReport {
    let mut h = match compile(source) {
        Ok(h) => h,
        Err(rep) => return rep,
    };
    let dbg = if log.is_some() {
        let c = h.runtime_mut().enable_debug();
        let mut bp = trust_runtime::debug::DebugBreakpoint::new(trust_runtime::debug::SourceLocation::new(0, 0, u32::MAX));
        bp.log_message = Some(vec![trust_runtime::debug::LogFragment::Text("x".into())]);
        c.set_breakpoints_for_file(0, vec![bp]);
        Some(c)
    } else {
        None
    };
    let drain = |log: &mut Option<&mut StmtLog>| {
        if let (Some(c), Some(l)) = (&dbg, log.as_deref_mut()) {
            l.push(c.drain_logs().into_iter().filter_map(|d| d.location.map(|loc| (loc.start, loc.end))).collect());
        }
    };
    let mut rep = RunReport {
        accepted: true,
        ..RunReport::default()
    };
    let empty = CycleIn {
        writes: vec![],
        dt_ns: 0,
    };
    let fail = |cycle: usize, kind: String, detail: String, error: Option<RuntimeError>| Failure {
        cycle,
        kind,
        detail,
        error,
    };
    for k in 0..trace.len() {
        apply_writes(&mut h, &trace[k], &mut rep);
        let obs = match one_cycle(&mut h) {
            Ok(o) => o,
            Err(p) => {
                rep.failure = Some(fail(
                    k,
                    "panic".into(),
                    format!("cycle {} panicked: {p}", k + 1),
                    None,
                ));
                return rep;
            }
        };
        drain(&mut log);
        rep.ran_cycles += 1;
        rep.cycles.push(obs.clone());
        let shown = match &obs.error {
            Some(e) => format!("{e:?}"),
            None => "Ok".into(),
        };
        if obs.wall_ms > HARD_LIMIT_MS.max(case_deadline_ms() as u128 * 50) {
            rep.failure = Some(fail(
                k,
                "deadline".into(),
                format!(
                    "cycle {} returned after {} ms with an execution deadline of {} ms",
                    k + 1,
                    obs.wall_ms,
                    case_deadline_ms()
                ),
                obs.error.clone(),
            ));
            return rep;
        }
        if obs.frames_left != 0 {
            rep.failure = Some(fail(
                k,
                "frames".into(),
                format!(
                    "{} call frame(s) left behind after cycle {} (cycle result: {shown})",
                    obs.frames_left,
                    k + 1
                ),
                obs.error.clone(),
            ));
            return rep;
        }
        let Some(err) = &obs.error else { continue };
        let (class, name) = classify(err);
        match class {
            Class::ValueDependent => {
                rep.fault = Some(name);
                if !h.runtime().faulted() {
                    rep.failure = Some(fail(
                        k,
                        "latch-missing".into(),
                        format!(
                            "cycle {} raised {name} but the resource is not marked faulted",
                            k + 1
                        ),
                        Some(err.clone()),
                    ));
                    return rep;
                }
                // exactly one further cycle: it must answer ResourceFaulted
                let c2 = trace.get(k + 1).unwrap_or(&empty).clone();
                apply_writes(&mut h, &c2, &mut rep);
                match one_cycle(&mut h) {
                    Ok(o2) => {
                        rep.ran_cycles += 1;
                        let ok = matches!(&o2.error, Some(e) if classify(e).0 == Class::Latch);
                        let frames = o2.frames_left;
                        let e2 = o2.error.clone();
                        rep.cycles.push(o2);
                        if !ok {
                            rep.failure = Some(fail(
                                k + 1,
                                "latch-missing".into(),
                                format!(
                                    "the cycle after a {name} fault answered {} instead of ResourceFaulted",
                                    match &e2 {
                                        Some(e) => format!("{e:?}"),
                                        None => "Ok".into(),
                                    }
                                ),
                                e2,
                            ));
                        } else if frames != 0 {
                            rep.failure = Some(fail(
                                k + 1,
                                "frames".into(),
                                format!("{frames} call frame(s) on the stack of a faulted resource"),
                                e2,
                            ));
                        }
                    }
                    Err(p) => {
                        rep.failure = Some(fail(
                            k + 1,
                            "panic".into(),
                            format!("the cycle after a {name} fault panicked: {p}"),
                            None,
                        ));
                    }
                }
                return rep;
            }
            Class::Static => {
                rep.failure = Some(fail(
                    k,
                    format!("static:{name}"),
                    format!(
                        "cycle {} of an accepted program failed with the static-class error {err:?}",
                        k + 1
                    ),
                    Some(err.clone()),
                ));
                return rep;
            }
            Class::Latch => {
                rep.failure = Some(fail(
                    k,
                    "latch-unexpected".into(),
                    format!(
                        "cycle {} answered ResourceFaulted although no cycle faulted before",
                        k + 1
                    ),
                    Some(err.clone()),
                ));
                return rep;
            }
            Class::Foreign => {
                rep.failure = Some(fail(
                    k,
                    format!("foreign:{name}"),
                    format!(
                        "cycle {} failed with {err:?}, which is not one of the value-dependent fault kinds",
                        k + 1
                    ),
                    Some(err.clone()),
                ));
                return rep;
            }
        }
    }
    rep
}

/// Re-run with the debug hook attached and return the source text range of the statement
/// that was executing when the first error was raised (used only to localise a failure for
/// the message and for known-finding signatures; the verdict itself comes from `run`).
pub fn locate_fault(source: &str, trace: &XTrace) -> Option<(u32, u32)> {
    let mut h = compile(source).ok()?;
    let dbg = h.runtime_mut().enable_debug();
    let mut rep = RunReport::default();
    for c in trace.iter() {
        apply_writes(&mut h, c, &mut rep);
        let obs = one_cycle(&mut h).ok()?;
        if obs.error.is_some() {
            let loc = dbg.last_location()?;
            return Some((loc.start, loc.end));
        }
    }
    None
}
