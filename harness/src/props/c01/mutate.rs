//! Type-perturbing mutations of an accepted program at token level. The mutator knows
//! nothing about the checker: it perturbs, the compiler decides acceptance, so the mutated
//! cases probe the boundary of the accepted set.
//!
//! Recursion (open finding F6: the process dies with a stack overflow) is excluded by
//! construction: an identifier followed by `(` is never replaced and function / method /
//! FB-type names are never used as replacement names.

use serde::{Deserialize, Serialize};

use crate::engine::tape::Reader;

#[derive(Clone, Copy, Debug, PartialEq, Eq)]
pub enum K {
    Trivia,
    Word,
    /// Typed literal `INT#-5`, `T#1s`, `E0#E0_Red`, `BYTE#16#FF`.
    TypedLit,
    Number,
    Str,
    Direct,
    Op,
}

#[derive(Clone, Debug)]
pub struct Tok {
    pub kind: K,
    pub start: usize,
    pub end: usize,
}

pub fn lex(src: &str) -> Vec<Tok> {
    let b = src.as_bytes();
    let mut out = Vec::new();
    let mut i = 0;
    let n = b.len();
    let is_word = |c: u8| c.is_ascii_alphanumeric() || c == b'_';
    while i < n {
        let c = b[i];
        let s = i;
        if c.is_ascii_whitespace() {
            while i < n && b[i].is_ascii_whitespace() {
                i += 1;
            }
            out.push(Tok { kind: K::Trivia, start: s, end: i });
        } else if c == b'(' && i + 1 < n && b[i + 1] == b'*' {
            i += 2;
            while i + 1 < n && !(b[i] == b'*' && b[i + 1] == b')') {
                i += 1;
            }
            i = (i + 2).min(n);
            out.push(Tok { kind: K::Trivia, start: s, end: i });
        } else if c == b'\'' || c == b'"' {
            i += 1;
            while i < n && b[i] != c {
                if b[i] == b'$' {
                    i += 1;
                }
                i += 1;
            }
            i = (i + 1).min(n);
            out.push(Tok { kind: K::Str, start: s, end: i });
        } else if c.is_ascii_alphabetic() || c == b'_' {
            while i < n && is_word(b[i]) {
                i += 1;
            }
            if i < n && b[i] == b'#' {
                // typed literal: prefix#[sign]body
                i += 1;
                if i < n && (b[i] == b'-' || b[i] == b'+') {
                    i += 1;
                }
                while i < n && (is_word(b[i]) || b[i] == b'#' || b[i] == b'.' || b[i] == b':') {
                    i += 1;
                }
                // date parts: 1970-01-01-00:00:00 and exponents E-3 / E+3
                loop {
                    if i + 1 < n && (b[i] == b'-' || b[i] == b'+') && b[i + 1].is_ascii_digit() && i > 0 && (b[i - 1].is_ascii_digit() || b[i - 1] == b'E' || b[i - 1] == b'e') {
                        i += 1;
                        while i < n && (is_word(b[i]) || b[i] == b'.' || b[i] == b':') {
                            i += 1;
                        }
                    } else {
                        break;
                    }
                }
                out.push(Tok { kind: K::TypedLit, start: s, end: i });
            } else {
                out.push(Tok { kind: K::Word, start: s, end: i });
            }
        } else if c.is_ascii_digit() {
            while i < n && (is_word(b[i]) || b[i] == b'#') {
                i += 1;
            }
            if i + 1 < n && b[i] == b'.' && b[i + 1].is_ascii_digit() {
                i += 1;
                while i < n && is_word(b[i]) {
                    i += 1;
                }
                if i + 1 < n && (b[i] == b'-' || b[i] == b'+') && (b[i - 1] == b'E' || b[i - 1] == b'e') {
                    i += 1;
                    while i < n && b[i].is_ascii_digit() {
                        i += 1;
                    }
                }
            }
            out.push(Tok { kind: K::Number, start: s, end: i });
        } else if c == b'%' {
            i += 1;
            while i < n && (is_word(b[i]) || b[i] == b'.' || b[i] == b'*') {
                i += 1;
            }
            out.push(Tok { kind: K::Direct, start: s, end: i });
        } else {
            let two = if i + 1 < n { &src[i..i + 2] } else { "" };
            if matches!(two, ":=" | "=>" | "<=" | ">=" | "<>" | "**" | "..") {
                i += 2;
            } else {
                // multi-byte characters only occur inside strings; be safe anyway
                i += 1;
                while i < n && !src.is_char_boundary(i) {
                    i += 1;
                }
            }
            out.push(Tok { kind: K::Op, start: s, end: i });
        }
    }
    out
}

const ELEM_TYPES: [&str; 25] = [
    "BOOL", "SINT", "INT", "DINT", "LINT", "USINT", "UINT", "UDINT", "ULINT", "REAL", "LREAL",
    "BYTE", "WORD", "DWORD", "LWORD", "TIME", "LTIME", "DATE", "TOD", "DT", "STRING", "WSTRING",
    "LDATE", "LTOD", "LDT",
];

const KEYWORDS: [&str; 78] = [
    "PROGRAM", "END_PROGRAM", "FUNCTION", "END_FUNCTION", "FUNCTION_BLOCK", "END_FUNCTION_BLOCK",
    "VAR", "VAR_INPUT", "VAR_OUTPUT", "VAR_IN_OUT", "VAR_TEMP", "VAR_EXTERNAL", "VAR_GLOBAL",
    "END_VAR", "CONSTANT", "IF", "THEN", "ELSIF", "ELSE", "END_IF", "CASE", "OF", "END_CASE",
    "FOR", "TO", "BY", "DO", "END_FOR", "WHILE", "END_WHILE", "REPEAT", "UNTIL", "END_REPEAT",
    "EXIT", "CONTINUE", "RETURN", "AND", "OR", "XOR", "NOT", "MOD", "TRUE", "FALSE", "TYPE",
    "END_TYPE", "STRUCT", "END_STRUCT", "ARRAY", "CONFIGURATION", "END_CONFIGURATION", "RESOURCE",
    "END_RESOURCE", "ON", "TASK", "WITH", "AT", "REF_TO", "REF", "NULL", "CLASS", "END_CLASS",
    "METHOD", "END_METHOD", "PUBLIC", "PRIVATE", "PROTECTED", "OVERRIDE", "EXTENDS", "THIS",
    "SUPER", "INTERVAL", "PRIORITY", "SINGLE", "EN", "ENO", "IN", "RETAIN", "PERSISTENT",
];

fn is_keyword(w: &str) -> bool {
    let u = w.to_ascii_uppercase();
    KEYWORDS.contains(&u.as_str()) || ELEM_TYPES.contains(&u.as_str())
}

/// One applied mutation (kept in the case for the message and the signatures).
#[derive(Clone, Debug, PartialEq, Serialize, Deserialize)]
pub struct Applied {
    /// swap_ident | change_decl_type | drop_arg | dup_arg | ident_case | insert_jump |
    /// swap_op | retype_literal | untype_literal | negate_literal
    pub kind: String,
    pub from: String,
    pub to: String,
    /// Byte offset in the text the mutation was applied to.
    pub at: usize,
    /// 1-based line in the mutated text.
    pub line: usize,
}

struct Ctx<'s> {
    src: &'s str,
    toks: Vec<Tok>,
    /// indices of non-trivia tokens
    sig: Vec<usize>,
}

impl<'s> Ctx<'s> {
    fn new(src: &'s str) -> Ctx<'s> {
        let toks = lex(src);
        let sig = toks
            .iter()
            .enumerate()
            .filter(|(_, t)| t.kind != K::Trivia)
            .map(|(i, _)| i)
            .collect();
        Ctx { src, toks, sig }
    }
    fn text(&self, si: usize) -> &'s str {
        let t = &self.toks[self.sig[si]];
        &self.src[t.start..t.end]
    }
    fn kind(&self, si: usize) -> K {
        self.toks[self.sig[si]].kind
    }
    fn is(&self, si: usize, s: &str) -> bool {
        si < self.sig.len() && self.text(si).eq_ignore_ascii_case(s)
    }
    fn n(&self) -> usize {
        self.sig.len()
    }
}

/// Per-POU facts recovered from the token stream.
struct PouInfo {
    /// significant-token index range of the whole POU
    lo: usize,
    hi: usize,
    /// (name, declared elementary type keyword or "")
    vars: Vec<(String, String)>,
}

fn scan_pous(c: &Ctx<'_>) -> (Vec<PouInfo>, Vec<String>) {
    let mut pous = Vec::new();
    let mut callable: Vec<String> = Vec::new();
    let mut i = 0;
    while i < c.n() {
        let w = c.text(i).to_ascii_uppercase();
        if matches!(w.as_str(), "PROGRAM" | "FUNCTION" | "FUNCTION_BLOCK" | "CLASS") && i + 1 < c.n() && c.kind(i + 1) == K::Word {
            let end_kw = format!("END_{w}");
            // inside a CONFIGURATION "PROGRAM inst : T;" is a declaration, not a POU
            let mut j = i + 1;
            let mut found = None;
            while j < c.n() {
                if c.is(j, &end_kw) {
                    found = Some(j);
                    break;
                }
                if c.is(j, "END_CONFIGURATION") {
                    break;
                }
                j += 1;
            }
            let Some(hi) = found else {
                i += 1;
                continue;
            };
            callable.push(c.text(i + 1).to_string());
            let mut vars = Vec::new();
            let mut k = i + 2;
            let mut in_var = false;
            while k < hi {
                let t = c.text(k).to_ascii_uppercase();
                if t == "METHOD" {
                    // method name is callable too
                    let mut m = k + 1;
                    while m < hi && matches!(c.text(m).to_ascii_uppercase().as_str(), "PUBLIC" | "PRIVATE" | "PROTECTED" | "OVERRIDE" | "FINAL" | "ABSTRACT") {
                        m += 1;
                    }
                    if m < hi {
                        callable.push(c.text(m).to_string());
                    }
                }
                if t.starts_with("VAR") && t != "VAR_CONFIG" && c.kind(k) == K::Word && (t == "VAR" || t.starts_with("VAR_")) {
                    in_var = true;
                } else if t == "END_VAR" {
                    in_var = false;
                } else if in_var && c.kind(k) == K::Word && !is_keyword(&t) {
                    // name [AT %addr] : type
                    let mut m = k + 1;
                    if c.is(m, "AT") {
                        m += 2;
                    }
                    if c.is(m, ":") && (k == 0 || !c.is(k - 1, ":")) && !c.is(k - 1, ":=") {
                        let ty = if m + 1 < hi { c.text(m + 1).to_ascii_uppercase() } else { String::new() };
                        let ty = if ELEM_TYPES.contains(&ty.as_str()) { ty } else { String::new() };
                        vars.push((c.text(k).to_string(), ty));
                    }
                }
                k += 1;
            }
            pous.push(PouInfo { lo: i, hi, vars });
            i = hi + 1;
            continue;
        }
        i += 1;
    }
    (pous, callable)
}

fn line_of(src: &str, at: usize) -> usize {
    src[..at.min(src.len())].bytes().filter(|b| *b == b'\n').count() + 1
}

fn splice(src: &str, start: usize, end: usize, with: &str) -> String {
    let mut s = String::with_capacity(src.len() + with.len());
    s.push_str(&src[..start]);
    s.push_str(with);
    s.push_str(&src[end..]);
    s
}

/// Is significant token `si` inside a declaration block (VAR..END_VAR / TYPE..END_TYPE /
/// CONFIGURATION)?
fn in_decl(c: &Ctx<'_>, si: usize) -> bool {
    let mut k = si;
    loop {
        let t = c.text(k).to_ascii_uppercase();
        if t == "END_VAR" || t == "END_TYPE" || t == "END_CONFIGURATION" {
            return false;
        }
        if (t == "VAR" || t.starts_with("VAR_")) && c.kind(k) == K::Word || t == "TYPE" || t == "CONFIGURATION" {
            return true;
        }
        if k == 0 {
            return false;
        }
        k -= 1;
    }
}

/// Apply one mutation chosen by the tape; `None` when the chosen kind has no site.
pub fn mutate_once(src: &str, r: &mut Reader<'_>) -> Option<(String, Applied)> {
    let c = Ctx::new(src);
    let (pous, callable) = scan_pous(&c);
    if pous.is_empty() {
        return None;
    }
    let is_callable = |w: &str| callable.iter().any(|f| f.eq_ignore_ascii_case(w));
    let kind = r.weighted(&[10, 8, 3, 2, 3, 4, 5, 6, 3, 4]);
    let mk = |kind: &str, from: &str, to: &str, at: usize, text: &str| Applied {
        kind: kind.into(),
        from: from.into(),
        to: to.into(),
        at,
        line: line_of(text, at),
    };
    match kind {
        // ---- swap a variable use for another variable of the POU (preferably another type)
        0 | 4 => {
            let p = &pous[r.pick(pous.len())];
            if p.vars.is_empty() {
                return None;
            }
            let names: Vec<&str> = p.vars.iter().map(|(n, _)| n.as_str()).collect();
            let sites: Vec<usize> = (p.lo..p.hi)
                .filter(|&si| {
                    c.kind(si) == K::Word
                        && names.iter().any(|n| *n == c.text(si))
                        && !in_decl(&c, si)
                        && !c.is(si + 1, "(")
                        && !(si > 0 && c.is(si - 1, "."))
                        && !is_callable(c.text(si))
                })
                .collect();
            if sites.is_empty() {
                return None;
            }
            let si = sites[r.pick(sites.len())];
            let old = c.text(si);
            let tok = &c.toks[c.sig[si]];
            if kind == 4 {
                // identifier case (IEC identifiers are case-insensitive)
                let new: String = if old.chars().any(|ch| ch.is_ascii_lowercase()) {
                    old.to_ascii_uppercase()
                } else {
                    old.to_ascii_lowercase()
                };
                if new == old {
                    return None;
                }
                let out = splice(src, tok.start, tok.end, &new);
                let a = mk("ident_case", old, &new, tok.start, &out);
                return Some((out, a));
            }
            let old_ty = p.vars.iter().find(|(n, _)| n == old).map(|(_, t)| t.clone()).unwrap_or_default();
            let other: Vec<&(String, String)> = p
                .vars
                .iter()
                .filter(|(n, t)| n != old && !is_callable(n) && (*t != old_ty || old_ty.is_empty()))
                .collect();
            let pool: Vec<&(String, String)> = if other.is_empty() || r.chance(1, 5) {
                p.vars.iter().filter(|(n, _)| n != old && !is_callable(n)).collect()
            } else {
                other
            };
            if pool.is_empty() {
                return None;
            }
            let (new, new_ty) = pool[r.pick(pool.len())];
            let out = splice(src, tok.start, tok.end, new);
            let a = mk("swap_ident", &format!("{old}:{old_ty}"), &format!("{new}:{new_ty}"), tok.start, &out);
            Some((out, a))
        }
        // ---- change a declared elementary type
        1 => {
            let sites: Vec<usize> = (1..c.n())
                .filter(|&si| {
                    c.kind(si) == K::Word
                        && ELEM_TYPES.contains(&c.text(si).to_ascii_uppercase().as_str())
                        && (c.is(si - 1, ":") || c.is(si - 1, "OF") || c.is(si - 1, "REF_TO"))
                })
                .collect();
            if sites.is_empty() {
                return None;
            }
            let si = sites[r.pick(sites.len())];
            let old = c.text(si).to_ascii_uppercase();
            // neighbours first (signedness, width, real), then anything
            let near: &[&str] = match old.as_str() {
                "SINT" => &["USINT", "INT", "BYTE"],
                "INT" => &["UINT", "DINT", "SINT", "WORD", "REAL"],
                "DINT" => &["UDINT", "INT", "LINT", "DWORD", "REAL", "TIME"],
                "LINT" => &["ULINT", "DINT", "LWORD", "LREAL", "LTIME"],
                "USINT" => &["SINT", "UINT", "BYTE"],
                "UINT" => &["INT", "UDINT", "USINT", "WORD"],
                "UDINT" => &["DINT", "UINT", "ULINT", "DWORD"],
                "ULINT" => &["LINT", "UDINT", "LWORD"],
                "REAL" => &["LREAL", "DINT", "INT"],
                "LREAL" => &["REAL", "LINT"],
                "BOOL" => &["INT", "BYTE", "USINT"],
                "TIME" => &["LTIME", "DINT", "TOD"],
                _ => &["INT", "DINT", "STRING"],
            };
            let new = if r.chance(3, 4) {
                near[r.pick(near.len())]
            } else {
                ELEM_TYPES[r.pick(ELEM_TYPES.len())]
            };
            if new == old {
                return None;
            }
            let tok = &c.toks[c.sig[si]];
            let out = splice(src, tok.start, tok.end, new);
            let a = mk("change_decl_type", &old, new, tok.start, &out);
            Some((out, a))
        }
        // ---- drop / duplicate a call argument
        2 | 3 => {
            // argument lists: Word "(" ... ")" outside declarations
            let mut lists: Vec<(usize, usize)> = Vec::new();
            for si in 1..c.n() {
                if c.is(si, "(") && c.kind(si - 1) == K::Word && !is_keyword(c.text(si - 1)) && !in_decl(&c, si) {
                    let mut depth = 0i32;
                    let mut k = si;
                    while k < c.n() {
                        if c.is(k, "(") || c.is(k, "[") {
                            depth += 1;
                        } else if c.is(k, ")") || c.is(k, "]") {
                            depth -= 1;
                            if depth == 0 {
                                break;
                            }
                        }
                        k += 1;
                    }
                    if k < c.n() && k > si + 1 {
                        lists.push((si, k));
                    }
                }
            }
            if lists.is_empty() {
                return None;
            }
            let (lo, hi) = lists[r.pick(lists.len())];
            // split at depth-1 commas
            let mut args: Vec<(usize, usize)> = Vec::new();
            let mut depth = 0i32;
            let mut start = lo + 1;
            for k in lo..=hi {
                if c.is(k, "(") || c.is(k, "[") {
                    depth += 1;
                } else if c.is(k, ")") || c.is(k, "]") {
                    depth -= 1;
                    if depth == 0 {
                        args.push((start, k));
                    }
                } else if c.is(k, ",") && depth == 1 {
                    args.push((start, k));
                    start = k + 1;
                }
            }
            if args.is_empty() {
                return None;
            }
            let ai = r.pick(args.len());
            let (a_lo, a_hi) = args[ai]; // [a_lo, a_hi) significant tokens
            if a_lo >= a_hi {
                return None;
            }
            let s = c.toks[c.sig[a_lo]].start;
            let e = c.toks[c.sig[a_hi - 1]].end;
            let arg_text = &src[s..e];
            if kind == 2 {
                // drop: remove the argument and one adjacent comma
                let (ds, de) = if ai + 1 < args.len() {
                    (s, c.toks[c.sig[a_hi]].end)
                } else if ai > 0 {
                    (c.toks[c.sig[a_lo - 1]].start, e)
                } else {
                    (s, e)
                };
                let out = splice(src, ds, de, "");
                let a = mk("drop_arg", arg_text, "", ds, &out);
                Some((out, a))
            } else {
                let out = splice(src, e, e, &format!(", {arg_text}"));
                let a = mk("dup_arg", arg_text, arg_text, e, &out);
                Some((out, a))
            }
        }
        // ---- insert EXIT / CONTINUE / RETURN at a statement boundary
        5 => {
            let sites: Vec<usize> = (0..c.n())
                .filter(|&si| c.is(si, ";") && !in_decl(&c, si) && pous.iter().any(|p| si > p.lo && si < p.hi))
                .collect();
            if sites.is_empty() {
                return None;
            }
            let si = sites[r.pick(sites.len())];
            let what = ["EXIT;", "CONTINUE;", "RETURN;"][r.weighted(&[3, 2, 2])];
            let at = c.toks[c.sig[si]].end;
            let out = splice(src, at, at, &format!(" {what}"));
            let a = mk("insert_jump", "", what, at, &out);
            Some((out, a))
        }
        // ---- swap an operator
        6 => {
            const OPS: [&str; 17] = [
                "+", "-", "*", "/", "MOD", "**", "AND", "OR", "XOR", "&", "=", "<>", "<", "<=", ">", ">=", "NOT",
            ];
            let sites: Vec<usize> = (1..c.n())
                .filter(|&si| {
                    OPS.iter().any(|o| c.text(si).eq_ignore_ascii_case(o))
                        && !in_decl(&c, si)
                        && !c.is(si, "NOT")
                        // binary position: previous token ends an operand
                        && (matches!(c.kind(si - 1), K::Word | K::TypedLit | K::Number | K::Str) && !is_keyword_not_operand(c.text(si - 1)) || c.is(si - 1, ")") || c.is(si - 1, "]"))
                })
                .collect();
            if sites.is_empty() {
                return None;
            }
            let si = sites[r.pick(sites.len())];
            let old = c.text(si).to_ascii_uppercase();
            let arith = ["+", "-", "*", "/", "MOD", "**"];
            let cmp = ["=", "<>", "<", "<=", ">", ">="];
            let logic = ["AND", "OR", "XOR"];
            let new = match r.pick(3) {
                0 => arith[r.pick(arith.len())],
                1 => cmp[r.pick(cmp.len())],
                _ => logic[r.pick(logic.len())],
            };
            if new == old {
                return None;
            }
            let tok = &c.toks[c.sig[si]];
            let out = splice(src, tok.start, tok.end, new);
            let a = mk("swap_op", &old, new, tok.start, &out);
            Some((out, a))
        }
        // ---- retype / untype / negate a literal
        7 | 8 | 9 => {
            let sites: Vec<usize> = (0..c.n())
                .filter(|&si| {
                    (c.kind(si) == K::TypedLit || (kind == 9 && c.kind(si) == K::Number))
                        && !(si > 0 && (c.is(si - 1, "[") || c.is(si - 1, "..")))
                        && !(si + 1 < c.n() && c.is(si + 1, ".."))
                        && !(si + 1 < c.n() && c.is(si + 1, ":") && !in_decl(&c, si))
                })
                .collect();
            if sites.is_empty() {
                return None;
            }
            let si = sites[r.pick(sites.len())];
            let old = c.text(si);
            let tok = &c.toks[c.sig[si]];
            if c.kind(si) == K::Number {
                let new = format!("-{old}");
                let out = splice(src, tok.start, tok.end, &new);
                let a = mk("negate_literal", old, &new, tok.start, &out);
                return Some((out, a));
            }
            let (pre, body) = old.split_once('#')?;
            let pre_u = pre.to_ascii_uppercase();
            let numeric = matches!(
                pre_u.as_str(),
                "SINT" | "INT" | "DINT" | "LINT" | "USINT" | "UINT" | "UDINT" | "ULINT" | "REAL" | "LREAL" | "BYTE" | "WORD" | "DWORD" | "LWORD"
            );
            if !numeric && kind != 9 {
                return None;
            }
            let new = match kind {
                7 => {
                    const TY: [&str; 14] = [
                        "SINT", "INT", "DINT", "LINT", "USINT", "UINT", "UDINT", "ULINT", "REAL", "LREAL", "BYTE", "WORD", "DWORD", "LWORD",
                    ];
                    let t = TY[r.pick(TY.len())];
                    if t == pre_u {
                        return None;
                    }
                    format!("{t}#{body}")
                }
                8 => body.to_string(),
                _ => {
                    if let Some(rest) = body.strip_prefix('-') {
                        format!("{pre}#{rest}")
                    } else if body.starts_with(|ch: char| ch.is_ascii_digit()) {
                        format!("{pre}#-{body}")
                    } else {
                        return None;
                    }
                }
            };
            let name = match kind {
                7 => "retype_literal",
                8 => "untype_literal",
                _ => "negate_literal",
            };
            let out = splice(src, tok.start, tok.end, &new);
            let a = mk(name, old, &new, tok.start, &out);
            Some((out, a))
        }
        _ => None,
    }
}

fn is_keyword_not_operand(w: &str) -> bool {
    let u = w.to_ascii_uppercase();
    u != "TRUE" && u != "FALSE" && u != "NULL" && u != "THIS" && is_keyword(&u)
}

/// Apply 1-2 mutations (a second one in 1 case of 4).
pub fn mutate(src: &str, r: &mut Reader<'_>) -> (String, Vec<Applied>) {
    let mut text = src.to_string();
    let mut applied = Vec::new();
    let want = if r.chance(1, 4) { 2 } else { 1 };
    let mut tries = 0;
    while applied.len() < want && tries < 6 {
        tries += 1;
        if let Some((t, a)) = mutate_once(&text, r) {
            text = t;
            applied.push(a);
        }
    }
    (text, applied)
}

// ====================================================================== context-aware mutation

/// Where a context-aware mutation was applied (offsets are valid in the MUTATED text: the
/// mutation lies inside the slot, so everything up to the slot's start is unchanged).
#[derive(Clone, Debug, PartialEq, Serialize, Deserialize)]
pub struct SiteInfo {
    pub ctx: String,
    pub slot_start: usize,
    pub stmt_start: usize,
    pub pou_start: usize,
    pub pou_end: usize,
    pub if_range: Option<(usize, usize)>,
    /// Length change of the text (mutated - original).
    pub delta: i64,
    /// The unmutated program executed this site under the generated trace (the site was
    /// chosen among the executed ones), so the mutated program reaches it too.
    #[serde(default)]
    pub executed_in_base: bool,
}

/// Was `site` evaluated according to the executed-statement log of the UNMUTATED program?
pub fn site_executed(site: &super::context::Site, log: &[Vec<(u32, u32)>], starts: &std::collections::BTreeSet<u32>, src: &str) -> bool {
    match site.ctx {
        "initialiser" => {
            if src.get(site.pou_start..).map(|t| t.trim_start().to_ascii_uppercase().starts_with("PROGRAM")).unwrap_or(false) {
                return true;
            }
            starts.range(site.pou_start as u32..site.pou_end as u32).next().is_some()
        }
        "elsif_cond" => site_executed_slow(site, log, src),
        _ => starts.contains(&(site.stmt_start as u32)),
    }
}

fn site_executed_slow(site: &super::context::Site, log: &[Vec<(u32, u32)>], src: &str) -> bool {
    match site.ctx {
        "initialiser" => {
            if src.get(site.pou_start..).map(|t| t.trim_start().to_ascii_uppercase().starts_with("PROGRAM")).unwrap_or(false) {
                return true;
            }
            log.iter().flatten().any(|(s, _)| (*s as usize) >= site.pou_start && (*s as usize) < site.pou_end)
        }
        "elsif_cond" => {
            let Some((is, ie)) = site.if_range else { return false };
            for cyc in log {
                for (i, (s, _)) in cyc.iter().enumerate() {
                    if *s as usize != is {
                        continue;
                    }
                    match cyc.get(i + 1) {
                        Some((n, _)) if (*n as usize) > is && (*n as usize) < ie => {
                            if (*n as usize) > site.start {
                                return true;
                            }
                        }
                        _ => return true,
                    }
                }
            }
            false
        }
        _ => log.iter().flatten().any(|(s, _)| *s as usize == site.stmt_start),
    }
}

const INT_TYS: [&str; 8] = ["SINT", "INT", "DINT", "LINT", "USINT", "UINT", "UDINT", "ULINT"];

/// Draw a context uniformly over the contexts that occur in `src`, a site of that context
/// uniformly, and apply a mutation kind suited to the context.
pub fn mutate_in_context(src: &str, r: &mut Reader<'_>, base_log: &[Vec<(u32, u32)>]) -> Option<(String, Applied, SiteInfo)> {
    let all_sites = super::context::sites(src);
    if all_sites.is_empty() {
        return None;
    }
    // The desired context is drawn uniformly from the FULL list (uniform at the level of the
    // search, not of the program). Coverage guided: sites of that context that the unmutated
    // program executes are preferred; else any site of that context (then the alternative
    // traces try to reach it); else uniform over the executed sites' contexts.
    let starts: std::collections::BTreeSet<u32> = base_log.iter().flatten().map(|(s, _)| *s).collect();
    let executed: Vec<super::context::Site> = all_sites.iter().filter(|s| site_executed(s, base_log, &starts, src)).cloned().collect();
    let want = super::context::ALL_CONTEXTS[r.pick(super::context::ALL_CONTEXTS.len())];
    let want_exec: Vec<super::context::Site> = executed.iter().filter(|s| s.ctx == want).cloned().collect();
    let want_any: Vec<super::context::Site> = all_sites.iter().filter(|s| s.ctx == want).cloned().collect();
    let (sites, guided) = if !want_exec.is_empty() {
        (want_exec, true)
    } else if !want_any.is_empty() && r.chance(1, 2) {
        (want_any, false)
    } else if !executed.is_empty() {
        // uniform over the CONTEXTS of the executed sites, not over the sites
        let cs: Vec<&str> = super::context::ALL_CONTEXTS.iter().copied().filter(|c| executed.iter().any(|s| s.ctx == *c)).collect();
        let c = cs[r.pick(cs.len())];
        (executed.iter().filter(|s| s.ctx == c).cloned().collect(), true)
    } else {
        let cs: Vec<&str> = super::context::ALL_CONTEXTS.iter().copied().filter(|c| all_sites.iter().any(|s| s.ctx == *c)).collect();
        let c = cs[r.pick(cs.len())];
        (all_sites.iter().filter(|s| s.ctx == c).cloned().collect(), false)
    };
    let present: Vec<&str> = super::context::ALL_CONTEXTS
        .iter()
        .copied()
        .filter(|c| sites.iter().any(|s| s.ctx == *c))
        .collect();
    if present.is_empty() {
        return None;
    }
    let ctx = present[r.pick(present.len())];
    let of: Vec<&super::context::Site> = sites.iter().filter(|s| s.ctx == ctx).collect();
    let site = of[r.pick(of.len())].clone();
    let c = Ctx::new(src);
    let (pous, callable) = scan_pous(&c);
    let is_callable = |w: &str| callable.iter().any(|f| f.eq_ignore_ascii_case(w));
    // variable table of the top-level POU that contains the site
    let pou = pous.iter().find(|p| {
        let lo = c.toks[c.sig[p.lo]].start;
        let hi = c.toks[c.sig[p.hi]].end;
        site.start >= lo && site.start < hi
    })?;
    let vars: Vec<(String, String)> = pou.vars.iter().filter(|(n, _)| !is_callable(n)).cloned().collect();
    // significant tokens inside the slot
    let in_slot: Vec<usize> = (0..c.n())
        .filter(|&si| {
            let t = &c.toks[c.sig[si]];
            t.start >= site.start && t.end <= site.end
        })
        .collect();
    let var_toks: Vec<usize> = in_slot
        .iter()
        .copied()
        .filter(|&si| {
            c.kind(si) == K::Word
                && vars.iter().any(|(n, _)| n == c.text(si))
                && !c.is(si + 1, "(")
                && !(si > 0 && c.is(si - 1, "."))
                // not the formal name of a named argument
                && !(c.is(si + 1, ":=") && site.is_argument())
                && !c.is(si + 1, "=>")
        })
        .collect();
    let slot_text = &src[site.start..site.end];
    let info = |delta: i64| SiteInfo {
        ctx: ctx.to_string(),
        slot_start: site.start,
        stmt_start: site.stmt_start,
        pou_start: site.pou_start,
        pou_end: site.pou_end,
        if_range: site.if_range,
        delta,
        executed_in_base: guided,
    };
    let done = |out: String, kind: &str, from: &str, to: &str, at: usize| -> Option<(String, Applied, SiteInfo)> {
        let a = Applied {
            kind: format!("{ctx}:{kind}"),
            from: from.to_string(),
            to: to.to_string(),
            at,
            line: line_of(&out, at),
        };
        let delta = out.len() as i64 - src.len() as i64;
        Some((out, a, info(delta)))
    };
    // kinds: 0 swap_var (other type) 1 undeclared_name 2 non_bool_condition 3 retype_literal
    // 4 swap_op 5 drop_arg 6 dup_arg 7 replace_label 8 insert_jump 9 replace_slot_with_var
    // 10 replace_slot_with_string 11 empty_call_args
    // 12 swap_var_same_type / 13 same_type_label: type-PRESERVING kinds (accepted by a correct
    // checker); they give every context accepted-and-reached volume and change values.
    let weights: [u32; 14] = if site.is_condition() {
        [3, 3, 4, 1, 1, 0, 0, 0, 0, 1, 1, 0, 6, 0]
    } else if site.is_argument() {
        [3, 2, 0, 1, 0, 2, 1, 0, 0, 2, 1, 0, 6, 0]
    } else if ctx == "case_label" {
        [0, 0, 0, 0, 0, 0, 0, 2, 0, 0, 0, 0, 0, 2]
    } else if site.is_statement() {
        [3, 3, 0, 1, 1, 0, 0, 0, 4, 0, 0, 0, 6, 0]
    } else if ctx == "assign_lhs" {
        [4, 2, 0, 0, 0, 0, 0, 0, 0, 1, 0, 0, 4, 0]
    } else if ctx == "this_super_call" || ctx == "method_call" {
        [3, 2, 0, 1, 0, 0, 0, 0, 0, 0, 0, 3, 5, 0]
    } else {
        [4, 3, 0, 1, 1, 0, 0, 0, 0, 3, 1, 0, 6, 0]
    };
    let first = r.weighted(&weights);
    // try the drawn kind, then the others in a fixed order
    let mut order: Vec<usize> = vec![first];
    order.extend((0..14).filter(|k| *k != first && weights[*k] > 0));
    for kind in order {
        match kind {
            0 => {
                if var_toks.is_empty() {
                    continue;
                }
                let si = var_toks[r.pick(var_toks.len())];
                let old = c.text(si);
                let old_ty = vars.iter().find(|(n, _)| n == old).map(|(_, t)| t.clone()).unwrap_or_default();
                let pool: Vec<&(String, String)> = vars.iter().filter(|(n, t)| n != old && !t.is_empty() && *t != old_ty).collect();
                if pool.is_empty() {
                    continue;
                }
                let (new, new_ty) = pool[r.pick(pool.len())];
                let tok = &c.toks[c.sig[si]];
                let out = splice(src, tok.start, tok.end, new);
                return done(out, "swap_var", &format!("{old}:{old_ty}"), &format!("{new}:{new_ty}"), tok.start);
            }
            1 => {
                if let Some(&si) = var_toks.get(r.pick(var_toks.len().max(1))) {
                    let tok = &c.toks[c.sig[si]];
                    let out = splice(src, tok.start, tok.end, "zz_undeclared");
                    return done(out, "undeclared_name", c.text(si), "zz_undeclared", tok.start);
                }
                if site.is_statement() || site.is_argument() || ctx == "case_label" {
                    continue;
                }
                let out = splice(src, site.start, site.end, "zz_undeclared");
                return done(out, "undeclared_name", slot_text, "zz_undeclared", site.start);
            }
            2 => {
                let ints: Vec<&(String, String)> = vars.iter().filter(|(_, t)| INT_TYS.contains(&t.as_str())).collect();
                let new = if ints.is_empty() || r.chance(1, 4) {
                    "DINT#1".to_string()
                } else {
                    ints[r.pick(ints.len())].0.clone()
                };
                let out = splice(src, site.start, site.end, &new);
                return done(out, "non_bool_condition", slot_text, &new, site.start);
            }
            3 => {
                let lits: Vec<usize> = in_slot.iter().copied().filter(|&si| c.kind(si) == K::TypedLit).collect();
                if lits.is_empty() {
                    continue;
                }
                let si = lits[r.pick(lits.len())];
                let old = c.text(si);
                let Some((pre, body)) = old.split_once('#') else { continue };
                const TY: [&str; 12] = ["SINT", "INT", "DINT", "LINT", "USINT", "UINT", "UDINT", "ULINT", "REAL", "LREAL", "WORD", "BOOL"];
                if !TY.contains(&pre.to_ascii_uppercase().as_str()) {
                    continue;
                }
                let t = TY[r.pick(TY.len())];
                if t.eq_ignore_ascii_case(pre) {
                    continue;
                }
                let new = format!("{t}#{body}");
                let tok = &c.toks[c.sig[si]];
                let out = splice(src, tok.start, tok.end, &new);
                return done(out, "retype_literal", old, &new, tok.start);
            }
            4 => {
                const OPS: [&str; 15] = ["+", "-", "*", "/", "MOD", "AND", "OR", "XOR", "=", "<>", "<", "<=", ">", ">=", "&"];
                let ops: Vec<usize> = in_slot
                    .iter()
                    .copied()
                    .filter(|&si| {
                        si > 0
                            && OPS.iter().any(|o| c.text(si).eq_ignore_ascii_case(o))
                            && (matches!(c.kind(si - 1), K::Word | K::TypedLit | K::Number | K::Str) && !is_keyword_not_operand(c.text(si - 1)) || c.is(si - 1, ")") || c.is(si - 1, "]"))
                    })
                    .collect();
                if ops.is_empty() {
                    continue;
                }
                let si = ops[r.pick(ops.len())];
                let old = c.text(si).to_ascii_uppercase();
                let new = ["+", "<", "AND", "MOD", "=", "OR", "*"][r.pick(7)];
                if new == old {
                    continue;
                }
                let tok = &c.toks[c.sig[si]];
                let out = splice(src, tok.start, tok.end, new);
                return done(out, "swap_op", &old, new, tok.start);
            }
            5 | 6 => {
                if !site.is_argument() {
                    continue;
                }
                if kind == 6 {
                    let out = splice(src, site.end, site.end, &format!(", {slot_text}"));
                    return done(out, "dup_arg", slot_text, slot_text, site.end);
                }
                // drop the argument with one adjacent comma
                let after = src[site.end..].find(|ch: char| !ch.is_whitespace()).map(|o| site.end + o);
                let before = src[..site.start].rfind(|ch: char| !ch.is_whitespace());
                let (ds, de) = match (after, before) {
                    (Some(a), _) if src[a..].starts_with(',') => (site.start, a + 1),
                    (_, Some(b)) if src[..=b].ends_with(',') => (b, site.end),
                    _ => (site.start, site.end),
                };
                let out = splice(src, ds, de, "");
                return done(out, "drop_arg", slot_text, "", ds);
            }
            7 => {
                let pool: Vec<String> = {
                    let mut v = vec!["REAL#1.5".to_string(), "'a'".to_string(), "TRUE".to_string(), "T#1s".to_string()];
                    if let Some((n, _)) = vars.first() {
                        v.push(n.clone());
                    }
                    v
                };
                let new = pool[r.pick(pool.len())].clone();
                let out = splice(src, site.start, site.end, &new);
                return done(out, "replace_label", slot_text, &new, site.start);
            }
            8 => {
                // after the statement's terminating ';'
                let Some(semi) = src[site.end.saturating_sub(1)..].find(';').map(|o| site.end.saturating_sub(1) + o + 1) else {
                    continue;
                };
                let what = ["EXIT;", "CONTINUE;", "RETURN;"][r.weighted(&[3, 2, 1])];
                let out = splice(src, semi, semi, &format!(" {what}"));
                let k = if site.in_loop { "jump_in_loop" } else { "jump_outside_loop" };
                return done(out, k, "", what, semi);
            }
            9 => {
                if vars.is_empty() || site.is_statement() {
                    continue;
                }
                let (new, ty) = &vars[r.pick(vars.len())];
                if site.is_argument() {
                    // keep `name :=` / `name =>` of a named argument
                    if let Some(p) = slot_text.find(":=").map(|p| p + 2).or_else(|| slot_text.find("=>").map(|p| p + 2)) {
                        let out = splice(src, site.start + p, site.end, &format!(" {new}"));
                        return done(out, "replace_slot_with_var", slot_text, &format!("{new}:{ty}"), site.start);
                    }
                }
                let out = splice(src, site.start, site.end, new);
                return done(out, "replace_slot_with_var", slot_text, &format!("{new}:{ty}"), site.start);
            }
            10 => {
                if site.is_statement() {
                    continue;
                }
                if site.is_argument() && (slot_text.contains(":=") || slot_text.contains("=>")) {
                    continue;
                }
                let out = splice(src, site.start, site.end, "'abc'");
                return done(out, "replace_slot_with_string", slot_text, "'abc'", site.start);
            }
            12 => {
                if var_toks.is_empty() {
                    continue;
                }
                let si = var_toks[r.pick(var_toks.len())];
                let old = c.text(si);
                let old_ty = vars.iter().find(|(n, _)| n == old).map(|(_, t)| t.clone()).unwrap_or_default();
                let pool: Vec<&(String, String)> = vars.iter().filter(|(n, t)| n != old && !t.is_empty() && *t == old_ty).collect();
                if pool.is_empty() {
                    continue;
                }
                let (new, _) = pool[r.pick(pool.len())];
                let tok = &c.toks[c.sig[si]];
                let out = splice(src, tok.start, tok.end, new);
                return done(out, "swap_var_same_type", &format!("{old}:{old_ty}"), &format!("{new}:{old_ty}"), tok.start);
            }
            13 => {
                // another integer label (plain digits keep the selector's type)
                if !slot_text.chars().all(|ch| ch.is_ascii_digit() || ch == '-') || slot_text.is_empty() {
                    continue;
                }
                let new = format!("{}", 40 + r.pick(60));
                let out = splice(src, site.start, site.end, &new);
                return done(out, "same_type_label", slot_text, &new, site.start);
            }
            _ => {
                // method / THIS / SUPER call with an emptied argument list (wrong count)
                let Some(open) = slot_text.find('(') else { continue };
                let Some(close) = slot_text.rfind(')') else { continue };
                if close <= open + 1 {
                    // no arguments: add one
                    let out = splice(src, site.start + open + 1, site.start + close, "DINT#1");
                    return done(out, "extra_call_arg", slot_text, "DINT#1", site.start);
                }
                let out = splice(src, site.start + open + 1, site.start + close, "");
                return done(out, "empty_call_args", slot_text, "", site.start);
            }
        }
    }
    None
}
