//! C01 generator extension over the printed `stgen` program (text level, type directed):
//! standard functions at type extremes, bit strings and shifts, strings with out-of-range
//! positions, TIME/DATE/TOD/DT (and L-variants) arithmetic functions at the representable
//! limits, every `*_TO_*` conversion the checker allows, REF_TO with NULL dereference,
//! 1-3-dimensional indices at and beyond the bounds, FUNCTION / METHOD locals and FB
//! VAR_TEMP whose initialisers can fault, EN/ENO, classes and FBs with THIS / SUPER, a
//! task-associated FB instance, AT-bound variables.
//!
//! Everything is a deterministic function of a choice tape. Expressions are exactly typed
//! (typed literals, same-type operands) so that open finding F8 (assignments keep the
//! expression's type) cannot be what a case trips over.

use crate::engine::tape::{Reader, Tape};
use crate::stgen::ast::{Elem, Val};

#[derive(Clone, Copy, Debug, PartialEq, Eq, Hash, PartialOrd, Ord)]
pub enum T {
    Bool,
    SInt,
    Int,
    DInt,
    LInt,
    USInt,
    UInt,
    UDInt,
    ULInt,
    Real,
    LReal,
    Byte,
    Word,
    DWord,
    LWord,
    Time,
    LTime,
    Date,
    Tod,
    Dt,
    LDate,
    LTod,
    Ldt,
    Str,
    WStr,
    Char,
    WChar,
}

pub const INTS: [T; 8] = [
    T::Int,
    T::DInt,
    T::SInt,
    T::LInt,
    T::USInt,
    T::UInt,
    T::UDInt,
    T::ULInt,
];
pub const BITS: [T; 4] = [T::Byte, T::Word, T::DWord, T::LWord];
pub const ALL: [T; 27] = [
    T::Bool,
    T::SInt,
    T::Int,
    T::DInt,
    T::LInt,
    T::USInt,
    T::UInt,
    T::UDInt,
    T::ULInt,
    T::Real,
    T::LReal,
    T::Byte,
    T::Word,
    T::DWord,
    T::LWord,
    T::Time,
    T::LTime,
    T::Date,
    T::Tod,
    T::Dt,
    T::LDate,
    T::LTod,
    T::Ldt,
    T::Str,
    T::WStr,
    T::Char,
    T::WChar,
];

impl T {
    pub fn name(self) -> &'static str {
        match self {
            T::Bool => "BOOL",
            T::SInt => "SINT",
            T::Int => "INT",
            T::DInt => "DINT",
            T::LInt => "LINT",
            T::USInt => "USINT",
            T::UInt => "UINT",
            T::UDInt => "UDINT",
            T::ULInt => "ULINT",
            T::Real => "REAL",
            T::LReal => "LREAL",
            T::Byte => "BYTE",
            T::Word => "WORD",
            T::DWord => "DWORD",
            T::LWord => "LWORD",
            T::Time => "TIME",
            T::LTime => "LTIME",
            T::Date => "DATE",
            T::Tod => "TOD",
            T::Dt => "DT",
            T::LDate => "LDATE",
            T::LTod => "LTOD",
            T::Ldt => "LDT",
            T::Str => "STRING",
            T::WStr => "WSTRING",
            T::Char => "CHAR",
            T::WChar => "WCHAR",
        }
    }
    pub fn from_elem(e: Elem) -> T {
        match e {
            Elem::Bool => T::Bool,
            Elem::SInt => T::SInt,
            Elem::Int => T::Int,
            Elem::DInt => T::DInt,
            Elem::LInt => T::LInt,
            Elem::USInt => T::USInt,
            Elem::UInt => T::UInt,
            Elem::UDInt => T::UDInt,
            Elem::ULInt => T::ULInt,
            Elem::Real => T::Real,
            Elem::LReal => T::LReal,
            Elem::Time => T::Time,
        }
    }
    pub fn elem(self) -> Option<Elem> {
        Some(match self {
            T::SInt => Elem::SInt,
            T::Int => Elem::Int,
            T::DInt => Elem::DInt,
            T::LInt => Elem::LInt,
            T::USInt => Elem::USInt,
            T::UInt => Elem::UInt,
            T::UDInt => Elem::UDInt,
            T::ULInt => Elem::ULInt,
            _ => return None,
        })
    }
    pub fn is_int(self) -> bool {
        self.elem().is_some()
    }
    pub fn is_signed(self) -> bool {
        matches!(self, T::SInt | T::Int | T::DInt | T::LInt)
    }
    pub fn is_real(self) -> bool {
        matches!(self, T::Real | T::LReal)
    }
    pub fn is_num(self) -> bool {
        self.is_int() || self.is_real()
    }
    pub fn is_bits(self) -> bool {
        matches!(self, T::Byte | T::Word | T::DWord | T::LWord)
    }
    pub fn width(self) -> u32 {
        match self {
            T::Bool => 1,
            T::SInt | T::USInt | T::Byte | T::Char => 8,
            T::Int | T::UInt | T::Word | T::WChar => 16,
            T::DInt | T::UDInt | T::DWord | T::Real => 32,
            _ => 64,
        }
    }
    /// Types whose order comparison the checker accepts.
    pub fn is_ordered(self) -> bool {
        !matches!(self, T::Bool | T::Char | T::WChar)
    }
}

/// The conversion table of the checker (`is_conversion_allowed`), src != dst.
pub fn conversion_allowed(src: T, dst: T) -> bool {
    if src == dst {
        return false;
    }
    if src.is_num() && dst.is_num() {
        return true;
    }
    if src.is_bits() && dst.is_bits() {
        return true;
    }
    if (src == T::Bool || src.is_bits()) && dst.is_int() {
        return true;
    }
    if src.is_int() && dst.is_bits() {
        return true;
    }
    matches!(
        (src, dst),
        (T::DWord, T::Real)
            | (T::LWord, T::LReal)
            | (T::Real, T::DWord)
            | (T::LReal, T::LWord)
            | (T::LTime, T::Time)
            | (T::Time, T::LTime)
            | (T::Ldt, T::Dt)
            | (T::Ldt, T::Date)
            | (T::Ldt, T::LTod)
            | (T::Ldt, T::Tod)
            | (T::Dt, T::Ldt)
            | (T::Dt, T::Date)
            | (T::Dt, T::LTod)
            | (T::Dt, T::Tod)
            | (T::LTod, T::Tod)
            | (T::Tod, T::LTod)
            | (T::WStr, T::Str)
            | (T::WStr, T::WChar)
            | (T::Str, T::WStr)
            | (T::Str, T::Char)
            | (T::WChar, T::WStr)
            | (T::WChar, T::Char)
            | (T::Char, T::Str)
            | (T::Char, T::WChar)
    )
}

#[derive(Clone, Debug)]
pub struct XVar {
    pub name: String,
    pub ty: T,
    pub writable: bool,
}

#[derive(Clone, Debug)]
pub struct XArr {
    pub name: String,
    pub dims: Vec<(i64, i64)>,
    pub elem: T,
}

/// AT-bound variable the trace can drive: (address, IEC type of the image cell).
#[derive(Clone, Debug)]
pub struct DirectIn {
    pub address: String,
    pub cell: &'static str,
}

#[derive(Clone, Debug, Default)]
pub struct ExtOut {
    /// POUs (and TYPEs) placed before the base program text.
    pub prelude: String,
    /// VAR blocks for PROGRAM Main.
    pub main_vars: String,
    /// Statements placed at the start / end of Main's body.
    pub pre: Vec<String>,
    pub post: Vec<String>,
    /// `(xtfb WITH XT)`-style association wanted: name of the FB instance variable in Main.
    pub task_fb: Option<String>,
    pub direct_inputs: Vec<DirectIn>,
    /// Writable elementary ext variables of Main (the trace may set them): (name, type).
    pub inputs: Vec<(String, T)>,
    pub features: Vec<String>,
    pub excluded: Vec<String>,
}

/// Switches for shapes of *open* findings: off = excluded by construction (and counted).
#[derive(Clone, Debug)]
pub struct ExtCfg {
    pub neg_shift_count: bool,
    pub non_ascii_strings: bool,
    pub int_pow_negative: bool,
    pub at_unsupported_types: bool,
    pub task_fb: bool,
    pub invalid_bcd: bool,
    pub string_to_char_any: bool,
    /// JMP out of a nested block / loop body to a label of an enclosing block (F51).
    pub jmp_nested: bool,
    pub max_stmts: usize,
}

/// What a generated callee body may use (all integer variables have the type `it`).
pub struct CallScope {
    /// "function:d1" | "function:d2" | "method:d1" | "method:d2" | "fb_body:d1" | ...
    pub ctx: &'static str,
    pub it: T,
    /// Inputs first (index 0 is an input), then locals / temporaries / result.
    pub readable: Vec<String>,
    pub writable: Vec<String>,
    pub locals: Vec<String>,
    pub bools: Vec<String>,
    pub bool_w: Vec<String>,
    pub guard: String,
    pub ctrl: String,
    pub callables: Vec<&'static str>,
}

pub struct Ext<'t> {
    r: Reader<'t>,
    cfg: ExtCfg,
    vars: Vec<XVar>,
    arrs: Vec<XArr>,
    /// (ref variable, target type)
    refs: Vec<(String, T)>,
    out: ExtOut,
    depth_cap: u32,
    /// Counter for unique label names.
    labels: u32,
}

fn dummy_prog() -> crate::stgen::ast::Program {
    crate::stgen::ast::Program {
        types: vec![],
        pous: vec![],
        globals: vec![],
        instances: vec![],
    }
}

pub fn int_lit(t: T, v: i128) -> String {
    crate::stgen::print::literal_text(&Val::Int(t.elem().unwrap(), v), &dummy_prog(), true)
}

impl<'t> Ext<'t> {
    pub fn new(tape: &'t Tape, cfg: ExtCfg) -> Ext<'t> {
        Ext {
            r: Reader::new(tape),
            cfg,
            vars: Vec::new(),
            arrs: Vec::new(),
            refs: Vec::new(),
            out: ExtOut::default(),
            depth_cap: 3,
            labels: 0,
        }
    }

    /// Formal (named) arguments in a tape-drawn order (formal arguments are order free); the
    /// ascending order is one of the permutations.
    fn permuted(&mut self, mut parts: Vec<String>) -> String {
        let n = parts.len();
        let mut moved = false;
        for i in (1..n).rev() {
            let j = self.r.pick(i + 1);
            if j != i {
                moved = true;
            }
            parts.swap(i, j);
        }
        self.feat(if moved { "named_order:permuted" } else { "named_order:as_declared" });
        parts.join(", ")
    }

    fn new_label(&mut self) -> String {
        self.labels += 1;
        format!("xl{}", self.labels)
    }

    fn feat(&mut self, f: &str) {
        if !self.out.features.iter().any(|x| x == f) {
            self.out.features.push(f.to_string());
        }
    }
    fn excl(&mut self, f: &str) {
        self.out.excluded.push(f.to_string());
    }

    // ------------------------------------------------------------------ literals

    fn int_value(&mut self, t: T) -> i128 {
        let e = t.elem().unwrap();
        let (lo, hi) = e.int_range();
        let clamp = |v: i128| v.max(lo).min(hi);
        match self.r.weighted(&[8, 6, 2, 2]) {
            0 => {
                const S: [i128; 12] = [1, 0, 2, 3, -1, 5, 10, -2, 7, 4, 64, 100];
                clamp(S[self.r.pick(S.len())])
            }
            1 => {
                let b = [hi, lo, hi - 1, lo + 1, -1, 0, 1];
                clamp(b[self.r.pick(b.len())])
            }
            2 => {
                let k = 1 + self.r.pick(e.bits() as usize - 1) as u32;
                let d = [0i128, -1, 1][self.r.pick(3)];
                let sign = if e.is_signed_int() && self.r.flag() {
                    -1
                } else {
                    1
                };
                clamp(sign * ((1i128 << k) + d))
            }
            _ => {
                let span = (hi - lo) as u128 + 1;
                let w = self.r.u64() as u128;
                let off = if span > u64::MAX as u128 {
                    w
                } else {
                    (w * span) >> 64
                };
                clamp(lo + off as i128)
            }
        }
    }

    pub fn lit(&mut self, t: T) -> String {
        match t {
            T::Bool => if self.r.flag() { "TRUE" } else { "FALSE" }.to_string(),
            t if t.is_int() => {
                let v = self.int_value(t);
                int_lit(t, v)
            }
            T::Real => {
                const V: [f32; 14] = [
                    1.0, 0.0, -1.0, 0.5, 2.0, -2.5, 1.0e-3, 3.0e38, -3.0e38, 3.4028235e38, 1.0e-38,
                    16777216.0, 100.0, 1.0e20,
                ];
                let v = V[self.r.pick(V.len())];
                crate::stgen::print::literal_text(&Val::real(v), &dummy_prog(), true)
            }
            T::LReal => {
                const V: [f64; 14] = [
                    1.0,
                    0.0,
                    -1.0,
                    0.5,
                    2.0,
                    -2.5,
                    1.0e-3,
                    1.0e308,
                    -1.0e308,
                    1.7976931348623157e308,
                    1.0e-308,
                    9007199254740992.0,
                    800.0,
                    1.0e19,
                ];
                let v = V[self.r.pick(V.len())];
                crate::stgen::print::literal_text(&Val::lreal(v), &dummy_prog(), true)
            }
            T::Byte | T::Word | T::DWord | T::LWord => {
                let w = t.width();
                let mask: u64 = if w == 64 { u64::MAX } else { (1u64 << w) - 1 };
                let v: u64 = match self.r.weighted(&[3, 3, 2]) {
                    0 => [1u64, 0, 2, 3, 0x0F, 0x10][self.r.pick(6)],
                    1 => [mask, 1u64 << (w - 1), mask >> 1, 0x55555555_55555555 & mask][self.r.pick(4)],
                    _ => self.r.u64() & mask,
                };
                if v > i64::MAX as u64 {
                    // digits beyond i64::MAX are not accepted: build the value by conversion
                    format!("ULINT_TO_LWORD({})", int_lit(T::ULInt, v as i128))
                } else {
                    format!("{}#16#{:X}", t.name(), v)
                }
            }
            T::Time | T::LTime => {
                const V: [&str; 12] = [
                    "1s", "0ms", "1ms", "-5ms", "1ns", "106751d", "-106751d", "1d", "25h", "500ms",
                    "-1ns", "106000d",
                ];
                let p = if t == T::Time { "T#" } else { "LTIME#" };
                format!("{p}{}", V[self.r.pick(V.len())])
            }
            T::Date => {
                const V: [&str; 8] = [
                    "1970-01-01",
                    "2024-02-29",
                    "9999-12-31",
                    "0001-01-01",
                    "2106-02-07",
                    "1969-12-31",
                    "2000-01-01",
                    "1970-01-02",
                ];
                format!("D#{}", V[self.r.pick(V.len())])
            }
            T::LDate => {
                const V: [&str; 5] = [
                    "1970-01-01",
                    "2262-04-11",
                    "1677-09-22",
                    "2024-02-29",
                    "1969-12-31",
                ];
                format!("LDATE#{}", V[self.r.pick(V.len())])
            }
            T::Tod => {
                const V: [&str; 5] = ["00:00:00", "23:59:59.999", "12:30:15", "00:00:00.001", "23:59:59"];
                format!("TOD#{}", V[self.r.pick(V.len())])
            }
            T::LTod => {
                const V: [&str; 4] = ["00:00:00", "23:59:59.999999999", "12:30:15", "00:00:00.000000001"];
                format!("LTOD#{}", V[self.r.pick(V.len())])
            }
            T::Dt => {
                const V: [&str; 6] = [
                    "1970-01-01-00:00:00",
                    "2106-02-07-06:28:15",
                    "9999-12-31-23:59:59",
                    "2024-02-29-12:00:00",
                    "0001-01-01-00:00:00",
                    "1969-12-31-23:59:59",
                ];
                format!("DT#{}", V[self.r.pick(V.len())])
            }
            T::Ldt => {
                const V: [&str; 5] = [
                    "1970-01-01-00:00:00",
                    "2262-04-11-23:47:16",
                    "1677-09-22-00:00:00",
                    "2024-02-29-12:00:00",
                    "1969-12-31-23:59:59",
                ];
                format!("LDT#{}", V[self.r.pick(V.len())])
            }
            T::Str => {
                let mut v: Vec<&str> = vec![
                    "'abc'",
                    "''",
                    "'a'",
                    "'hello world'",
                    "'0123456789012345678901234567890123456789012345678901234567890123456789'",
                    "'a$$b'",
                    "'-12'",
                ];
                if self.cfg.non_ascii_strings {
                    v.push("'h\u{e4}\u{df}'");
                    v.push("'$E9t$E9'");
                } else if self.r.chance(1, 8) {
                    self.excl("F35-string-function-splits-a-non-ASCII-character");
                }
                v[self.r.pick(v.len())].to_string()
            }
            T::WStr => {
                const V: [&str; 6] = ["\"abc\"", "\"\"", "\"a\"", "\"hello wide world\"", "\"h$00E4\u{df}\"", "\"\u{65e5}\u{672c}\""];
                // non-ASCII text reaches STRING through WSTRING_TO_STRING: same dial as F35
                let n = if self.cfg.non_ascii_strings { V.len() } else { 4 };
                V[self.r.pick(n)].to_string()
            }
            T::Char => ["CHAR#'a'", "CHAR#'Z'", "CHAR#'0'"][self.r.pick(3)].to_string(),
            T::WChar => ["WCHAR#\"a\"", "WCHAR#\"Z\""][self.r.pick(2)].to_string(),
            _ => unreachable!(),
        }
    }

    // ------------------------------------------------------------------ expressions

    fn vars_of(&self, t: T) -> Vec<String> {
        self.vars
            .iter()
            .filter(|v| v.ty == t)
            .map(|v| v.name.clone())
            .collect()
    }

    fn any_int(&mut self) -> T {
        INTS[self.r.weighted(&[4, 4, 2, 3, 2, 2, 2, 3])]
    }

    /// A leaf of type `t`: variable, array element (indices possibly out of bounds),
    /// dereferenced reference, literal.
    fn leaf(&mut self, t: T) -> String {
        let vs = self.vars_of(t);
        let arrs: Vec<XArr> = self.arrs.iter().filter(|a| a.elem == t).cloned().collect();
        let refs: Vec<String> = self
            .refs
            .iter()
            .filter(|(_, rt)| *rt == t)
            .map(|(n, _)| n.clone())
            .collect();
        let w = [
            if vs.is_empty() { 0 } else { 6 },
            5,
            if arrs.is_empty() { 0 } else { 3 },
            if refs.is_empty() { 0 } else { 2 },
        ];
        match self.r.weighted(&w) {
            0 => vs[self.r.pick(vs.len())].clone(),
            2 => {
                let a = arrs[self.r.pick(arrs.len())].clone();
                self.feat(&format!("index:{}d", a.dims.len()));
                let ix = self.indices(&a.dims);
                format!("{}[{}]", a.name, ix)
            }
            3 => {
                self.feat("deref");
                format!("{}^", refs[self.r.pick(refs.len())])
            }
            _ => self.lit(t),
        }
    }

    /// Subscripts for `dims`: integer variables / expressions (never constants outside the
    /// bounds: the checker rejects those with E304), at and beyond the bounds at run time.
    fn indices(&mut self, dims: &[(i64, i64)]) -> String {
        let mut parts = Vec::new();
        for (lo, hi) in dims {
            let t = self.any_int();
            // not the base program's CONSTANTs: `(k0 + 3)` is folded by the checker (E304)
            let vs: Vec<String> = self
                .vars
                .iter()
                .filter(|v| v.ty == t && (v.writable || v.name == "xcyc"))
                .map(|v| v.name.clone())
                .collect();
            let p = match self.r.weighted(&[if vs.is_empty() { 0 } else { 5 }, 4, 2]) {
                0 => vs[self.r.pick(vs.len())].clone(),
                1 => {
                    // in-bounds constant (untyped when negative: typed negative subscripts
                    // are mis-folded by the checker, see notes/C02.md)
                    let v = lo + self.r.pick((hi - lo + 1) as usize) as i64;
                    if v < 0 {
                        format!("{v}")
                    } else {
                        int_lit(T::DInt, v as i128)
                    }
                }
                _ => {
                    // never a constant expression (the checker folds those: E304)
                    if vs.is_empty() {
                        let v = lo + self.r.pick((hi - lo + 1) as usize) as i64;
                        if v < 0 { format!("{v}") } else { int_lit(T::DInt, v as i128) }
                    } else {
                        let v = vs[self.r.pick(vs.len())].clone();
                        let l = self.lit(t);
                        let op = ["+", "-", "*"][self.r.pick(3)];
                        format!("({v} {op} {l})")
                    }
                }
            };
            parts.push(p);
        }
        parts.join(", ")
    }

    pub fn expr(&mut self, t: T, depth: u32) -> String {
        if depth == 0 || self.r.chance(1, 4) {
            return self.leaf(t);
        }
        let d = depth - 1;
        match t {
            T::Bool => self.bool_expr(d),
            t if t.is_int() => self.int_expr(t, d),
            t if t.is_real() => self.real_expr(t, d),
            t if t.is_bits() => self.bits_expr(t, d),
            T::Time | T::LTime => self.duration_expr(t, d),
            T::Date | T::Tod | T::Dt | T::LDate | T::LTod | T::Ldt => self.calendar_expr(t, d),
            T::Str | T::WStr => self.string_expr(t, d),
            T::Char | T::WChar => self.char_expr(t, d),
            _ => self.leaf(t),
        }
    }

    fn selection(&mut self, t: T, d: u32) -> String {
        // SEL / MUX / MIN / MAX / LIMIT / MOVE on any elementary type the checker takes
        let a = self.expr(t, d);
        let b = self.expr(t, d);
        let ordered = t.is_ordered() && !matches!(t, T::Str | T::WStr) || matches!(t, T::Str | T::WStr);
        let w = [3, 3, if ordered { 2 } else { 0 }, if ordered { 2 } else { 0 }, if ordered { 2 } else { 0 }, 1];
        match self.r.weighted(&w) {
            0 => {
                self.feat("std:SEL");
                let g = self.expr(T::Bool, d.min(1));
                format!("SEL({g}, {a}, {b})")
            }
            1 => {
                self.feat("std:MUX");
                let kt = self.any_int();
                let three = self.r.flag();
                let n_in: i128 = if three { 3 } else { 2 };
                // the selector hits exactly 0, n-1, n, n+1 (and -1) half of the time
                let k = if self.r.flag() {
                    let (lo, hi) = kt.elem().unwrap().int_range();
                    let v = [n_in - 1, n_in, n_in + 1, 0, -1][self.r.pick(5)];
                    self.feat(&format!("std:MUX:k={}", if v == n_in { "n" } else if v == n_in - 1 { "n-1" } else if v == n_in + 1 { "n+1" } else if v == 0 { "0" } else { "-1" }));
                    int_lit(kt, v.max(lo).min(hi))
                } else {
                    self.expr(kt, d.min(1))
                };
                if three {
                    let c = self.expr(t, d);
                    format!("MUX({k}, {a}, {b}, {c})")
                } else {
                    format!("MUX({k}, {a}, {b})")
                }
            }
            2 => {
                self.feat("std:MIN");
                format!("MIN({a}, {b})")
            }
            3 => {
                self.feat("std:MAX");
                if self.r.flag() {
                    let c = self.expr(t, d);
                    format!("MAX({a}, {b}, {c})")
                } else {
                    format!("MAX({a}, {b})")
                }
            }
            4 => {
                self.feat("std:LIMIT");
                let c = self.expr(t, d);
                format!("LIMIT({a}, {b}, {c})")
            }
            _ => {
                self.feat("std:MOVE");
                format!("MOVE({a})")
            }
        }
    }

    fn conversion_to(&mut self, t: T, d: u32) -> Option<String> {
        let srcs: Vec<T> = ALL.iter().copied().filter(|s| conversion_allowed(*s, t)).collect();
        if srcs.is_empty() {
            return None;
        }
        let s = srcs[self.r.pick(srcs.len())];
        let a = if matches!((s, t), (T::Str, T::Char) | (T::WStr, T::WChar)) && !self.cfg.string_to_char_any {
            // a string whose length is not 1 is open finding F39: single-character literal
            self.excl("F39-string-to-char-length-not-1");
            if s == T::Str { "'a'".to_string() } else { "\"a\"".to_string() }
        } else {
            self.expr(s, d)
        };
        self.feat(&format!("conv:{}_TO_{}", s.name(), t.name()));
        Some(match self.r.weighted(&[6, 2, if s.is_real() && t.is_int() { 3 } else { 0 }]) {
            0 => format!("{}_TO_{}({a})", s.name(), t.name()),
            1 => format!("TO_{}({a})", t.name()),
            _ => {
                self.feat("conv:TRUNC");
                if t == T::DInt && self.r.flag() {
                    format!("TRUNC({a})")
                } else if self.r.flag() {
                    format!("TRUNC_{}({a})", t.name())
                } else {
                    format!("{}_TRUNC_{}({a})", s.name(), t.name())
                }
            }
        })
    }

    fn int_expr(&mut self, t: T, d: u32) -> String {
        match self.r.weighted(&[8, 2, 3, 4, 2, 2, 1, 1]) {
            0 => {
                let a = self.expr(t, d);
                let b = self.expr(t, d);
                let op = ["+", "-", "*", "/", "MOD"][self.r.weighted(&[4, 3, 3, 3, 2])];
                self.feat(&format!("op:{op}"));
                format!("({a} {op} {b})")
            }
            1 => {
                if t.is_signed() {
                    let a = self.leaf(t);
                    if self.r.flag() {
                        self.feat("std:ABS");
                        format!("ABS({a})")
                    } else {
                        self.feat("op:neg");
                        format!("(-{a})")
                    }
                } else {
                    let a = self.expr(t, d);
                    self.feat("std:ABS");
                    format!("ABS({a})")
                }
            }
            2 => self.selection(t, d),
            3 => self.conversion_to(t, d).unwrap_or_else(|| self.leaf(t)),
            4 => {
                // function forms of the arithmetic operators
                let a = self.expr(t, d);
                let b = self.expr(t, d);
                let f = ["ADD", "SUB", "MUL", "DIV"][self.r.pick(4)];
                self.feat(&format!("std:{f}"));
                if f == "ADD" && self.r.flag() {
                    let c = self.expr(t, d);
                    format!("ADD({a}, {b}, {c})")
                } else {
                    format!("{f}({a}, {b})")
                }
            }
            5 => {
                // integer power: a negative exponent is open finding F23
                let a = self.expr(t, d);
                self.feat("op:**int");
                if self.cfg.int_pow_negative && t.is_signed() {
                    let b = self.expr(t, d.min(1));
                    format!("({a} ** {b})")
                } else {
                    if t.is_signed() {
                        self.excl("F23-integer-power-with-negative-exponent");
                    }
                    let e = [0i128, 1, 2, 3, 7, 31, 63, 64][self.r.pick(8)];
                    let (_, hi) = t.elem().unwrap().int_range();
                    format!("({a} ** {})", int_lit(t, e.min(hi)))
                }
            }
            6 => match t {
                T::Int => {
                    let st = if self.r.flag() { T::Str } else { T::WStr };
                    let s = self.expr(st, d);
                    match self.r.pick(3) {
                        0 => {
                            self.feat("std:LEN");
                            format!("LEN({s})")
                        }
                        1 => {
                            self.feat("std:FIND");
                            let s2 = self.expr(st, d);
                            format!("FIND({s}, {s2})")
                        }
                        _ => {
                            self.feat("std:DAY_OF_WEEK");
                            let dd = self.expr(T::Date, d);
                            format!("DAY_OF_WEEK({dd})")
                        }
                    }
                }
                _ => self.leaf(t),
            },
            _ => {
                // BCD
                let (bt, ok) = match t {
                    T::USInt => (T::Byte, true),
                    T::UInt => (T::Word, true),
                    T::UDInt => (T::DWord, true),
                    T::ULInt => (T::LWord, true),
                    _ => (T::Byte, false),
                };
                if ok {
                    self.feat("conv:BCD_TO");
                    let a = if self.cfg.invalid_bcd {
                        self.expr(bt, d)
                    } else {
                        // a nibble above 9 is open finding F38: only valid BCD literals
                        self.excl("F38-invalid-BCD-digit");
                        let digits = (bt.width() / 4) as usize;
                        let mut txt = String::new();
                        for _ in 0..digits.min(15) {
                            txt.push(char::from(b'0' + self.r.pick(10) as u8));
                        }
                        format!("{}#16#{}", bt.name(), txt)
                    };
                    format!("{}_BCD_TO_{}({a})", bt.name(), t.name())
                } else {
                    self.leaf(t)
                }
            }
        }
    }

    fn real_expr(&mut self, t: T, d: u32) -> String {
        match self.r.weighted(&[6, 5, 2, 3, 2, 2]) {
            0 => {
                let a = self.expr(t, d);
                let b = self.expr(t, d);
                let op = ["+", "-", "*", "/", "**"][self.r.weighted(&[3, 3, 3, 3, 2])];
                self.feat(&format!("op:{op}real"));
                format!("({a} {op} {b})")
            }
            1 => {
                const F: [&str; 11] = [
                    "SQRT", "LN", "LOG", "EXP", "SIN", "COS", "TAN", "ASIN", "ACOS", "ATAN", "ABS",
                ];
                let f = F[self.r.pick(F.len())];
                self.feat(&format!("std:{f}"));
                let a = self.expr(t, d);
                format!("{f}({a})")
            }
            2 => self.selection(t, d),
            3 => self.conversion_to(t, d).unwrap_or_else(|| self.leaf(t)),
            4 => {
                self.feat("std:EXPT");
                let a = self.expr(t, d);
                let et = if self.r.flag() { t } else { self.any_int() };
                let b = self.expr(et, d.min(1));
                format!("EXPT({a}, {b})")
            }
            _ => {
                let a = self.expr(t, d);
                let b = self.expr(t, d);
                let f = ["ADD", "SUB", "MUL", "DIV", "ATAN2"][self.r.pick(5)];
                self.feat(&format!("std:{f}"));
                format!("{f}({a}, {b})")
            }
        }
    }

    fn bits_expr(&mut self, t: T, d: u32) -> String {
        match self.r.weighted(&[8, 3, 3]) {
            0 => {
                let f = ["SHL", "SHR", "ROL", "ROR"][self.r.pick(4)];
                self.feat(&format!("std:{f}:{}", t.name()));
                let a = self.expr(t, d);
                // shift counts: 0, width-1, width, width+1, huge; a NEGATIVE count is open
                // finding F34 (TypeMismatch), so the count is an unsigned type or a
                // non-negative literal unless the dial is on
                let nt = self.any_int();
                let n = if self.cfg.neg_shift_count || !nt.is_signed() {
                    self.expr(nt, d.min(1))
                } else {
                    self.excl("F34-negative-shift-count");
                    let w = t.width() as i128;
                    let c = [0, 1, w - 1, w, w + 1, 2 * w, 127][self.r.pick(7)];
                    let (_, hi) = nt.elem().unwrap().int_range();
                    int_lit(nt, c.min(hi))
                };
                format!("{f}({a}, {n})")
            }
            1 => self.selection(t, d),
            _ => self.conversion_to(t, d).unwrap_or_else(|| self.leaf(t)),
        }
    }

    fn duration_expr(&mut self, t: T, d: u32) -> String {
        let l = if t == T::LTime { "L" } else { "" };
        match self.r.weighted(&[5, 4, 3, 2, 2]) {
            0 => {
                let a = self.expr(t, d);
                let b = self.expr(t, d);
                let f = if self.r.flag() { "ADD" } else { "SUB" };
                self.feat(&format!("time:{f}_{l}TIME"));
                match self.r.pick(3) {
                    0 => format!("{f}({a}, {b})"),
                    _ => format!("{f}_{l}TIME({a}, {b})"),
                }
            }
            1 => {
                let a = self.expr(t, d);
                let nt = if self.r.flag() {
                    self.any_int()
                } else if self.r.flag() {
                    T::Real
                } else {
                    T::LReal
                };
                let b = self.expr(nt, d.min(1));
                let f = if self.r.flag() { "MUL" } else { "DIV" };
                self.feat(&format!("time:{f}_{l}TIME"));
                match self.r.pick(3) {
                    0 => format!("{f}({a}, {b})"),
                    _ => format!("{f}_{l}TIME({a}, {b})"),
                }
            }
            2 => {
                // differences of calendar values
                let (st, f) = if t == T::Time {
                    [(T::Date, "SUB_DATE_DATE"), (T::Tod, "SUB_TOD_TOD"), (T::Dt, "SUB_DT_DT")][self.r.pick(3)]
                } else {
                    [(T::LDate, "SUB_LDATE_LDATE"), (T::LTod, "SUB_LTOD_LTOD"), (T::Ldt, "SUB_LDT_LDT")][self.r.pick(3)]
                };
                self.feat(&format!("time:{f}"));
                let a = self.expr(st, d);
                let b = self.expr(st, d);
                if self.r.chance(1, 4) {
                    format!("SUB({a}, {b})")
                } else {
                    format!("{f}({a}, {b})")
                }
            }
            3 => self.selection(t, d),
            _ => self.conversion_to(t, d).unwrap_or_else(|| self.leaf(t)),
        }
    }

    fn calendar_expr(&mut self, t: T, d: u32) -> String {
        let choice = self.r.weighted(&[5, 4, 2, 3]);
        match (choice, t) {
            (0, T::Tod) | (0, T::Dt) | (0, T::LTod) | (0, T::Ldt) => {
                let (dur, tag) = match t {
                    T::Tod => (T::Time, "TOD_TIME"),
                    T::Dt => (T::Time, "DT_TIME"),
                    T::LTod => (T::LTime, "LTOD_LTIME"),
                    _ => (T::LTime, "LDT_LTIME"),
                };
                let a = self.expr(t, d);
                let b = self.expr(dur, d);
                let f = if self.r.flag() { "ADD" } else { "SUB" };
                self.feat(&format!("time:{f}_{tag}"));
                if self.r.chance(1, 4) {
                    format!("{f}({a}, {b})")
                } else {
                    format!("{f}_{tag}({a}, {b})")
                }
            }
            (1, _) => {
                // CONCAT_* from integer components (any integer type, extremes included)
                let n = match t {
                    T::Date => 3,
                    T::Tod | T::LTod => 4,
                    T::Dt | T::Ldt => 7,
                    T::LDate => 0,
                    _ => 0,
                };
                if n == 0 {
                    return self.leaf(t);
                }
                let f = match t {
                    T::Date => "CONCAT_DATE",
                    T::Tod => "CONCAT_TOD",
                    T::LTod => "CONCAT_LTOD",
                    T::Dt => "CONCAT_DT",
                    _ => "CONCAT_LDT",
                };
                self.feat(&format!("time:{f}"));
                let it = self.any_int();
                let mut parts = Vec::new();
                for k in 0..n {
                    // mostly plausible components so that the later ones are reached
                    let p = if self.r.chance(2, 3) {
                        let v: i128 = match (n, k) {
                            (3, 0) | (7, 0) => [1970, 2024, 1, 9999, 0, 127][self.r.pick(6)],
                            (3, 1) | (7, 1) => [1, 12, 2, 0, 13][self.r.weighted(&[4, 3, 2, 1, 1])],
                            (3, 2) | (7, 2) => [1, 28, 31, 29, 0, 32][self.r.weighted(&[4, 3, 2, 2, 1, 1])],
                            _ => [0, 1, 23, 59, 24, 60, 99][self.r.weighted(&[4, 3, 2, 2, 1, 1, 1])],
                        };
                        let (lo, hi) = it.elem().unwrap().int_range();
                        int_lit(it, v.max(lo).min(hi))
                    } else {
                        self.expr(it, d.min(1))
                    };
                    parts.push(p);
                }
                format!("{f}({})", parts.join(", "))
            }
            (2, T::Dt) => {
                self.feat("time:CONCAT_DATE_TOD");
                let a = self.expr(T::Date, d);
                let b = self.expr(T::Tod, d);
                format!("CONCAT_DATE_TOD({a}, {b})")
            }
            (2, T::Ldt) => {
                self.feat("time:CONCAT_DATE_LTOD");
                let a = self.expr(T::Date, d);
                let b = self.expr(T::LTod, d);
                format!("CONCAT_DATE_LTOD({a}, {b})")
            }
            (3, _) => self
                .conversion_to(t, d)
                .unwrap_or_else(|| self.selection(t, d)),
            _ => self.selection(t, d),
        }
    }

    fn pos_arg(&mut self, d: u32) -> String {
        // positions / lengths: any integer type, values at and beyond the string
        let t = self.any_int();
        if self.r.chance(1, 2) {
            let (lo, hi) = t.elem().unwrap().int_range();
            let v: i128 = [0, 1, 2, 3, 4, -1, 100, hi, lo, hi - 1][self.r.pick(10)];
            int_lit(t, v.max(lo).min(hi))
        } else {
            self.expr(t, d.min(1))
        }
    }

    fn string_expr(&mut self, t: T, d: u32) -> String {
        match self.r.weighted(&[10, 2, 2]) {
            0 => {
                let a = self.expr(t, d);
                let f = ["LEFT", "RIGHT", "MID", "CONCAT", "INSERT", "DELETE", "REPLACE"][self.r.pick(7)];
                self.feat(&format!("str:{f}"));
                match f {
                    "LEFT" | "RIGHT" => {
                        let l = self.pos_arg(d);
                        format!("{f}({a}, {l})")
                    }
                    "MID" | "DELETE" => {
                        let l = self.pos_arg(d);
                        let p = self.pos_arg(d);
                        format!("{f}({a}, {l}, {p})")
                    }
                    "CONCAT" => {
                        let b = self.expr(t, d);
                        if self.r.flag() {
                            let c = self.expr(t, d);
                            format!("CONCAT({a}, {b}, {c})")
                        } else {
                            format!("CONCAT({a}, {b})")
                        }
                    }
                    "INSERT" => {
                        let b = self.expr(t, d);
                        let p = self.pos_arg(d);
                        format!("INSERT({a}, {b}, {p})")
                    }
                    _ => {
                        let b = self.expr(t, d);
                        let l = self.pos_arg(d);
                        let p = self.pos_arg(d);
                        format!("REPLACE({a}, {b}, {l}, {p})")
                    }
                }
            }
            1 => self.selection(t, d),
            _ => self.conversion_to(t, d).unwrap_or_else(|| self.leaf(t)),
        }
    }

    fn char_expr(&mut self, t: T, d: u32) -> String {
        if self.r.flag() {
            self.conversion_to(t, d).unwrap_or_else(|| self.leaf(t))
        } else {
            self.leaf(t)
        }
    }

    fn bool_expr(&mut self, d: u32) -> String {
        match self.r.weighted(&[8, 4, 3, 2, 0, 2]) {
            0 => {
                // comparison over any type
                let t = ALL[1 + self.r.pick(ALL.len() - 1)];
                let a = self.expr(t, d);
                let b = self.expr(t, d);
                let ops: &[&str] = if t.is_ordered() {
                    &["=", "<>", "<", "<=", ">", ">="]
                } else {
                    &["=", "<>"]
                };
                let op = ops[self.r.pick(ops.len())];
                self.feat(&format!("cmp:{}", t.name()));
                format!("({a} {op} {b})")
            }
            1 => {
                let a = self.expr(T::Bool, d);
                let b = self.expr(T::Bool, d);
                let op = ["AND", "OR", "XOR"][self.r.pick(3)];
                format!("({a} {op} {b})")
            }
            2 => {
                let t = ALL[1 + self.r.pick(ALL.len() - 1)];
                if !t.is_ordered() {
                    return self.leaf(T::Bool);
                }
                let a = self.expr(t, d);
                let b = self.expr(t, d);
                let f = ["GT", "GE", "EQ", "LE", "LT", "NE"][self.r.pick(6)];
                self.feat(&format!("std:{f}"));
                if f != "NE" && self.r.chance(1, 3) {
                    let c = self.expr(t, d);
                    format!("{f}({a}, {b}, {c})")
                } else {
                    format!("{f}({a}, {b})")
                }
            }
            3 => {
                let a = self.expr(T::Bool, d);
                format!("(NOT {a})")
            }
            4 => {
                self.feat("std:IS_VALID");
                let t = if self.r.flag() { T::Real } else { T::LReal };
                let a = self.expr(t, d);
                format!("IS_VALID({a})")
            }
            _ => {
                // partial access on a bit-string variable (constant, in-range bit index)
                let bt = BITS[self.r.pick(4)];
                let vs = self.vars_of(bt);
                if vs.is_empty() {
                    return self.leaf(T::Bool);
                }
                self.feat("partial_access");
                let v = vs[self.r.pick(vs.len())].clone();
                let bit = [0, bt.width() - 1, 1][self.r.pick(3)];
                format!("{v}.%X{bit}")
            }
        }
    }

    // ------------------------------------------------------------------ declarations

    fn declare_vars(&mut self, base_vars: &[(String, T, bool)]) {
        // base program variables the extension may read (writable ones may be assigned too)
        for (n, t, w) in base_vars {
            self.vars.push(XVar {
                name: n.clone(),
                ty: *t,
                writable: *w,
            });
        }
        let mut text = String::from("VAR\n");
        // two variables of every type; initial values boundary biased
        for (i, t) in ALL.iter().enumerate() {
            let n = if self.r.chance(3, 4) { 2 } else { 1 };
            for k in 0..n {
                let name = format!("x{}{}_{}", t.name().to_ascii_lowercase(), i, k);
                let init = if self.r.chance(3, 4) {
                    format!(" := {}", self.lit(*t))
                } else {
                    String::new()
                };
                text.push_str(&format!("  {name} : {}{init};\n", t.name()));
                self.vars.push(XVar {
                    name: name.clone(),
                    ty: *t,
                    writable: true,
                });
                if !matches!(t, T::Str | T::WStr | T::Char | T::WChar | T::Date | T::Tod | T::Dt | T::LDate | T::LTod | T::Ldt) {
                    self.out.inputs.push((name, *t));
                }
            }
        }
        // arrays: 1-3 dimensions, arbitrary lower bounds
        let shapes: [&[(i64, i64)]; 5] = [
            &[(0, 3)],
            &[(-1, 1), (0, 2)],
            &[(1, 2), (-1, 0), (0, 1)],
            &[(1, 1)],
            &[(10, 12), (1, 2)],
        ];
        let n_arr = 2 + self.r.pick(3);
        for k in 0..n_arr {
            let dims = shapes[self.r.pick(shapes.len())].to_vec();
            let elem = [T::Int, T::DInt, T::USInt, T::Real, T::Bool, T::Word, T::Time, T::Str, T::LInt][self.r.pick(9)];
            let name = format!("xarr{k}");
            let d: Vec<String> = dims.iter().map(|(l, h)| format!("{l}..{h}")).collect();
            text.push_str(&format!("  {name} : ARRAY[{}] OF {};\n", d.join(", "), elem.name()));
            self.arrs.push(XArr { name, dims, elem });
        }
        // references: one that is never assigned (NULL), others bound at run time
        for (k, t) in [T::Int, T::DInt, T::Real, T::Str].iter().enumerate() {
            if k > 0 && !self.r.chance(1, 2) {
                continue;
            }
            let name = format!("xref{k}");
            text.push_str(&format!("  {name} : REF_TO {};\n", t.name()));
            self.refs.push((name, *t));
        }
        text.push_str("  xcyc : INT;\n  xk : INT;\n  xg : INT;\n");
        text.push_str("END_VAR\n");
        self.out.main_vars.push_str(&text);
        self.vars.push(XVar {
            name: "xcyc".into(),
            ty: T::Int,
            writable: false,
        });
    }

    /// AT-bound variables: inputs the trace drives, outputs and markers the program writes.
    fn declare_at_vars(&mut self) {
        if !self.r.chance(1, 2) {
            return;
        }
        self.feat("at_bound");
        let mut text = String::from("VAR\n");
        // (type, size letter, bytes)
        let carried: [(T, &str, u32); 15] = [
            (T::Bool, "X", 1),
            (T::SInt, "B", 1),
            (T::USInt, "B", 1),
            (T::Byte, "B", 1),
            (T::Int, "W", 2),
            (T::UInt, "W", 2),
            (T::Word, "W", 2),
            (T::DInt, "D", 4),
            (T::UDInt, "D", 4),
            (T::DWord, "D", 4),
            (T::Real, "D", 4),
            (T::LInt, "L", 8),
            (T::ULInt, "L", 8),
            (T::LWord, "L", 8),
            (T::LReal, "L", 8),
        ];
        let uncarried: [(T, &str); 8] = [
            (T::Time, "D"),
            (T::Date, "D"),
            (T::Tod, "D"),
            (T::Dt, "D"),
            (T::LTime, "L"),
            (T::LDate, "L"),
            (T::LTod, "L"),
            (T::Ldt, "L"),
        ];
        let n = 1 + self.r.pick(4);
        let mut offset = 0u32;
        for k in 0..n {
            let area = ["I", "Q", "M"][self.r.weighted(&[3, 3, 1])];
            let (t, size) = if self.r.chance(1, 5) {
                if self.cfg.at_unsupported_types {
                    let (t, s) = uncarried[self.r.pick(uncarried.len())];
                    self.feat("at_bound:time_types");
                    (t, s)
                } else {
                    self.excl("F33-AT-binding-of-a-type-the-process-image-cannot-carry");
                    let (t, s, _) = carried[self.r.pick(carried.len())];
                    (t, s)
                }
            } else {
                let (t, s, _) = carried[self.r.pick(carried.len())];
                (t, s)
            };
            let bytes = match size {
                "X" | "B" => 1,
                "W" => 2,
                "D" => 4,
                _ => 8,
            };
            offset = (offset + bytes - 1) / bytes * bytes;
            let addr = if size == "X" {
                format!("%{area}X{offset}.{}", self.r.pick(8))
            } else {
                format!("%{area}{size}{offset}")
            };
            offset += bytes;
            let name = format!("xat{k}");
            text.push_str(&format!("  {name} AT {addr} : {};\n", t.name()));
            self.vars.push(XVar {
                name,
                ty: t,
                writable: area != "I",
            });
            if area == "I" {
                let cell = match size {
                    "X" => "BOOL",
                    "B" => "BYTE",
                    "W" => "WORD",
                    "D" => "DWORD",
                    _ => "LWORD",
                };
                self.out.direct_inputs.push(DirectIn { address: addr, cell });
            }
        }
        text.push_str("END_VAR\n");
        self.out.main_vars.push_str(&text);
    }

    // ------------------------------------------------------------------ call web
    //
    // Extra POUs. Every call shape (EN/ENO with EN constant TRUE / FALSE / input dependent /
    // computed, ENO bound or not, named / positional, defaulted input, VAR_OUTPUT and
    // VAR_IN_OUT bindings, nested calls as arguments, calls in IF / WHILE conditions, FOR
    // headers and CASE selectors, callees whose initialisers fault, method calls through
    // THIS / SUPER, FB invocations) is generated not only in Main but inside FUNCTION bodies,
    // METHOD bodies and FB bodies at call depth 1 and 2, and the caller reads and writes its
    // own inputs, locals, VAR_TEMPs and result AFTER each call.
    //
    //   Main -> XTop (function, depth 1) -> XMid (function, depth 2) -> XEn / XFn / XOut
    //   Main -> xcls.Bump (method, 1) -> THIS.Helper (method, 2) -> leaves
    //   Main -> xder.Stp (method, 1) -> SUPER.Stp (method, 2) -> leaves
    //   Main -> xouter() (FB body, 1) -> inner() = XBase body (FB body, 2) -> leaves / XMid
    //   Main -> xouter.Run (method, 1) -> inner() (FB body, 2)

    fn sc_lit(&mut self, it: T) -> String {
        let (lo, hi) = it.elem().unwrap().int_range();
        let v: i128 = match self.r.weighted(&[10, 2]) {
            0 => [0i128, 1, 2, 3, 5][self.r.pick(5)],
            _ => [hi, lo, hi - 1, -1, 100][self.r.pick(5)],
        };
        int_lit(it, v.max(lo).min(hi))
    }

    fn sc_expr(&mut self, sc: &CallScope) -> String {
        match self.r.weighted(&[6, 3, 1]) {
            0 => sc.readable[self.r.pick(sc.readable.len())].clone(),
            1 => self.sc_lit(sc.it),
            _ => {
                let a = sc.readable[self.r.pick(sc.readable.len())].clone();
                let l = self.sc_lit(sc.it);
                let op = ["+", "-", "*"][self.r.pick(3)];
                format!("({a} {op} {l})")
            }
        }
    }

    /// EN argument: constant TRUE / FALSE, input dependent, computed. Returns (text, label).
    fn sc_en(&mut self, sc: &CallScope) -> (String, &'static str) {
        let wb = if sc.bools.is_empty() { 0 } else { 4 };
        match self.r.weighted(&[4, 2, wb, if wb > 0 { 1 } else { 0 }, 2, 1]) {
            0 => ("FALSE".into(), "en_const_false"),
            1 => ("TRUE".into(), "en_const_true"),
            2 => (sc.bools[self.r.pick(sc.bools.len())].clone(), "en_input"),
            3 => (format!("NOT {}", sc.bools[self.r.pick(sc.bools.len())]), "en_input_negated"),
            4 => {
                let a = self.sc_expr(sc);
                let b = self.sc_expr(sc);
                (format!("({a} > {b})"), "en_computed")
            }
            _ => {
                let a = sc.readable[self.r.pick(sc.readable.len())].clone();
                (format!("({a} <> {a})"), "en_computed_false")
            }
        }
    }

    fn sc_w(&mut self, sc: &CallScope) -> String {
        sc.writable[self.r.pick(sc.writable.len())].clone()
    }

    /// The caller touches its own inputs / locals / temporaries / result after a call.
    fn sc_use(&mut self, sc: &CallScope, out: &mut Vec<String>) {
        let n = 1 + self.r.pick(2);
        for _ in 0..n {
            let w = self.sc_w(sc);
            let r1 = sc.readable[self.r.pick(sc.readable.len())].clone();
            let r2 = sc.readable[self.r.pick(sc.readable.len())].clone();
            let s = match self.r.weighted(&[4, 3, 2, 1, 2]) {
                0 => format!("{w} := {r1};"),
                1 => format!("{w} := {}({r1}, {r2});", if self.r.flag() { "MAX" } else { "MIN" }),
                2 if !sc.bools.is_empty() => {
                    let b = sc.bools[self.r.pick(sc.bools.len())].clone();
                    format!("{w} := SEL({b}, {r1}, {r2});")
                }
                3 => format!("{w} := {r1} + {r2};"),
                _ => format!("IF {r1} >= {r2} THEN {w} := {r2}; END_IF;"),
            };
            out.push(s);
        }
        // always read one INPUT (or first readable) into a writable after the call
        let w = self.sc_w(sc);
        out.push(format!("{w} := {};", sc.readable[0]));
    }

    /// A call of the EN/ENO leaf as an expression (formal call).
    fn sc_en_call(&mut self, sc: &CallScope, labels: &mut Vec<String>) -> String {
        let (en, l) = self.sc_en(sc);
        labels.push(l.to_string());
        let a = self.sc_expr(sc);
        if !sc.bool_w.is_empty() && self.r.chance(2, 3) {
            labels.push("eno_bound".into());
            let ok = sc.bool_w[self.r.pick(sc.bool_w.len())].clone();
            let args = self.permuted(vec![format!("EN := {en}"), format!("a := {a}"), format!("ENO => {ok}")]);
            format!("XEn({args})")
        } else {
            labels.push("eno_unbound".into());
            let args = self.permuted(vec![format!("EN := {en}"), format!("a := {a}")]);
            format!("XEn({args})")
        }
    }

    /// `n` units of (call in some shape; use of the caller's own variables afterwards).
    fn call_units(&mut self, sc: &CallScope, n: usize) -> Vec<String> {
        let mut out = Vec::new();
        for _ in 0..n {
            let mut labels: Vec<String> = Vec::new();
            let w = self.sc_w(sc);
            let has = |c: &str| sc.callables.iter().any(|x| *x == c);
            // weights per shape; unavailable callees get weight 0
            let wt = [
                6,                                   // 0 XEn assignment
                3,                                   // 1 XEn inside an expression
                2,                                   // 2 XFn positional / named
                3,                                   // 3 XOut (named, default omitted, out / in_out)
                2,                                   // 4 XOut positional
                2,                                   // 5 nested calls as arguments
                3,                                   // 6 call in IF condition
                2,                                   // 7 call in WHILE condition
                2,                                   // 8 call in FOR header
                2,                                   // 9 call in CASE selector
                if has("XMid") { 5 } else { 0 },     // 10 XMid (function with calls inside)
                if has("THIS.Helper") { 5 } else { 0 }, // 11
                if has("SUPER.Stp") { 5 } else { 0 },   // 12
                if has("inner") { 6 } else { 0 },       // 13 FB invocation
                2,                                   // 14 call statement, result discarded
                3,                                   // 15 labelled statements and JMP around a call
            ];
            match self.r.weighted(&wt) {
                0 => {
                    let c = self.sc_en_call(sc, &mut labels);
                    out.push(format!("{w} := {c};"));
                }
                1 => {
                    labels.push("in_expression".into());
                    let c = self.sc_en_call(sc, &mut labels);
                    let r = self.sc_expr(sc);
                    let op = ["+", "-", "*"][self.r.pick(3)];
                    if self.r.flag() {
                        out.push(format!("{w} := {r} {op} {c};"));
                    } else {
                        out.push(format!("{w} := {c} {op} {r};"));
                    }
                }
                2 => {
                    labels.push("faulting_initialiser".into());
                    let a = self.sc_expr(sc);
                    let b = self.sc_expr(sc);
                    if self.r.flag() {
                        labels.push("positional".into());
                        out.push(format!("{w} := XFn({a}, {b});"));
                    } else {
                        labels.push("named".into());
                        let args = self.permuted(vec![format!("a := {a}"), format!("b := {b}")]);
                        out.push(format!("{w} := XFn({args});"));
                    }
                }
                3 => {
                    labels.push("named".into());
                    labels.push("out_binding".into());
                    labels.push("inout_binding".into());
                    let a = self.sc_expr(sc);
                    let o = self.sc_w(sc);
                    let io = sc.locals[self.r.pick(sc.locals.len())].clone();
                    if self.r.flag() {
                        labels.push("default_omitted".into());
                        let args = self.permuted(vec![format!("a := {a}"), format!("o => {o}"), format!("io := {io}")]);
                        out.push(format!("{w} := XOut({args});"));
                    } else {
                        let d = self.sc_expr(sc);
                        let args = self.permuted(vec![format!("a := {a}"), format!("d := {d}"), format!("o => {o}"), format!("io := {io}")]);
                        out.push(format!("{w} := XOut({args});"));
                    }
                }
                4 => {
                    labels.push("positional".into());
                    labels.push("out_binding".into());
                    labels.push("inout_binding".into());
                    let a = self.sc_expr(sc);
                    let d = self.sc_expr(sc);
                    let o = sc.locals[self.r.pick(sc.locals.len())].clone();
                    let io = sc.locals[self.r.pick(sc.locals.len())].clone();
                    out.push(format!("{w} := XOut({a}, {d}, {o}, {io});"));
                }
                5 => {
                    labels.push("nested_argument".into());
                    let a = self.sc_expr(sc);
                    let b = self.sc_expr(sc);
                    let c = self.sc_expr(sc);
                    match self.r.pick(3) {
                        0 => out.push(format!("{w} := XFn(XEn({a}), {b});")),
                        1 => out.push(format!("{w} := MAX(XFn({a}, {b}), XEn({c}));")),
                        _ => out.push(format!("{w} := XEn(XFn({a}, XEn({b})));")),
                    }
                }
                6 => {
                    labels.push("in_if_condition".into());
                    let c = self.sc_en_call(sc, &mut labels);
                    let r = self.sc_expr(sc);
                    let r2 = self.sc_expr(sc);
                    out.push(format!("IF {c} >= {r} THEN"));
                    out.push(format!("  {w} := {r2};"));
                    if self.r.flag() {
                        let c2 = self.sc_en_call(sc, &mut labels);
                        labels.push("in_elsif_condition".into());
                        out.push(format!("ELSIF {c2} = {} THEN", self.sc_lit(sc.it)));
                        out.push(format!("  {w} := {};", sc.readable[0]));
                    }
                    out.push("END_IF;".into());
                }
                7 => {
                    labels.push("in_while_condition".into());
                    let c = {
                        // argument = the guard, so the call sees a changing input
                        let (en, l) = self.sc_en(sc);
                        labels.push(l.to_string());
                        format!("XEn(EN := {en}, a := {})", sc.guard)
                    };
                    out.push(format!("{} := {};", sc.guard, int_lit(sc.it, 0)));
                    out.push(format!("WHILE ({c} <= {}) AND ({} < {}) DO", int_lit(sc.it, 2), sc.guard, int_lit(sc.it, 3)));
                    out.push(format!("  {} := {} + {};", sc.guard, sc.guard, int_lit(sc.it, 1)));
                    out.push(format!("  {w} := {};", sc.readable[0]));
                    out.push("END_WHILE;".into());
                }
                8 => {
                    labels.push("in_for_header".into());
                    let (en, l) = self.sc_en(sc);
                    labels.push(l.to_string());
                    let from = format!("XEn(EN := {en}, a := {})", int_lit(sc.it, 0));
                    let to = if self.r.flag() {
                        int_lit(sc.it, 3)
                    } else {
                        labels.push("in_for_bound".into());
                        format!("XEn({})", int_lit(sc.it, 1))
                    };
                    out.push(format!("FOR {} := {from} TO {to} DO", sc.ctrl));
                    out.push(format!("  {w} := MAX({}, {});", sc.readable[0], sc.ctrl));
                    out.push("END_FOR;".into());
                }
                9 => {
                    labels.push("in_case_selector".into());
                    let c = self.sc_en_call(sc, &mut labels);
                    let r = self.sc_expr(sc);
                    out.push(format!("CASE {c} OF"));
                    out.push(format!("  0: {w} := {};", sc.readable[0]));
                    out.push(format!("  1, 2: {w} := {r};"));
                    out.push("ELSE".into());
                    out.push(format!("  {w} := {};", sc.locals[0]));
                    out.push("END_CASE;".into());
                }
                10 => {
                    labels.push("function_with_calls".into());
                    let (en, l) = self.sc_en(sc);
                    labels.push(format!("go_{l}"));
                    let a = self.sc_expr(sc);
                    if self.r.flag() {
                        labels.push("named".into());
                        let args = self.permuted(vec![format!("go := {en}"), format!("x := {a}")]);
                        out.push(format!("{w} := XMid({args});"));
                    } else {
                        labels.push("positional".into());
                        out.push(format!("{w} := XMid({en}, {a});"));
                    }
                }
                11 => {
                    labels.push("this_method".into());
                    let (en, l) = self.sc_en(sc);
                    labels.push(format!("go_{l}"));
                    let a = self.sc_expr(sc);
                    if self.r.flag() {
                        labels.push("named".into());
                        let args = self.permuted(vec![format!("go := {en}"), format!("x := {a}")]);
                        out.push(format!("{w} := THIS.Helper({args});"));
                    } else {
                        out.push(format!("{w} := THIS.Helper({en}, {a});"));
                    }
                }
                12 => {
                    labels.push("super_method".into());
                    let a = self.sc_expr(sc);
                    out.push(format!("{w} := SUPER.Stp({a});"));
                }
                13 => {
                    labels.push("fb_invocation".into());
                    let a = self.sc_expr(sc);
                    let (en, l) = self.sc_en(sc);
                    labels.push(format!("go_{l}"));
                    match self.r.pick(4) {
                        0 => out.push("inner();".into()),
                        1 => {
                            let args = self.permuted(vec![format!("i := {a}"), format!("go := {en}")]);
                            out.push(format!("inner({args});"));
                        }
                        2 => {
                            labels.push("out_binding".into());
                            let args = self.permuted(vec![format!("i := {a}"), format!("go := {en}"), format!("o => {w}")]);
                            out.push(format!("inner({args});"));
                        }
                        _ => {
                            labels.push("instance_output_read".into());
                            out.push(format!("inner(go := {en});"));
                            out.push(format!("{w} := inner.o;"));
                        }
                    }
                }
                15 => {
                    let c = self.sc_en_call(sc, &mut labels);
                    let l1 = self.new_label();
                    if self.cfg.jmp_nested && self.r.chance(2, 3) {
                        // backward jump out of an IF: a loop bounded by the down-counter
                        labels.push("jmp_backward_bounded".into());
                        out.push(format!("{} := {};", sc.guard, int_lit(sc.it, 3)));
                        out.push(format!("{l1}: {} := {} - {};", sc.guard, sc.guard, int_lit(sc.it, 1)));
                        out.push(format!("{w} := {c};"));
                        out.push(format!("IF {} > {} THEN", sc.guard, int_lit(sc.it, 0)));
                        out.push(format!("  JMP {l1};"));
                        out.push("END_IF;".into());
                    } else {
                        labels.push("jmp_forward".into());
                        out.push(format!("JMP {l1};"));
                        out.push(format!("{w} := {};", sc.readable[0]));
                        out.push(format!("{l1}: {w} := {c};"));
                    }
                }
                _ => {
                    labels.push("call_statement".into());
                    let c = self.sc_en_call(sc, &mut labels);
                    out.push(format!("{c};"));
                }
            }
            for l in labels {
                self.feat(&format!("call@{}:{}", sc.ctx, l));
            }
            self.feat(&format!("callctx:{}", sc.ctx));
            self.sc_use(sc, &mut out);
        }
        out
    }

    fn declare_pous(&mut self) {
        let mut p = String::new();
        let it = [T::DInt, T::Int, T::SInt, T::LInt, T::UInt, T::USInt, T::ULInt][self.r.weighted(&[4, 3, 2, 2, 2, 1, 1])];
        let n = it.name();
        let one = int_lit(it, 1);
        let fault_exprs = |a: &str, b: &str, r: &mut Reader<'_>| -> String {
            match r.pick(5) {
                0 => format!("{a} / {b}"),
                1 => format!("{a} MOD {b}"),
                2 => format!("{a} + {b}"),
                3 => format!("{a} * {b}"),
                _ => format!("{a} - {b}"),
            }
        };
        let indent = |v: Vec<String>| -> String { v.into_iter().map(|l| format!("  {l}\n")).collect::<String>() };
        let locals_decl = format!("  l1 : {n};\n  l2 : {n} := {one};\n  g : {n};\n  k : {n};\n  ok : BOOL;\n");
        let mk_scope = |ctx: &'static str, inputs: &[&str], extra_w: &[&str], bools: &[&str], callables: &[&'static str]| -> CallScope {
            let mut readable: Vec<String> = inputs.iter().map(|s| s.to_string()).collect();
            readable.extend(["l1", "l2"].iter().map(|s| s.to_string()));
            readable.extend(extra_w.iter().map(|s| s.to_string()));
            let mut writable: Vec<String> = vec!["l1".into(), "l2".into()];
            writable.extend(extra_w.iter().map(|s| s.to_string()));
            CallScope {
                ctx,
                it,
                readable,
                writable,
                locals: vec!["l1".into(), "l2".into()],
                bools: bools.iter().map(|s| s.to_string()).collect(),
                bool_w: vec!["ok".into()],
                guard: "g".into(),
                ctrl: "k".into(),
                callables: callables.to_vec(),
            }
        };

        // --- leaves
        let fe = fault_exprs("a", "b", &mut self.r);
        p.push_str(&format!(
            "FUNCTION XFn : {n}\nVAR_INPUT\n  a : {n};\n  b : {n};\nEND_VAR\nVAR\n  t : {n} := {fe};\nEND_VAR\n  XFn := t;\nEND_FUNCTION\n\n"
        ));
        let en_body = if self.r.chance(1, 3) { format!("a + {one}") } else { "a".to_string() };
        p.push_str(&format!(
            "FUNCTION XEn : {n}\nVAR_INPUT\n  EN : BOOL;\n  a : {n};\nEND_VAR\nVAR_OUTPUT\n  ENO : BOOL;\nEND_VAR\n  XEn := {en_body};\nEND_FUNCTION\n\n"
        ));
        let dflt = self.sc_lit(it);
        p.push_str(&format!(
            "FUNCTION XOut : {n}\nVAR_INPUT\n  a : {n};\n  d : {n} := {dflt};\nEND_VAR\nVAR_OUTPUT\n  o : {n};\nEND_VAR\nVAR_IN_OUT\n  io : {n};\nEND_VAR\n  o := a;\n  io := d;\n  XOut := MAX(a, d);\nEND_FUNCTION\n\n"
        ));

        // --- functions with calls inside: XMid (depth 1 from Main, depth 2 via XTop), XTop
        let sc = mk_scope("function:d2", &["x"], &["XMid"], &["go"], &["XEn", "XFn", "XOut"]);
        let nu = 1 + self.r.pick(4);
        let body = self.call_units(&sc, nu);
        p.push_str(&format!(
            "FUNCTION XMid : {n}\nVAR_INPUT\n  go : BOOL;\n  x : {n};\nEND_VAR\nVAR\n{locals_decl}END_VAR\n  XMid := x;\n{}  XMid := MAX(l1, x);\nEND_FUNCTION\n\n",
            indent(body)
        ));
        let sc = mk_scope("function:d1", &["x"], &["XTop"], &["go"], &["XEn", "XFn", "XOut", "XMid"]);
        let nu = 1 + self.r.pick(4);
        let body = self.call_units(&sc, nu);
        p.push_str(&format!(
            "FUNCTION XTop : {n}\nVAR_INPUT\n  go : BOOL;\n  x : {n};\nEND_VAR\nVAR\n{locals_decl}END_VAR\n  XTop := x;\n{}  XTop := MIN(l2, x);\nEND_FUNCTION\n\n",
            indent(body)
        ));

        // --- class: Helper (method, depth 2 via Bump), Bump (method, depth 1; faulting local)
        let sc = mk_scope("method:d2", &["x", "n"], &["Helper"], &["go"], &["XEn", "XFn", "XOut"]);
        let nu = 1 + self.r.pick(3);
        let helper = self.call_units(&sc, nu);
        let sc = mk_scope("method:d1", &["d", "n"], &["Bump", "loc"], &[], &["XEn", "XFn", "XOut", "XMid", "THIS.Helper"]);
        let nu = 1 + self.r.pick(3);
        let bump = self.call_units(&sc, nu);
        let me = fault_exprs("n", "d", &mut self.r);
        let n_init = self.sc_lit(it);
        p.push_str(&format!(
            "CLASS XCls\nVAR PUBLIC\n  n : {n} := {n_init};\nEND_VAR\nMETHOD PUBLIC Helper : {n}\nVAR_INPUT\n  go : BOOL;\n  x : {n};\nEND_VAR\nVAR\n{locals_decl}END_VAR\n  Helper := x;\n{}  Helper := MAX(l2, x);\nEND_METHOD\nMETHOD PUBLIC Bump : {n}\nVAR_INPUT\n  d : {n};\nEND_VAR\nVAR\n  loc : {n} := {me};\n{locals_decl}END_VAR\n  Bump := d;\n{}  n := loc;\n  Bump := THIS.n;\nEND_METHOD\nEND_CLASS\n\n",
            indent(helper),
            indent(bump)
        ));

        // --- FB hierarchy: XBase body (FB body, depth 1 from Main / 2 via XOuter) with
        // VAR_TEMPs read and written after the calls; method Stp (depth 1 / 2 via SUPER)
        let sc = mk_scope("method:d2:super", &["d", "acc"], &["Stp"], &["go"], &["XEn", "XFn", "XOut"]);
        let nu = 1 + self.r.pick(3);
        let stp = self.call_units(&sc, nu);
        let sc = mk_scope("fb_body:d2", &["i", "acc"], &["tmp", "t2", "o"], &["go"], &["XEn", "XFn", "XOut", "XMid"]);
        let nu = 1 + self.r.pick(4);
        let base_body = self.call_units(&sc, nu);
        let te = fault_exprs("i", "acc", &mut self.r);
        let init_acc = self.sc_lit(it);
        p.push_str(&format!(
            "FUNCTION_BLOCK XBase\nVAR_INPUT\n  i : {n};\n  go : BOOL;\nEND_VAR\nVAR_OUTPUT\n  o : {n};\nEND_VAR\nVAR PUBLIC\n  acc : {n} := {init_acc};\nEND_VAR\nVAR\n{locals_decl}END_VAR\nVAR_TEMP\n  tmp : {n} := {te};\n  t2 : {n};\nEND_VAR\nMETHOD PUBLIC Stp : {n}\nVAR_INPUT\n  d : {n};\nEND_VAR\nVAR\n  l1 : {n};\n  l2 : {n} := {one};\n  g : {n};\n  k : {n};\n  ok : BOOL;\nEND_VAR\n  Stp := d;\n{}  acc := acc + d;\n  Stp := acc;\nEND_METHOD\n{}  o := tmp;\n  t2 := i;\n  acc := acc + {one};\nEND_FUNCTION_BLOCK\n\n",
            indent(stp),
            indent(base_body)
        ));
        let sc = mk_scope("method:d1", &["d", "acc"], &["Stp"], &["go"], &["XEn", "XFn", "XOut", "XMid", "SUPER.Stp"]);
        let nu = 1 + self.r.pick(3);
        let der = self.call_units(&sc, nu);
        p.push_str(&format!(
            "FUNCTION_BLOCK XDer EXTENDS XBase\nMETHOD PUBLIC OVERRIDE Stp : {n}\nVAR_INPUT\n  d : {n};\nEND_VAR\nVAR\n  l1 : {n};\n  l2 : {n} := {one};\n  g : {n};\n  k : {n};\n  ok : BOOL;\nEND_VAR\n  Stp := d;\n{}  Stp := SUPER.Stp(d) * {};\n  l1 := d;\n  Stp := MAX(Stp, l1);\nEND_METHOD\nMETHOD PUBLIC Peek : {n}\n  Peek := THIS.acc;\nEND_METHOD\nEND_FUNCTION_BLOCK\n\n",
            indent(der),
            int_lit(it, 2)
        ));
        // --- XOuter: FB body (depth 1) invoking a nested instance (XBase body at depth 2),
        // method Run (depth 1) invoking it too
        let sc = mk_scope("method:d1:fb", &["d", "i"], &["Run", "st"], &["go"], &["XEn", "XFn", "XOut", "inner"]);
        let nu = 1 + self.r.pick(3);
        let run = self.call_units(&sc, nu);
        let sc = mk_scope("fb_body:d1", &["i", "st"], &["t2", "o"], &["go"], &["XEn", "XFn", "XOut", "XMid", "inner"]);
        let nu = 1 + self.r.pick(4);
        let outer_body = self.call_units(&sc, nu);
        p.push_str(&format!(
            "FUNCTION_BLOCK XOuter\nVAR_INPUT\n  i : {n};\n  go : BOOL;\nEND_VAR\nVAR_OUTPUT\n  o : {n};\nEND_VAR\nVAR PUBLIC\n  st : {n};\nEND_VAR\nVAR\n  inner : XBase;\n{locals_decl}END_VAR\nVAR_TEMP\n  t2 : {n};\nEND_VAR\nMETHOD PUBLIC Run : {n}\nVAR_INPUT\n  d : {n};\nEND_VAR\nVAR\n  l1 : {n};\n  l2 : {n} := {one};\n  g : {n};\n  k : {n};\n  ok : BOOL;\nEND_VAR\n  Run := d;\n{}  Run := MAX(l1, d);\nEND_METHOD\n{}  o := MAX(t2, i);\n  st := l1;\nEND_FUNCTION_BLOCK\n\n",
            indent(run),
            indent(outer_body)
        ));

        let mut vars = String::from("VAR\n");
        vars.push_str("  xcls : XCls;\n  xfb : XBase;\n  xder : XDer;\n  xtfb : XBase;\n  xouter : XOuter;\n  xeno : BOOL;\n");
        vars.push_str("END_VAR\n");
        self.out.prelude.push_str(&p);
        self.out.main_vars.push_str(&vars);
        self.out.features.push("oop".into());

        // ---- Main: statements entering the web (go from Main's BOOL variables, which the
        // trace writes; constants; computed)
        let res: Vec<String> = self
            .vars
            .iter()
            .filter(|v| v.ty == it && v.writable && v.name.starts_with('x') && !v.name.starts_with("xat"))
            .map(|v| v.name.clone())
            .collect();
        if res.is_empty() {
            return;
        }
        let bools: Vec<String> = self.vars.iter().filter(|v| v.ty == T::Bool && v.name.starts_with("xbool")).map(|v| v.name.clone()).collect();
        let mut uses: Vec<String> = Vec::new();
        let k = 3 + self.r.pick(6);
        for _ in 0..k {
            let target = res[self.r.pick(res.len())].clone();
            let a = self.expr(it, 1);
            let b = self.expr(it, 1);
            let go = match self.r.weighted(&[3, 2, if bools.is_empty() { 0 } else { 4 }, 2]) {
                0 => "FALSE".to_string(),
                1 => "TRUE".to_string(),
                2 => bools[self.r.pick(bools.len())].clone(),
                _ => self.expr(T::Bool, 1),
            };
            let s = match self.r.pick(14) {
                0 => {
                    self.feat("call:function_faulting_local");
                    format!("{target} := XFn({a}, {b});")
                }
                1 => {
                    self.feat("call:en_eno");
                    {
                        let args = self.permuted(vec![format!("EN := {go}"), format!("a := {a}"), "ENO => xeno".to_string()]);
                        format!("{target} := XEn({args});")
                    }
                }
                2 => {
                    self.feat("call:class_method_this");
                    format!("{target} := xcls.Bump({a});")
                }
                3 => {
                    self.feat("call:fb_var_temp");
                    {
                        let args = self.permuted(vec![format!("i := {a}"), format!("go := {go}"), format!("o => {target}")]);
                        format!("xfb({args});")
                    }
                }
                4 => {
                    self.feat("call:method_super");
                    format!("{target} := xder.Stp({a});")
                }
                5 => {
                    self.feat("call:fb_derived");
                    "xder();".to_string()
                }
                6 => {
                    self.feat("call:method_this");
                    format!("{target} := xder.Peek();")
                }
                7 => {
                    self.feat("call:named_function");
                    {
                        let args = self.permuted(vec![format!("a := {a}"), format!("b := {b}")]);
                        format!("{target} := XFn({args});")
                    }
                }
                8 | 9 => {
                    self.feat("call:function_depth2");
                    {
                        let args = self.permuted(vec![format!("go := {go}"), format!("x := {a}")]);
                        format!("{target} := XTop({args});")
                    }
                }
                10 => {
                    self.feat("call:function_depth1");
                    format!("{target} := XMid({go}, {a});")
                }
                11 => {
                    self.feat("call:fb_nested_instance");
                    {
                        let args = self.permuted(vec![format!("i := {a}"), format!("go := {go}"), format!("o => {target}")]);
                        format!("xouter({args});")
                    }
                }
                12 => {
                    self.feat("call:method_invoking_fb");
                    format!("{target} := xouter.Run({a});")
                }
                _ => {
                    self.feat("call:class_helper_direct");
                    if self.r.flag() {
                        let args = self.permuted(vec![format!("go := {go}"), format!("x := {a}")]);
                        format!("{target} := xcls.Helper({args});")
                    } else {
                        format!("{target} := xcls.Helper({go}, {a});")
                    }
                }
            };
            uses.push(s);
            // Main, too, keeps using its own variables after the call
            let t2 = res[self.r.pick(res.len())].clone();
            uses.push(format!("{t2} := {target};"));
        }
        // the task-associated instance gets its state from Main
        if self.cfg.task_fb && self.r.chance(1, 2) {
            self.out.task_fb = Some("xtfb".into());
            self.feat("task_fb");
            let a = self.expr(it, 1);
            uses.push(format!("xtfb.acc := {a};"));
        } else if !self.cfg.task_fb {
            self.excl("F7-task-FB-with-faulting-VAR_TEMP-initialiser");
        }
        // half of the entering statements run before the base program's body
        let split = self.r.pick(uses.len() / 2 + 1) * 2;
        let tail = uses.split_off(split.min(uses.len()));
        self.out.pre.extend(uses);
        self.out.post.extend(tail);
    }

    // ------------------------------------------------------------------ statements

    fn writable_of(&self, t: T) -> Vec<String> {
        self.vars
            .iter()
            .filter(|v| v.ty == t && v.writable)
            .map(|v| v.name.clone())
            .collect()
    }

    fn simple_stmt(&mut self) -> String {
        let choice = self.r.weighted(&[14, 3, 3, 2, 2, 2]);
        match choice {
            5 => self.formal_std_stmt(),
            1 if !self.arrs.is_empty() => {
                let a = self.arrs[self.r.pick(self.arrs.len())].clone();
                self.feat(&format!("index_write:{}d", a.dims.len()));
                let ix = self.indices(&a.dims);
                let v = self.expr(a.elem, 2);
                format!("{}[{}] := {};", a.name, ix, v)
            }
            2 if !self.refs.is_empty() => {
                let (rn, rt) = self.refs[self.r.pick(self.refs.len())].clone();
                match self.r.pick(4) {
                    0 if rn != "xref0" => {
                        // xref0 is never bound: it stays NULL for the whole run
                        let targets = self.writable_of(rt);
                        let own: Vec<String> = targets.into_iter().filter(|n| n.starts_with('x') && !n.starts_with("xat")).collect();
                        if own.is_empty() {
                            return ";".into();
                        }
                        self.feat("ref:bind");
                        format!("{rn} := REF({});", own[self.r.pick(own.len())])
                    }
                    1 if rn != "xref0" => {
                        self.feat("ref:null_assign");
                        format!("{rn} := NULL;")
                    }
                    2 => {
                        self.feat("ref:deref_write");
                        let v = self.expr(rt, 1);
                        format!("{rn}^ := {v};")
                    }
                    _ => {
                        self.feat("ref:null_test");
                        let ts = self.writable_of(T::Bool);
                        let own: Vec<String> = ts.into_iter().filter(|n| n.starts_with("xbool")).collect();
                        if own.is_empty() {
                            return ";".into();
                        }
                        format!("{} := {rn} = NULL;", own[self.r.pick(own.len())])
                    }
                }
            }
            3 => {
                // SPLIT_* with integer outputs of any width
                let it = self.any_int();
                let outs: Vec<String> = self.writable_of(it).into_iter().filter(|n| n.starts_with('x') && !n.starts_with("xat")).collect();
                if outs.is_empty() {
                    return ";".into();
                }
                let o = |r: &mut Reader<'_>| outs[r.pick(outs.len())].clone();
                let which = self.r.pick(5);
                let (f, st, names): (&str, T, &[&str]) = match which {
                    0 => ("SPLIT_DATE", T::Date, &["YEAR", "MONTH", "DAY"]),
                    1 => ("SPLIT_TOD", T::Tod, &["HOUR", "MINUTE", "SECOND", "MILLISECOND"]),
                    2 => ("SPLIT_LTOD", T::LTod, &["HOUR", "MINUTE", "SECOND", "MILLISECOND"]),
                    3 => ("SPLIT_DT", T::Dt, &["YEAR", "MONTH", "DAY", "HOUR", "MINUTE", "SECOND", "MILLISECOND"]),
                    _ => ("SPLIT_LDT", T::Ldt, &["YEAR", "MONTH", "DAY", "HOUR", "MINUTE", "SECOND", "MILLISECOND"]),
                };
                self.feat(&format!("time:{f}"));
                let mut parts = Vec::new();
                for nme in names {
                    parts.push(format!("{nme} => {}", o(&mut self.r)));
                }
                let input = self.expr(st, 1);
                format!("{f}(IN := {input}, {});", parts.join(", "))
            }
            4 => {
                // partial-access write on a bit string
                let bt = BITS[self.r.pick(4)];
                let vs: Vec<String> = self.writable_of(bt).into_iter().filter(|n| n.starts_with('x') && !n.starts_with("xat")).collect();
                if vs.is_empty() {
                    return ";".into();
                }
                self.feat("partial_access_write");
                let v = vs[self.r.pick(vs.len())].clone();
                let bit = [0, bt.width() - 1][self.r.pick(2)];
                let b = self.expr(T::Bool, 1);
                format!("{v}.%X{bit} := {b};")
            }
            _ => {
                let t = ALL[self.r.pick(ALL.len())];
                let ws = self.writable_of(t);
                if ws.is_empty() {
                    return ";".into();
                }
                let target = ws[self.r.pick(ws.len())].clone();
                let depth = 1 + self.r.pick(self.depth_cap as usize) as u32;
                let e = self.expr(t, depth);
                format!("{target} := {e};")
            }
        }
    }

    /// Standard functions called with FORMAL (named) arguments. Only at statement level:
    /// the checker rejects a formal call nested in another call's argument list.
    fn formal_std_stmt(&mut self) -> String {
        let own = |me: &Ext<'_>, t: T| -> Vec<String> {
            me.writable_of(t).into_iter().filter(|n| n.starts_with('x') && !n.starts_with("xat")).collect()
        };
        let it = self.any_int();
        let bt = BITS[self.r.pick(4)];
        let rt = if self.r.flag() { T::Real } else { T::LReal };
        let st = if self.r.flag() { T::Str } else { T::WStr };
        self.feat("formal_std_call");
        // every argument list is written in a drawn order; the extensible functions (MIN MAX
        // MUX ADD MUL CONCAT GT ..) take 2-4 numbered inputs (no gaps: the checker rejects them;
        // AND / OR / XOR have no function form in this parser)
        let numbered = |me: &mut Ext<'_>, t: T, first: usize, n: usize| -> Vec<String> {
            (0..n).map(|k| format!("IN{} := {}", first + k, me.expr(t, 1))).collect()
        };
        let (t, text) = match self.r.pick(14) {
            0 => {
                let n = 2 + self.r.pick(3);
                let mut parts = numbered(self, it, 0, n);
                parts.push(format!("K := {}", self.expr(it, 1)));
                self.feat("formal_std:MUX");
                (it, format!("MUX({})", self.permuted(parts)))
            }
            1 => {
                let parts = vec![format!("MN := {}", self.expr(it, 1)), format!("IN := {}", self.expr(it, 1)), format!("MX := {}", self.expr(it, 1))];
                (it, format!("LIMIT({})", self.permuted(parts)))
            }
            2 => {
                let parts = vec![format!("IN := {}", self.expr(st, 1)), format!("L := {}", self.pos_arg(1)), format!("P := {}", self.pos_arg(1))];
                (st, format!("MID({})", self.permuted(parts)))
            }
            3 => {
                let f = ["SHL", "SHR", "ROL", "ROR"][self.r.pick(4)];
                let nt = [T::USInt, T::UInt, T::UDInt, T::ULInt][self.r.pick(4)];
                let parts = vec![format!("IN := {}", self.expr(bt, 1)), format!("N := {}", self.expr(nt, 1))];
                (bt, format!("{f}({})", self.permuted(parts)))
            }
            4 | 9 | 10 => {
                let f = ["MAX", "MIN", "ADD", "MUL"][self.r.pick(4)];
                let n = 2 + self.r.pick(3);
                let parts = numbered(self, it, 1, n);
                self.feat(&format!("formal_std:{f}:{n}"));
                (it, format!("{f}({})", self.permuted(parts)))
            }
            5 => {
                let n = 2 + self.r.pick(2);
                let parts = numbered(self, st, 1, n);
                self.feat("formal_std:CONCAT");
                (st, format!("CONCAT({})", self.permuted(parts)))
            }
            6 => {
                let parts = vec![format!("YEAR := {}", self.expr(it, 1)), format!("MONTH := {}", self.expr(it, 1)), format!("DAY := {}", self.expr(it, 1))];
                (T::Date, format!("CONCAT_DATE({})", self.permuted(parts)))
            }
            7 => {
                let parts = vec![format!("IN1 := {}", self.expr(rt, 1)), format!("IN2 := {}", self.expr(it, 1))];
                (rt, format!("EXPT({})", self.permuted(parts)))
            }
            8 => {
                let parts = vec![format!("G := {}", self.expr(T::Bool, 1)), format!("IN0 := {}", self.expr(it, 1)), format!("IN1 := {}", self.expr(it, 1))];
                (it, format!("SEL({})", self.permuted(parts)))
            }
            11 => {
                let f = ["GT", "GE", "EQ", "LE", "LT"][self.r.pick(5)];
                let n = 2 + self.r.pick(2);
                let parts = numbered(self, it, 1, n);
                self.feat(&format!("formal_std:{f}"));
                (T::Bool, format!("{f}({})", self.permuted(parts)))
            }
            12 => {
                let n = 2 + self.r.pick(2);
                let parts = numbered(self, rt, 1, n);
                self.feat("formal_std:MAX_real");
                (rt, format!("{}({})", if self.r.flag() { "MAX" } else { "MIN" }, self.permuted(parts)))
            }
            _ => (rt, format!("{}(IN := {})", ["SQRT", "LN", "EXP", "ASIN"][self.r.pick(4)], self.expr(rt, 1))),
        };
        let ws = own(self, t);
        if ws.is_empty() {
            return ";".into();
        }
        format!("{} := {};", ws[self.r.pick(ws.len())], text)
    }

    /// A condition: on the cycle counter (another branch is taken in every cycle) or random.
    fn cyc_cond(&mut self, k: usize) -> String {
        if self.r.chance(2, 3) {
            format!("xcyc {} {}", ["=", ">", "<"][self.r.weighted(&[4, 1, 1])], int_lit(T::Int, 1 + ((k + self.r.pick(2)) % 5) as i128))
        } else {
            self.expr(T::Bool, 2)
        }
    }

    fn stmt(&mut self, out: &mut Vec<String>) {
        // compound wrappers put IF / ELSIF / ELSE, CASE / ELSE and loop contexts into code that
        // is executed early in Main, with conditions on the cycle counter
        match self.r.weighted(&[8, 4, 4, 3, 2, 2, 2, 2, 2, 1, 1]) {
            7 => {
                // forward jump over a statement
                self.feat("jmp:forward");
                let l = self.new_label();
                let s1 = self.simple_stmt();
                let s2 = self.simple_stmt();
                out.push(format!("JMP {l};"));
                out.push(s1);
                out.push(format!("{l}: {s2}"));
            }
            8 => {
                if !self.cfg.jmp_nested {
                    self.excl("F51-JMP-out-of-a-nested-block");
                    let s = self.simple_stmt();
                    out.push(s);
                    return;
                }
                // backward jump from inside an IF: a loop bounded by a down-counter
                self.feat("jmp:backward_bounded");
                let l = self.new_label();
                let s = self.simple_stmt();
                out.push(format!("xg := {};", int_lit(T::Int, 3)));
                out.push(format!("{l}: xg := xg - {};", int_lit(T::Int, 1)));
                out.push(s);
                out.push(format!("IF xg > {} THEN", int_lit(T::Int, 0)));
                out.push(format!("  JMP {l};"));
                out.push("END_IF;".into());
            }
            9 => {
                if !self.cfg.jmp_nested {
                    self.excl("F51-JMP-out-of-a-nested-block");
                    let s = self.simple_stmt();
                    out.push(s);
                    return;
                }
                // jump out of a loop body (leaves the loop) / out of a CASE arm
                let l = self.new_label();
                let s = self.simple_stmt();
                let s2 = self.simple_stmt();
                if self.r.flag() {
                    self.feat("jmp:out_of_for");
                    out.push(format!("FOR xk := {} TO {} DO", int_lit(T::Int, 0), int_lit(T::Int, 3)));
                    out.push(format!("  IF xk = {} THEN", int_lit(T::Int, 2)));
                    out.push(format!("    JMP {l};"));
                    out.push("  END_IF;".into());
                    out.push(format!("  {s}"));
                    out.push("END_FOR;".into());
                } else {
                    self.feat("jmp:out_of_case");
                    out.push("CASE xcyc OF".into());
                    out.push(format!("  1, 3: JMP {l};"));
                    out.push("ELSE".into());
                    out.push(format!("  {s}"));
                    out.push("END_CASE;".into());
                }
                out.push(format!("{l}: {s2}"));
            }
            10 => {
                // a chain of forward jumps through labelled empty statements
                self.feat("jmp:chain");
                let a = self.new_label();
                let b = self.new_label();
                let s = self.simple_stmt();
                out.push(format!("JMP {b};"));
                out.push(format!("{a}: ;"));
                out.push(s);
                out.push(format!("{b}: ;"));
            }
            1 => {
                self.feat("wrap:if_else");
                let cond = self.cyc_cond(0);
                let s = self.simple_stmt();
                out.push(format!("IF {cond} THEN"));
                out.push(format!("  {s}"));
                if self.r.flag() {
                    let s2 = self.simple_stmt();
                    out.push("ELSE".into());
                    out.push(format!("  {s2}"));
                }
                out.push("END_IF;".into());
            }
            2 => {
                self.feat("wrap:if_elsif_else");
                let n = 1 + self.r.pick(3);
                let c0 = self.cyc_cond(0);
                let s0 = self.simple_stmt();
                out.push(format!("IF {c0} THEN"));
                out.push(format!("  {s0}"));
                for k in 0..n {
                    let c = self.cyc_cond(k + 1);
                    let s = self.simple_stmt();
                    out.push(format!("ELSIF {c} THEN"));
                    out.push(format!("  {s}"));
                }
                if self.r.chance(2, 3) {
                    let s = self.simple_stmt();
                    out.push("ELSE".into());
                    out.push(format!("  {s}"));
                }
                out.push("END_IF;".into());
            }
            3 => {
                self.feat("wrap:case_else");
                let sel = if self.r.chance(2, 3) { "xcyc".to_string() } else { self.expr(T::Int, 1) };
                out.push(format!("CASE {sel} OF"));
                let s = self.simple_stmt();
                out.push(format!("  1: {s}"));
                let s = self.simple_stmt();
                out.push(format!("  2, 3: {s}"));
                if self.r.flag() {
                    let s = self.simple_stmt();
                    out.push(format!("  4..6: {s}"));
                }
                if self.r.chance(2, 3) {
                    let s = self.simple_stmt();
                    out.push("ELSE".into());
                    out.push(format!("  {s}"));
                }
                out.push("END_CASE;".into());
            }
            4 => {
                self.feat("wrap:for");
                let (from, to, by) = [(0, 2, 1), (3, 1, -1), (0, 4, 2), (1, 1, 1)][self.r.pick(4)];
                let s = self.simple_stmt();
                out.push(format!("FOR xk := {} TO {} BY {} DO", int_lit(T::Int, from), int_lit(T::Int, to), int_lit(T::Int, by)));
                out.push(format!("  {s}"));
                out.push("END_FOR;".into());
            }
            5 => {
                self.feat("wrap:while");
                let c = self.cyc_cond(0);
                let s = self.simple_stmt();
                out.push(format!("xg := {};", int_lit(T::Int, 0)));
                out.push(format!("WHILE (xg < {}) AND ({c} OR (xg < {})) DO", int_lit(T::Int, 3), int_lit(T::Int, 1)));
                out.push(format!("  xg := xg + {};", int_lit(T::Int, 1)));
                out.push(format!("  {s}"));
                out.push("END_WHILE;".into());
            }
            6 => {
                self.feat("wrap:repeat");
                let c = self.cyc_cond(0);
                let s = self.simple_stmt();
                out.push(format!("xg := {};", int_lit(T::Int, 0)));
                out.push("REPEAT".into());
                out.push(format!("  xg := xg + {};", int_lit(T::Int, 1)));
                out.push(format!("  {s}"));
                out.push(format!("UNTIL (xg >= {}) OR {c}", int_lit(T::Int, 2)));
                out.push("END_REPEAT;".into());
            }
            _ => {
                let s = self.simple_stmt();
                out.push(s);
            }
        }
    }

    /// Generate the extension. `base_vars` = elementary variables of the base Main program
    /// (name, type, assignable from the injected top-level statements).
    pub fn generate(mut self, base_vars: &[(String, T, bool)]) -> ExtOut {
        self.declare_vars(base_vars);
        self.declare_at_vars();
        // The call web comes FIRST: it is the longest consumer of the tape, and a reader
        // that has run out of tape answers 0 to every choice (always the same call shape).
        let mut web_pre: Vec<String> = Vec::new();
        let mut web_post: Vec<String> = Vec::new();
        if self.r.chance(3, 4) {
            self.declare_pous();
            web_pre = std::mem::take(&mut self.out.pre);
            web_post = std::mem::take(&mut self.out.post);
        }
        if self.r.exhausted() {
            self.feat("tape_exhausted_after_call_web");
        }
        let n = self.r.pick(self.cfg.max_stmts + 1);
        let n_pre = self.r.pick(n + 1);
        let mut pre = Vec::new();
        pre.push(format!("xcyc := xcyc + {};", int_lit(T::Int, 1)));
        for _ in 0..n_pre {
            self.stmt(&mut pre);
        }
        let mut post = Vec::new();
        for _ in n_pre..n {
            self.stmt(&mut post);
        }
        pre.extend(web_pre);
        post.extend(web_post);
        self.out.pre = pre;
        self.out.post = post;
        if self.r.exhausted() {
            self.feat("tape_exhausted");
        }
        self.out
    }
}
