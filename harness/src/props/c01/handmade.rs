//! Hand-built minimal reproducers of the findings (`tpv c01-mkreplays [dir]` writes them as
//! replay files) and the F6 probe program.

use serde_json::json;

pub const F6_RECURSION: &str = "FUNCTION Rec : DINT\nVAR_INPUT\n  n : DINT;\nEND_VAR\n  Rec := Rec(n + DINT#1);\nEND_FUNCTION\n\nPROGRAM Main\nVAR\n  r : DINT;\nEND_VAR\n  r := Rec(DINT#0);\nEND_PROGRAM\n";

/// (file name, expect, cycles, what, source)
pub fn reproducers() -> Vec<(&'static str, String, usize, &'static str, String)> {
    let p = |vars: &str, body: &str| format!("PROGRAM Main\nVAR\n{vars}END_VAR\n{body}END_PROGRAM\n");
    let mut v: Vec<(&'static str, String, usize, &'static str, String)> = Vec::new();
    let pass = || "pass".to_string();
    let known = |k: &str| format!("known:{k}");
    v.push(("F3-case-unsigned-selector", pass(), 2, "CASE on a USINT selector", p("  s : USINT := USINT#2;\n  x : INT;\n", "  CASE s OF\n    1: x := INT#1;\n    2: x := INT#2;\n  END_CASE;\n")));
    v.push(("F3-case-enum-selector", pass(), 2, "CASE on an enum selector", format!("TYPE\n  E0 : (E0_Red, E0_Green);\nEND_TYPE\n\n{}", p("  s : E0 := E0#E0_Green;\n  x : INT;\n", "  CASE s OF\n    E0#E0_Red: x := INT#1;\n    E0#E0_Green: x := INT#2;\n  END_CASE;\n"))));
    v.push(("F26-return-in-program", pass(), 2, "RETURN in a PROGRAM body", p("  x : INT;\n", "  x := x + INT#1;\n  RETURN;\n  x := INT#100;\n")));
    v.push(("F7-task-fb-var-temp-fault", pass(), 2, "task-associated FB whose VAR_TEMP initialiser faults", "FUNCTION_BLOCK FB\nVAR_INPUT\n  i : DINT;\nEND_VAR\nVAR_OUTPUT\n  o : DINT;\nEND_VAR\nVAR_TEMP\n  t : DINT := DINT#100 / i;\nEND_VAR\n  o := t;\nEND_FUNCTION_BLOCK\n\nPROGRAM Main\nVAR\n  fb : FB;\nEND_VAR\nEND_PROGRAM\n\nCONFIGURATION C\nRESOURCE R ON CPU\n  TASK T (INTERVAL := T#1ms, PRIORITY := 0);\n  PROGRAM Main : Main (fb WITH T);\nEND_RESOURCE\nEND_CONFIGURATION\n".to_string()));
    v.push(("F32-rotate-lword-by-multiple-of-64", pass(), 2, "ROL/ROR of an LWORD by 0 or 64", p("  w : LWORD := LWORD#16#1;\n  r : LWORD;\n  n : INT := INT#0;\n", "  r := ROL(w, n);\n  r := ROR(w, INT#64);\n")));
    v.push(("F36-mid-length-overflow", pass(), 2, "MID/DELETE/REPLACE with a length near LINT max", p("  s : STRING := 'abc';\n  r : STRING;\n  l : LINT := LINT#9223372036854775807;\n", "  r := MID(s, l, INT#2);\n  r := DELETE(s, l, INT#2);\n  r := REPLACE(s, s, l, INT#2);\n")));
    v.push(("F37-concat-date-extreme-year", pass(), 2, "CONCAT_DATE with a year near the LINT limits", p("  d : DATE;\n  y : LINT := LINT#9223372036854775807;\n", "  d := CONCAT_DATE(y, INT#1, INT#1);\n")));
    v.push(("F37-concat-date-min-year", pass(), 2, "CONCAT_DATE with the minimum LINT year", p("  d : DATE;\n  y : LINT := LINT#-9223372036854775807;\n", "  d := CONCAT_DATE(y - LINT#1, INT#1, INT#1);\n")));
    v.push(("F33-at-bound-time", known(super::sig::F33), 2, "x AT %QD0 : TIME", p("  x AT %QD0 : TIME;\n", "  x := T#1s;\n")));
    v.push(("F33-at-bound-date-input", known(super::sig::F33), 2, "x AT %ID0 : TOD", p("  x AT %ID0 : TOD;\n", "")));
    v.push(("F34-negative-shift-count", known(super::sig::F34), 2, "SHL with a negative count", p("  w : WORD := WORD#16#1;\n  r : WORD;\n  n : INT := INT#-1;\n", "  r := SHL(w, n);\n")));
    v.push(("F35-left-splits-utf8", known("F35-string-function-splits-a-non-ASCII-character"), 2, "LEFT cuts a STRING inside a multi-byte character", p("  s : STRING := 'h\u{e4}\u{df}';\n  r : STRING;\n", "  r := LEFT(s, INT#2);\n")));
    v.push(("F38-invalid-bcd-digit", known(super::sig::F38), 2, "BCD_TO with a nibble above 9", p("  w : WORD := WORD#16#000F;\n  u : UINT;\n", "  u := WORD_BCD_TO_UINT(w);\n")));
    v.push(("F39-string-to-char-empty", known(super::sig::F39), 2, "STRING_TO_CHAR of an empty string", p("  s : STRING := '';\n  c : CHAR;\n", "  c := STRING_TO_CHAR(s);\n")));
    v.push(("F40-fb-body-unchecked", pass(), 2, "undefined name in a FUNCTION_BLOCK body must be a compile error (then the program is outside the domain)", "FUNCTION_BLOCK FB\nVAR\n  a : INT;\nEND_VAR\n  a := zz;\nEND_FUNCTION_BLOCK\n\nPROGRAM Main\nVAR\n  fb : FB;\nEND_VAR\n  fb();\nEND_PROGRAM\n".to_string()));
    v.push(("F40-fb-body-exit-outside-loop", pass(), 2, "EXIT outside a loop in a FUNCTION_BLOCK body must be a compile error (then the program is outside the domain)", "FUNCTION_BLOCK FB\nVAR\n  a : INT;\nEND_VAR\n  a := a + INT#1;\n  EXIT;\nEND_FUNCTION_BLOCK\n\nPROGRAM Main\nVAR\n  fb : FB;\nEND_VAR\n  fb();\nEND_PROGRAM\n".to_string()));
    v.push(("F41-initialiser-unchecked", known(super::sig::F41), 2, "VAR_TEMP initialiser BOOL / DINT compiles", p("  b : BOOL;\n  t : DINT;\n", "  t := t;\n").replace("END_VAR\n", "END_VAR\nVAR_TEMP\n  u : DINT := b / DINT#2;\nEND_VAR\n")));
    v.push(("F42-partial-access-on-int", known(super::sig::F42), 2, "b.%X0 on an INT compiles", p("  b : INT;\n  c : BOOL;\n", "  c := b.%X0;\n")));
    v.push(("F43-case-else-unchecked", pass(), 2, "undefined name in the ELSE branch of a CASE must be rejected (compile error) - as a replay this program is simply outside the domain", p("  x : INT;\n", "  CASE x OF\n    1: x := INT#2;\n  ELSE\n    x := INT#3;\n  END_CASE;\n")));
    v.push(("F44-case-real-selector", known(super::sig::F44), 2, "CASE on a REAL selector compiles", p("  r : REAL;\n  x : INT;\n", "  CASE r OF\n    1: x := INT#2;\n  END_CASE;\n")));
    v.push(("F45-real-mod", known(super::sig::F45), 2, "REAL MOD REAL compiles", p("  r : REAL := REAL#5.0;\n  y : REAL;\n", "  y := r MOD REAL#2.0;\n")));
    v.push(("F46-deref-after-null-assignment", pass(), 2, "r := NULL; y := r^ must raise NullReference", p("  r : REF_TO DINT;\n  y : DINT;\n", "  r := NULL;\n  y := r^;\n")));
    v.push(("F47-reference-order-comparison", known(super::sig::F47), 2, "r >= NULL compiles", p("  r : REF_TO INT;\n  b : BOOL;\n", "  b := r >= NULL;\n")));
    v.push(("F48-ampersand-unchecked", pass(), 2, "BOOL & BOOL stays accepted and runs (uint & FALSE is now a compile error, i.e. outside the domain)", p("  a : BOOL := TRUE;\n  b : BOOL;\n", "  b := a & (NOT b);\n")));
    v.push(("F49-fb-var-temp-in-method", known(super::sig::F49), 2, "an FB's VAR_TEMP used in one of its methods compiles", "FUNCTION_BLOCK FB\nVAR_TEMP\n  tmp : DINT;\nEND_VAR\nMETHOD PUBLIC M : DINT\n  M := tmp;\nEND_METHOD\nEND_FUNCTION_BLOCK\n\nPROGRAM Main\nVAR\n  fb : FB;\n  x : DINT;\nEND_VAR\n  x := fb.M();\nEND_PROGRAM\n".to_string()));
    v.push(("F50-unary-minus-on-unsigned", pass(), 2, "-u with u : UINT = 0 is 0; with u <> 0 it must be Overflow like UINT#0 - u", p("  u : UINT;\n  y : UINT;\n  b : BOOL;\n", "  y := -u;\n  b := -u < UINT#1;\n  u := UINT#3;\n  y := -u;\n")));
    v.push(("F51-jmp-out-of-nested-block", pass(), 2, "JMP from inside an IF / a FOR body to a label of the enclosing block", p("  x : INT;\n  j : INT;\n  i : INT;\n", "  j := INT#3;\n  l2: j := j - INT#1;\n  x := x + INT#1;\n  IF j > INT#0 THEN\n    JMP l2;\n  END_IF;\n  FOR i := INT#0 TO INT#3 DO\n    IF i = INT#2 THEN\n      JMP l3;\n    END_IF;\n  END_FOR;\n  l3: x := x + INT#1;\n")));
    v.push(("F52-jmp-into-nested-block", known("F52-jmp-into-a-nested-block"), 2, "JMP to a label inside an IF branch compiles", p("  x : INT;\n  b : BOOL;\n", "  JMP li;\n  IF b THEN\n    li: x := INT#1;\n  END_IF;\n")));
    v.push(("F4-identifier-case", known(super::sig::F4), 2, "identifier written in another case", p("  Counter : INT;\n  y : INT;\n", "  y := counter + INT#1;\n")));
    v.push(("F5-mixed-signedness", known(super::sig::F5), 2, "INT < UINT with a negative INT", p("  a : INT := INT#-1;\n  b : UINT := UINT#1;\n  c : BOOL;\n", "  c := a < b;\n")));
    v.push(("F23-int-pow-negative", known(super::sig::F23), 2, "INT ** negative", p("  a : INT := INT#2;\n  b : INT := INT#-1;\n  c : INT;\n", "  c := a ** b;\n")));
    v.push(("F24-unsigned-for-negative-step", known(super::sig::F24), 2, "unsigned FOR with negative BY", p("  i : UINT;\n  n : INT;\n", "  FOR i := UINT#5 TO UINT#0 BY -1 DO\n    n := n + INT#1;\n  END_FOR;\n")));
    v.push(("F8-conversion-of-drifted-variable", known(super::sig::F8), 2, "x : INT; x := s (SINT) keeps SINT; INT_TO_DINT(x) -> TypeMismatch", p("  s : SINT := SINT#3;\n  x : INT;\n  d : DINT;\n", "  x := s;\n  d := INT_TO_DINT(x);\n")));
    v
}

pub fn write_replays(dir: Option<&str>) -> i32 {
    let dir = dir.unwrap_or("/verif/replays/C01");
    let _ = std::fs::create_dir_all(dir);
    for (name, expect, cycles, what, source) in reproducers() {
        let trace: Vec<serde_json::Value> = (0..cycles).map(|_| json!({"writes": [], "dt_ns": 1_000_000})).collect();
        let rec = json!({
            "property": "C01",
            "search": "case",
            "expect": expect,
            "message": what,
            "case": {"mode": "base", "source": source, "trace": trace}
        });
        let path = format!("{dir}/{name}.json");
        if let Err(e) = std::fs::write(&path, serde_json::to_string_pretty(&rec).unwrap()) {
            eprintln!("cannot write {path}: {e}");
            return 1;
        }
        println!("wrote {path}");
    }
    0
}
