//! Syntactic checker CONTEXTS of a program, enumerated from the toolchain's own parse tree
//! (trust-syntax is only used as a tool here: acceptance of a mutated program is still decided
//! by the compiler). The mutation search draws a context first (uniformly over the contexts
//! that occur) and a site of that context second, so that rare positions (an ELSIF
//! condition, a FOR step, a CASE label, a RETURN expression, a statement in a CASE's ELSE
//! branch ...) are perturbed as often as the ubiquitous ones (assignment right-hand sides).

use trust_syntax::{SyntaxKind as SK, SyntaxNode};

#[derive(Clone, Debug)]
pub struct Site {
    pub ctx: &'static str,
    /// Byte range of the slot (an expression, a label, an argument, a whole statement).
    pub start: usize,
    pub end: usize,
    /// Byte range of the enclosing statement (for declarations: the declaration).
    pub stmt_start: usize,
    pub stmt_end: usize,
    /// Byte range of the enclosing POU (PROGRAM / FUNCTION / FUNCTION_BLOCK / METHOD / CLASS).
    pub pou_start: usize,
    pub pou_end: usize,
    pub in_loop: bool,
    /// For an ELSIF condition: range of the whole IF statement.
    pub if_range: Option<(usize, usize)>,
}

impl Site {
    pub fn is_condition(&self) -> bool {
        matches!(self.ctx, "if_cond" | "elsif_cond" | "while_cond" | "until_cond")
    }
    pub fn is_argument(&self) -> bool {
        self.ctx.starts_with("arg_")
    }
    pub fn is_statement(&self) -> bool {
        self.ctx.starts_with("stmt_in_")
    }
}

fn is_expr(k: SK) -> bool {
    matches!(
        k,
        SK::Literal
            | SK::NameRef
            | SK::BinaryExpr
            | SK::UnaryExpr
            | SK::CallExpr
            | SK::IndexExpr
            | SK::FieldExpr
            | SK::DerefExpr
            | SK::AddrExpr
            | SK::ParenExpr
            | SK::ThisExpr
            | SK::SuperExpr
            | SK::SizeOfExpr
    )
}

fn is_stmt(k: SK) -> bool {
    matches!(
        k,
        SK::AssignStmt
            | SK::IfStmt
            | SK::CaseStmt
            | SK::ForStmt
            | SK::WhileStmt
            | SK::RepeatStmt
            | SK::ReturnStmt
            | SK::ExitStmt
            | SK::ContinueStmt
            | SK::ExprStmt
    )
}

fn is_pou(k: SK) -> bool {
    matches!(k, SK::Program | SK::Function | SK::FunctionBlock | SK::Method | SK::Class)
}

/// Range of a node without leading / trailing trivia.
fn trimmed(n: &SyntaxNode) -> Option<(usize, usize)> {
    let mut first = None;
    let mut last = None;
    for el in n.descendants_with_tokens() {
        if let Some(t) = el.into_token() {
            if t.kind().is_trivia() {
                continue;
            }
            let r = t.text_range();
            let (s, e) = (usize::from(r.start()), usize::from(r.end()));
            if first.is_none() {
                first = Some(s);
            }
            last = Some(e);
        }
    }
    Some((first?, last?))
}

fn exprs(n: &SyntaxNode) -> Vec<SyntaxNode> {
    n.children().filter(|c| is_expr(c.kind())).collect()
}

pub fn sites(source: &str) -> Vec<Site> {
    let parse = trust_syntax::parser::parse(source);
    let root = parse.syntax();
    let mut out: Vec<Site> = Vec::new();
    // trimmed ranges of the POUs, computed once per POU (keyed by the node's raw start)
    let mut pou_ranges: std::collections::BTreeMap<usize, (usize, usize)> = std::collections::BTreeMap::new();
    for n in root.descendants() {
        let k = n.kind();
        // only nodes that can yield a site pay for the range computations below
        if !matches!(
            k,
            SK::IfStmt
                | SK::ElsifBranch
                | SK::WhileStmt
                | SK::RepeatStmt
                | SK::CaseStmt
                | SK::CaseLabel
                | SK::ForStmt
                | SK::AssignStmt
                | SK::ReturnStmt
                | SK::ExprStmt
                | SK::Arg
                | SK::IndexExpr
                | SK::VarDecl
                | SK::CallExpr
        ) {
            continue;
        }
        // ---- enclosing statement / POU / loop
        let stmt = n.ancestors().find(|a| is_stmt(a.kind()) || a.kind() == SK::VarDecl);
        let Some(pou) = n.ancestors().find(|a| is_pou(a.kind())) else {
            continue;
        };
        let key = usize::from(pou.text_range().start());
        let (ps, pe) = match pou_ranges.get(&key) {
            Some(r) => *r,
            None => {
                let Some(r) = trimmed(&pou) else { continue };
                pou_ranges.insert(key, r);
                r
            }
        };
        let in_loop = n
            .ancestors()
            .skip(1)
            .take_while(|a| !is_pou(a.kind()))
            .any(|a| matches!(a.kind(), SK::ForStmt | SK::WhileStmt | SK::RepeatStmt));
        let (ss, se) = stmt.as_ref().and_then(trimmed).unwrap_or((ps, pe));
        let mut push = |ctx: &'static str, slot: &SyntaxNode, if_range: Option<(usize, usize)>| {
            if let Some((s, e)) = trimmed(slot) {
                out.push(Site {
                    ctx,
                    start: s,
                    end: e,
                    stmt_start: ss,
                    stmt_end: se,
                    pou_start: ps,
                    pou_end: pe,
                    in_loop,
                    if_range,
                });
            }
        };
        match k {
            SK::IfStmt => {
                if let Some(e) = exprs(&n).first() {
                    push("if_cond", e, None);
                }
            }
            SK::ElsifBranch => {
                let ifr = n.parent().as_ref().and_then(trimmed);
                if let Some(e) = exprs(&n).first() {
                    push("elsif_cond", e, ifr);
                }
            }
            SK::WhileStmt => {
                if let Some(e) = exprs(&n).first() {
                    push("while_cond", e, None);
                }
            }
            SK::RepeatStmt => {
                if let Some(e) = exprs(&n).last() {
                    push("until_cond", e, None);
                }
            }
            SK::CaseStmt => {
                if let Some(e) = exprs(&n).first() {
                    push("case_selector", e, None);
                }
            }
            SK::CaseLabel => push("case_label", &n, None),
            SK::ForStmt => {
                let es = exprs(&n);
                for (i, e) in es.iter().enumerate() {
                    push(["for_start", "for_to", "for_by"][i.min(2)], e, None);
                }
            }
            SK::AssignStmt => {
                let es = exprs(&n);
                if es.len() >= 2 {
                    push("assign_lhs", &es[0], None);
                    push("assign_rhs", &es[es.len() - 1], None);
                }
            }
            SK::ReturnStmt => {
                if let Some(e) = exprs(&n).first() {
                    push("return_expr", e, None);
                }
            }
            SK::Arg => {
                let text = n.text().to_string();
                let ctx = if text.contains("=>") {
                    "arg_output"
                } else if text.contains(":=") {
                    "arg_named"
                } else {
                    "arg_positional"
                };
                push(ctx, &n, None);
            }
            SK::IndexExpr => {
                // children: base expression, then the subscripts
                for e in exprs(&n).iter().skip(1) {
                    push("subscript", e, None);
                }
            }
            SK::VarDecl => {
                if let Some(e) = exprs(&n).first() {
                    push("initialiser", e, None);
                }
            }
            SK::CallExpr => {
                let callee = n.children().find(|c| is_expr(c.kind()));
                if let Some(c) = callee {
                    if c.kind() == SK::FieldExpr {
                        let recv = c.children().find(|x| is_expr(x.kind()));
                        match recv.map(|r| r.kind()) {
                            Some(SK::ThisExpr) | Some(SK::SuperExpr) => push("this_super_call", &n, None),
                            _ => push("method_call", &n, None),
                        }
                    }
                }
            }
            _ => {}
        }
        // ---- simple statements by where they stand
        if matches!(k, SK::AssignStmt | SK::ExprStmt | SK::ReturnStmt) {
            let branch = n
                .ancestors()
                .skip(1)
                .take_while(|a| !is_pou(a.kind()))
                .find(|a| matches!(a.kind(), SK::ElseBranch | SK::ElsifBranch | SK::CaseBranch | SK::IfStmt | SK::ForStmt | SK::WhileStmt | SK::RepeatStmt));
            let ctx: &'static str = match branch.as_ref().map(|b| (b.kind(), b.parent().map(|p| p.kind()))) {
                Some((SK::ElseBranch, Some(SK::IfStmt))) => "stmt_in_if_else",
                Some((SK::ElseBranch, Some(SK::CaseStmt))) => "stmt_in_case_else",
                Some((SK::ElsifBranch, _)) => "stmt_in_elsif_branch",
                Some((SK::CaseBranch, _)) => "stmt_in_case_branch",
                Some((SK::IfStmt, _)) => "stmt_in_if_then",
                Some((SK::ForStmt, _)) | Some((SK::WhileStmt, _)) | Some((SK::RepeatStmt, _)) => "stmt_in_loop_body",
                _ => match pou.kind() {
                    SK::FunctionBlock => "stmt_in_fb_body",
                    SK::Method => "stmt_in_method_body",
                    SK::Function => "stmt_in_function_body",
                    _ => "stmt_in_program_body",
                },
            };
            push(ctx, &n, None);
        }
    }
    out
}

pub const ALL_CONTEXTS: [&str; 29] = [
    "if_cond",
    "elsif_cond",
    "while_cond",
    "until_cond",
    "case_selector",
    "case_label",
    "for_start",
    "for_to",
    "for_by",
    "assign_lhs",
    "assign_rhs",
    "return_expr",
    "arg_positional",
    "arg_named",
    "arg_output",
    "subscript",
    "initialiser",
    "this_super_call",
    "method_call",
    "stmt_in_if_else",
    "stmt_in_case_else",
    "stmt_in_elsif_branch",
    "stmt_in_case_branch",
    "stmt_in_if_then",
    "stmt_in_loop_body",
    "stmt_in_fb_body",
    "stmt_in_method_body",
    "stmt_in_function_body",
    "stmt_in_program_body",
];
