//! Signatures of OPEN known findings for failures found in mutated programs: error variant
//! + the syntactic shape (in the faulting statement) that causes it. A failure that matches
//! no signature is a VIOLATION. Nothing here is a general exemption: every signature names
//! one error variant and one shape.

use super::mutate::{lex, K};
use super::oracle::Failure;

pub const F4: &str = "F4-identifier-case-mismatch";
pub const F5: &str = "F5-mixed-signedness-negative-operand";
pub const F6: &str = "F6-recursive-call-stack-overflow";
pub const F8: &str = "F8-assignment-keeps-expression-type";
pub const F23: &str = "F23-integer-power-negative-exponent";
pub const F24: &str = "F24-unsigned-for-negative-step";
pub const F34: &str = "F34-negative-shift-count";
pub const F33: &str = "F33-at-binding-unsupported-type";
pub const F40: &str = "F40-function-block-body-not-type-checked";
pub const F41: &str = "F41-declaration-initialiser-not-type-checked";
pub const F42: &str = "F42-partial-access-on-a-non-bit-string";
pub const F43: &str = "F43-case-else-branch-not-type-checked";
pub const F44: &str = "F44-case-selector-of-a-non-integer-type";
pub const F45: &str = "F45-mod-with-a-real-operand";
pub const F47: &str = "F47-order-comparison-of-a-reference";
pub const F49: &str = "F49-fb-var-temp-used-in-a-method";
pub const F38: &str = "F38-invalid-BCD-digit";
pub const F39: &str = "F39-string-to-char-length-not-1";

const SIGNED: [&str; 4] = ["SINT", "INT", "DINT", "LINT"];
const UNSIGNED: [&str; 4] = ["USINT", "UINT", "UDINT", "ULINT"];

/// Declared elementary types of all identifiers of the source: (name, TYPE) for every
/// `name [AT %x] : TYPE` and `FUNCTION name : TYPE`.
pub fn declared(source: &str) -> Vec<(String, String)> {
    let toks: Vec<(K, &str)> = lex(source)
        .into_iter()
        .filter(|t| t.kind != K::Trivia)
        .map(|t| (t.kind, &source[t.start..t.end]))
        .collect();
    let mut out = Vec::new();
    for i in 0..toks.len() {
        if toks[i].0 != K::Word {
            continue;
        }
        let mut m = i + 1;
        if m < toks.len() && toks[m].1.eq_ignore_ascii_case("AT") {
            m += 2;
        }
        if m + 1 < toks.len() && toks[m].1 == ":" && toks[m + 1].0 == K::Word {
            out.push((toks[i].1.to_string(), toks[m + 1].1.to_ascii_uppercase()));
        }
    }
    out
}

fn header(stmt: &str) -> String {
    // the part of a compound statement that is evaluated by the statement itself: up to the
    // first THEN / DO / OF, plus - for an IF - the conditions of its own ELSIF branches
    let toks = lex(stmt);
    let mut out: Option<String> = None;
    let mut depth = 0i32;
    let mut elsif_from: Option<usize> = None;
    for t in &toks {
        if t.kind != K::Word {
            continue;
        }
        let w = stmt[t.start..t.end].to_ascii_uppercase();
        match out {
            None => {
                if matches!(w.as_str(), "THEN" | "DO" | "OF") {
                    out = Some(stmt[..t.end].to_string());
                    depth = 1;
                }
            }
            Some(ref mut text) => match w.as_str() {
                "IF" | "CASE" | "FOR" | "WHILE" | "REPEAT" => depth += 1,
                "END_IF" | "END_CASE" | "END_FOR" | "END_WHILE" | "END_REPEAT" => depth -= 1,
                "ELSIF" if depth == 1 => elsif_from = Some(t.start),
                "THEN" if depth == 1 => {
                    if let Some(from) = elsif_from.take() {
                        text.push(' ');
                        text.push_str(&stmt[from..t.end]);
                    }
                }
                _ => {}
            },
        }
    }
    out.unwrap_or_else(|| stmt.to_string())
}

/// Static types mentioned in a statement: declared types of its identifiers, prefixes of its
/// typed literals, result types of explicit conversions.
fn types_in(stmt: &str, decl: &[(String, String)]) -> Vec<String> {
    let mut out = Vec::new();
    for t in lex(stmt) {
        let text = &stmt[t.start..t.end];
        match t.kind {
            K::Word => {
                let u = text.to_ascii_uppercase();
                if let Some((_, dst)) = u.rsplit_once("_TO_") {
                    out.push(dst.to_string());
                }
                for (n, ty) in decl {
                    if n.eq_ignore_ascii_case(text) {
                        out.push(ty.clone());
                    }
                }
            }
            K::TypedLit => {
                if let Some((p, _)) = text.split_once('#') {
                    out.push(p.to_ascii_uppercase());
                }
            }
            _ => {}
        }
    }
    out
}

/// Is byte offset `at` inside the body of a FUNCTION_BLOCK but outside its METHODs?
pub fn in_fb_body(source: &str, at: usize) -> bool {
    let mut fb_depth = 0i32;
    let mut method_depth = 0i32;
    for t in lex(source) {
        if t.start > at {
            break;
        }
        if t.kind != K::Word {
            continue;
        }
        match source[t.start..t.end].to_ascii_uppercase().as_str() {
            "FUNCTION_BLOCK" => fb_depth += 1,
            "END_FUNCTION_BLOCK" => fb_depth -= 1,
            "METHOD" => method_depth += 1,
            "END_METHOD" => method_depth -= 1,
            _ => {}
        }
    }
    fb_depth > 0 && method_depth == 0
}

const NO_IO_CODEC: [&str; 8] = ["TIME", "DATE", "TOD", "DT", "LTIME", "LDATE", "LTOD", "LDT"];
const IO_CODEC: [&str; 17] = [
    "BOOL", "SINT", "USINT", "BYTE", "CHAR", "INT", "UINT", "WORD", "WCHAR", "DINT", "UDINT", "DWORD", "REAL", "LINT", "ULINT", "LWORD", "LREAL",
];

/// Does the source declare `name AT %addr : T` with a type the process-image codec cannot
/// carry (date/time types, enumerations and other named types)?
pub fn has_uncarried_at(source: &str) -> bool {
    let toks: Vec<(K, &str)> = lex(source)
        .into_iter()
        .filter(|t| t.kind != K::Trivia)
        .map(|t| (t.kind, &source[t.start..t.end]))
        .collect();
    for i in 0..toks.len() {
        if toks[i].1.eq_ignore_ascii_case("AT") && i + 3 < toks.len() && toks[i + 1].0 == K::Direct && toks[i + 2].1 == ":" {
            let ty = toks[i + 3].1.to_ascii_uppercase();
            if NO_IO_CODEC.contains(&ty.as_str()) {
                return true;
            }
            if !IO_CODEC.contains(&ty.as_str()) && ty != "ARRAY" && ty != "STRING" && ty != "WSTRING" {
                return true;
            }
        }
    }
    false
}

/// Nesting depth of (CASE .. ELSE | loops) at byte offset `at`: is the offset inside the
/// ELSE branch of a CASE statement?
pub fn in_case_else(source: &str, at: usize) -> bool {
    // stack of open constructs; for CASE remember whether its ELSE was seen
    let mut stack: Vec<(&'static str, bool)> = Vec::new();
    for t in lex(source) {
        if t.start >= at {
            break;
        }
        if t.kind != K::Word {
            continue;
        }
        match source[t.start..t.end].to_ascii_uppercase().as_str() {
            "CASE" => stack.push(("CASE", false)),
            "IF" => stack.push(("IF", false)),
            "END_CASE" | "END_IF" => {
                stack.pop();
            }
            "ELSE" => {
                if let Some(top) = stack.last_mut() {
                    top.1 = true;
                }
            }
            _ => {}
        }
    }
    stack.iter().any(|(k, e)| *k == "CASE" && *e)
}

/// Declaration initialisers that are more than a literal: `name : T := <expr with an
/// identifier or operator>`; returns true when the source has one that mentions `word`
/// (or any, when `word` is None).
pub fn has_nonliteral_initialiser(source: &str) -> bool {
    let toks: Vec<(K, &str)> = lex(source)
        .into_iter()
        .filter(|t| t.kind != K::Trivia)
        .map(|t| (t.kind, &source[t.start..t.end]))
        .collect();
    let mut in_var = false;
    let mut i = 0;
    while i < toks.len() {
        let u = toks[i].1.to_ascii_uppercase();
        if toks[i].0 == K::Word && (u == "VAR" || u.starts_with("VAR_")) {
            in_var = true;
        } else if u == "END_VAR" {
            in_var = false;
        } else if in_var && toks[i].1 == ":=" {
            // scan to the ';'
            let mut k = i + 1;
            while k < toks.len() && toks[k].1 != ";" {
                let w = toks[k].1.to_ascii_uppercase();
                if toks[k].0 == K::Word && w != "TRUE" && w != "FALSE" && w != "NULL" {
                    return true;
                }
                k += 1;
            }
            i = k;
        }
        i += 1;
    }
    false
}

/// Names declared `name : T := P#...` with an elementary literal prefix P different from
/// the declared elementary type T (the unchecked initialiser stores a P value in a T variable).
pub fn mistyped_initialised_names(source: &str) -> Vec<String> {
    let toks: Vec<(K, &str)> = lex(source)
        .into_iter()
        .filter(|t| t.kind != K::Trivia)
        .map(|t| (t.kind, &source[t.start..t.end]))
        .collect();
    let mut out = Vec::new();
    for i in 0..toks.len() {
        if toks[i].0 == K::Word && i + 4 < toks.len() && toks[i + 1].1 == ":" && toks[i + 2].0 == K::Word && toks[i + 3].1 == ":=" && toks[i + 4].0 == K::TypedLit {
            let ty = toks[i + 2].1.to_ascii_uppercase();
            if let Some((p, _)) = toks[i + 4].1.split_once('#') {
                let p = p.to_ascii_uppercase();
                let elementary = |t: &str| SIGNED.contains(&t) || UNSIGNED.contains(&t) || matches!(t, "REAL" | "LREAL" | "BYTE" | "WORD" | "DWORD" | "LWORD" | "BOOL");
                if elementary(&ty) && elementary(&p) && p != ty {
                    out.push(toks[i].1.to_string());
                }
            }
        }
    }
    out
}

/// Does `name` occur in the initialiser expression of some declaration?
pub fn name_in_initialiser(source: &str, name: &str) -> bool {
    let toks: Vec<(K, &str)> = lex(source)
        .into_iter()
        .filter(|t| t.kind != K::Trivia)
        .map(|t| (t.kind, &source[t.start..t.end]))
        .collect();
    let mut in_var = false;
    let mut i = 0;
    while i < toks.len() {
        let u = toks[i].1.to_ascii_uppercase();
        if toks[i].0 == K::Word && (u == "VAR" || u.starts_with("VAR_")) {
            in_var = true;
        } else if u == "END_VAR" {
            in_var = false;
        } else if in_var && toks[i].1 == ":=" {
            let mut k = i + 1;
            while k < toks.len() && toks[k].1 != ";" {
                if toks[k].0 == K::Word && toks[k].1.eq_ignore_ascii_case(name) {
                    return true;
                }
                k += 1;
            }
            i = k;
        }
        i += 1;
    }
    false
}

fn has_signed_unsigned_literal_mix(tys: &[String]) -> bool {
    tys.iter().any(|t| SIGNED.contains(&t.as_str())) && tys.iter().any(|t| UNSIGNED.contains(&t.as_str()))
}

/// Is `name` declared in a VAR_TEMP block of the source?
pub fn declared_in_var_temp(source: &str, name: &str) -> bool {
    let toks: Vec<(K, &str)> = lex(source)
        .into_iter()
        .filter(|t| t.kind != K::Trivia)
        .map(|t| (t.kind, &source[t.start..t.end]))
        .collect();
    let mut in_temp = false;
    for i in 0..toks.len() {
        let u = toks[i].1.to_ascii_uppercase();
        if u == "VAR_TEMP" {
            in_temp = true;
        } else if u == "END_VAR" {
            in_temp = false;
        } else if in_temp && toks[i].0 == K::Word && toks[i].1.eq_ignore_ascii_case(name) && i + 1 < toks.len() && toks[i + 1].1 == ":" {
            return true;
        }
    }
    false
}

/// Is byte offset `at` inside a METHOD?
pub fn in_method(source: &str, at: usize) -> bool {
    let mut depth = 0i32;
    for t in lex(source) {
        if t.start > at {
            break;
        }
        if t.kind == K::Word {
            match source[t.start..t.end].to_ascii_uppercase().as_str() {
                "METHOD" => depth += 1,
                "END_METHOD" => depth -= 1,
                _ => {}
            }
        }
    }
    depth > 0
}

/// The UNTIL condition of the REPEAT whose body directly contains byte offset `at` (the debug
/// hook fires per statement, so a fault raised while the UNTIL condition is evaluated is
/// located at the last statement of the body).
pub fn enclosing_until(source: &str, at: usize) -> Option<&str> {
    let toks: Vec<super::mutate::Tok> = lex(source).into_iter().filter(|t| t.kind == K::Word).collect();
    let word = |t: &super::mutate::Tok| source[t.start..t.end].to_ascii_uppercase();
    // innermost construct open at `at`
    let mut stack: Vec<&'static str> = Vec::new();
    let mut idx = 0;
    while idx < toks.len() && toks[idx].start <= at {
        match word(&toks[idx]).as_str() {
            "REPEAT" => stack.push("REPEAT"),
            "WHILE" => stack.push("WHILE"),
            "FOR" => stack.push("FOR"),
            "IF" => stack.push("IF"),
            "CASE" => stack.push("CASE"),
            "END_REPEAT" | "END_WHILE" | "END_FOR" | "END_IF" | "END_CASE" => {
                stack.pop();
            }
            _ => {}
        }
        idx += 1;
    }
    if stack.last() != Some(&"REPEAT") {
        return None;
    }
    // forward to the matching UNTIL .. END_REPEAT
    let mut depth = 0i32;
    let mut until: Option<usize> = None;
    while idx < toks.len() {
        match word(&toks[idx]).as_str() {
            "REPEAT" => depth += 1,
            "UNTIL" if depth == 0 => until = Some(toks[idx].start),
            "END_REPEAT" => {
                if depth == 0 {
                    return until.map(|u| &source[u..toks[idx].start]);
                }
                depth -= 1;
            }
            _ => {}
        }
        idx += 1;
    }
    None
}

pub struct SigInput<'a> {
    pub failure: &'a Failure,
    pub source: &'a str,
    /// Byte offset of that statement in `source`.
    pub stmt_at: Option<usize>,
    /// Is this finding open? (signatures of fixed findings are not in force)
    pub open: &'a dyn Fn(&str) -> bool,
    /// Text of the statement that was executing when the error was raised.
    pub stmt: Option<&'a str>,
}

pub fn match_known(inp: &SigInput<'_>) -> Option<&'static str> {
    let kind = inp.failure.kind.as_str();
    let decl = declared(inp.source);
    // ---- F40: nothing in a FUNCTION_BLOCK body is type-checked
    if kind.starts_with("static:") {
        if let Some(at) = inp.stmt_at {
            if in_fb_body(inp.source, at) {
                if (inp.open)(F40) { return Some(F40); }
            }
        }
    }
    // ---- F43: nothing in the ELSE branch of a CASE is type-checked
    if kind.starts_with("static:") {
        if let Some(at) = inp.stmt_at {
            if in_case_else(inp.source, at) {
                if (inp.open)(F43) { return Some(F43); }
            }
        }
    }
    // ---- F44: the checker takes any elementary selector type, the interpreter integers,
    // bit strings and enumerations
    if kind == "static:CaseSelectorType" {
        if (inp.open)(F44) { return Some(F44); }
    }
    // ---- F4: a name that is declared with another spelling is "undefined" at run time
    if kind == "static:UndefinedVariable" || kind == "static:UndefinedField" {
        let name = match &inp.failure.error {
            Some(trust_runtime::error::RuntimeError::UndefinedVariable(n)) => n.to_string(),
            Some(trust_runtime::error::RuntimeError::UndefinedField(n)) => n.to_string(),
            _ => return None,
        };
        // ---- F49: a VAR_TEMP of the function block used inside one of its methods
        if kind == "static:UndefinedVariable" && declared_in_var_temp(inp.source, &name) && inp.stmt_at.map(|at| in_method(inp.source, at)).unwrap_or(false) {
            if (inp.open)(F49) { return Some(F49); }
        }
        let other_spelling = lex(inp.source).iter().any(|t| {
            t.kind == K::Word && {
                let w = &inp.source[t.start..t.end];
                w != name && w.eq_ignore_ascii_case(&name)
            }
        });
        if other_spelling && (inp.open)(F4) {
            return Some(F4);
        }
        // no early return: an undefined name can also come out of an unchecked initialiser (F41)
    }
    // ---- F41: declaration initialisers are not type-checked: the error is raised while a
    // frame's locals / temporaries are initialised, i.e. NOT by the statement the debug hook
    // saw last (a call statement or nothing at all) - accepted only when that statement does
    // not itself show the shape of the error: it is a call or there is none
    if matches!(kind, "static:TypeMismatch" | "static:UndefinedVariable") && has_nonliteral_initialiser(inp.source) {
        let call_or_none = match inp.stmt {
            None => match &inp.failure.error {
                Some(trust_runtime::error::RuntimeError::UndefinedVariable(n)) => name_in_initialiser(inp.source, n),
                _ => true,
            },
            Some(s) => {
                let mut h = header(s);
                if let Some(u) = inp.stmt_at.and_then(|at| enclosing_until(inp.source, at)) {
                    h.push(' ');
                    h.push_str(u);
                }
                match &inp.failure.error {
                    // the undefined name does not occur in the statement: it comes from an initialiser
                    Some(trust_runtime::error::RuntimeError::UndefinedVariable(n)) => {
                        !lex(&h).iter().any(|t| t.kind == K::Word && h[t.start..t.end].eq_ignore_ascii_case(n)) && name_in_initialiser(inp.source, n)
                    }
                    _ => false,
                }
            }
        };
        if call_or_none {
            if (inp.open)(F41) { return Some(F41); }
        }
    }
    if kind != "static:TypeMismatch" {
        return None;
    }
    // ---- F33: the I/O exchange of such a program fails in every cycle
    if has_uncarried_at(inp.source) {
        if (inp.open)(F33) { return Some(F33); }
    }
    let mut stmt = header(inp.stmt?);
    if let Some(u) = inp.stmt_at.and_then(|at| enclosing_until(inp.source, at)) {
        stmt.push(' ');
        stmt.push_str(u);
    }
    let up = stmt.to_ascii_uppercase();
    let tys = types_in(&stmt, &decl);
    // an untyped integer literal is lowered as DINT, i.e. it is a signed operand
    let has_untyped_int = lex(&stmt).iter().any(|t| t.kind == K::Number && !stmt[t.start..t.end].contains('.'));
    let has_signed = tys.iter().any(|t| SIGNED.contains(&t.as_str())) || has_untyped_int;
    let has_unsigned = tys.iter().any(|t| UNSIGNED.contains(&t.as_str()));
    let has_real = tys.iter().any(|t| t == "REAL" || t == "LREAL");
    // ---- F41 (read form): the statement reads a variable whose unchecked initialiser is a
    // literal of another elementary type than the declaration
    {
        let bad = mistyped_initialised_names(inp.source);
        if !bad.is_empty() && lex(&stmt).iter().any(|t| t.kind == K::Word && bad.iter().any(|b| b.eq_ignore_ascii_case(&stmt[t.start..t.end]))) {
            if (inp.open)(F41) { return Some(F41); }
        }
    }
    // ---- F42: partial access on something that is not a bit string
    {
        let toks: Vec<(K, &str)> = lex(&stmt).into_iter().filter(|t| t.kind != K::Trivia).map(|t| (t.kind, &stmt[t.start..t.end])).collect();
        for i in 0..toks.len() {
            if toks[i].0 == K::Direct && i >= 2 && toks[i - 1].1 == "." && toks[i - 2].0 == K::Word {
                let base = toks[i - 2].1;
                let bitstring = decl.iter().any(|(n, t)| n.eq_ignore_ascii_case(base) && matches!(t.as_str(), "BYTE" | "WORD" | "DWORD" | "LWORD"));
                if !bitstring {
                    if (inp.open)(F42) { return Some(F42); }
                }
            }
        }
    }
    // ---- F41 (statement form): a call statement whose callee has a non-literal local
    // initialiser - the TypeMismatch comes out of the callee's initialisers
    if (has_nonliteral_initialiser(inp.source) || !mistyped_initialised_names(inp.source).is_empty()) && stmt.contains('(') && !has_signed_unsigned_literal_mix(&tys) {
        let names: Vec<String> = lex(&stmt).iter().filter(|t| t.kind == K::Word).map(|t| stmt[t.start..t.end].to_ascii_uppercase()).collect();
        if names.iter().any(|n| matches!(n.as_str(), "XFN" | "XFB" | "XDER" | "XCLS" | "BUMP" | "XMID" | "XTOP" | "XOUTER" | "XOUT" | "XEN" | "HELPER" | "RUN" | "STP" | "XTFB" | "INNER")) {
            if (inp.open)(F41) { return Some(F41); }
        }
    }
    // ---- F47: < <= > >= on a reference or NULL
    {
        let has_ref = tys.iter().any(|t| t == "REF_TO") || lex(&stmt).iter().any(|t| t.kind == K::Word && stmt[t.start..t.end].eq_ignore_ascii_case("NULL"));
        let has_order = lex(&stmt).iter().any(|t| t.kind == K::Op && matches!(&stmt[t.start..t.end], "<" | "<=" | ">" | ">="));
        if has_ref && has_order {
            if (inp.open)(F47) { return Some(F47); }
        }
    }
    // ---- F45: MOD with a REAL / LREAL operand
    if has_real && lex(&stmt).iter().any(|t| t.kind == K::Word && stmt[t.start..t.end].eq_ignore_ascii_case("MOD")) {
        if (inp.open)(F45) { return Some(F45); }
    }
    // ---- F24: FOR over an unsigned control variable with a (possibly) negative step
    if up.trim_start().starts_with("FOR ") {
        let ctrl = stmt.trim_start()[4..].split(|c: char| !c.is_ascii_alphanumeric() && c != '_').next().unwrap_or("");
        let ctrl_unsigned = decl
            .iter()
            .any(|(n, t)| n.eq_ignore_ascii_case(ctrl) && UNSIGNED.contains(&t.as_str()));
        if ctrl_unsigned && (up.contains(" BY ") && (up.contains('-') || has_signed)) {
            if (inp.open)(F24) { return Some(F24); }
        }
    }
    // ---- F34: shift / rotate with a signed count
    for f in ["SHL(", "SHR(", "ROL(", "ROR("] {
        if up.contains(f) && (has_signed || up.contains('-')) {
            if (inp.open)(F34) { return Some(F34); }
        }
    }
    // ---- F38 / F39: conversions whose operand VALUE is not convertible
    if up.contains("_BCD_TO_") || up.contains("BCD_TO_") {
        if (inp.open)(F38) { return Some(F38); }
    }
    for f in ["STRING_TO_CHAR(", "WSTRING_TO_WCHAR(", "TO_CHAR(", "TO_WCHAR("] {
        if up.contains(f) {
            if (inp.open)(F39) { return Some(F39); }
        }
    }
    // ---- F23: integer ** with a signed exponent
    if up.contains("**") && !has_real && has_signed {
        if (inp.open)(F23) { return Some(F23); }
    }
    // ---- F8: an explicitly typed conversion of a plain variable whose DECLARED type is the
    // conversion's source type can only mismatch when the variable holds a value of another
    // type, i.e. an earlier assignment / binding kept its expression's type
    {
        let toks: Vec<(K, &str)> = lex(&stmt)
            .into_iter()
            .filter(|t| t.kind != K::Trivia)
            .map(|t| (t.kind, &stmt[t.start..t.end]))
            .collect();
        for i in 0..toks.len() {
            if toks[i].0 != K::Word {
                continue;
            }
            let u = toks[i].1.to_ascii_uppercase();
            let src_ty = if let Some((s, _)) = u.split_once("_TO_") {
                s.to_string()
            } else if let Some((s, _)) = u.split_once("_TRUNC_") {
                s.to_string()
            } else {
                continue;
            };
            // an UNTYPED literal argument is lowered as DINT whatever the parameter type (F8b)
            if i + 3 < toks.len() && toks[i + 1].1 == "(" && toks[i + 2].0 == K::Number && toks[i + 3].1 == ")" && src_ty != "DINT" {
                if (inp.open)(F8) { return Some(F8); }
            }
            if i + 4 < toks.len() && toks[i + 1].1 == "(" && toks[i + 2].1 == "-" && toks[i + 3].0 == K::Number && toks[i + 4].1 == ")" && src_ty != "DINT" {
                if (inp.open)(F8) { return Some(F8); }
            }
            if i + 3 < toks.len() && toks[i + 1].1 == "(" && toks[i + 2].0 == K::Word && toks[i + 3].1 == ")" {
                let arg = toks[i + 2].1;
                if decl.iter().any(|(n, t)| n.eq_ignore_ascii_case(arg) && *t == src_ty) {
                    if (inp.open)(F8) { return Some(F8); }
                }
                // argument binding keeps the argument's type: a variable of ANOTHER numeric
                // type is accepted for the IN parameter (implicit widening) but not converted
                let numeric = |t: &str| SIGNED.contains(&t) || UNSIGNED.contains(&t) || t == "REAL" || t == "LREAL";
                if numeric(&src_ty) && decl.iter().any(|(n, t)| n.eq_ignore_ascii_case(arg) && numeric(t) && *t != src_ty) {
                    if (inp.open)(F8) { return Some(F8); }
                }
            }
            // ... likewise a typed literal of another numeric type
            if i + 3 < toks.len() && toks[i + 1].1 == "(" && toks[i + 2].0 == K::TypedLit && toks[i + 3].1 == ")" {
                if let Some((p, _)) = toks[i + 2].1.split_once('#') {
                    let p = p.to_ascii_uppercase();
                    let numeric = |t: &str| SIGNED.contains(&t) || UNSIGNED.contains(&t) || t == "REAL" || t == "LREAL";
                    if numeric(&src_ty) && numeric(&p) && p != src_ty {
                        if (inp.open)(F8) { return Some(F8); }
                    }
                }
            }
        }
    }
    // ---- F8 (real functions): a function that takes REAL/LREAL only, applied to a plain
    // variable DECLARED REAL/LREAL, can only mismatch when the variable holds a value of
    // another type (an earlier assignment kept its expression's type)
    {
        const REAL_FNS: [&str; 12] = ["SQRT", "LN", "LOG", "EXP", "SIN", "COS", "TAN", "ASIN", "ACOS", "ATAN", "TRUNC", "EXPT"];
        let toks: Vec<(K, &str)> = lex(&stmt).into_iter().filter(|t| t.kind != K::Trivia).map(|t| (t.kind, &stmt[t.start..t.end])).collect();
        for i in 0..toks.len() {
            if toks[i].0 == K::Word && REAL_FNS.iter().any(|f| toks[i].1.eq_ignore_ascii_case(f)) && i + 2 < toks.len() && toks[i + 1].1 == "(" {
                // optional `IN :=` / `IN1 :=`
                let mut a = i + 2;
                if a + 2 < toks.len() && toks[a].0 == K::Word && toks[a + 1].1 == ":=" {
                    a += 2;
                }
                if a + 1 < toks.len() && toks[a].0 == K::Word && matches!(toks[a + 1].1, ")" | ",") {
                    let arg = toks[a].1;
                    if decl.iter().any(|(n, t)| n.eq_ignore_ascii_case(arg) && (t == "REAL" || t == "LREAL")) {
                        if (inp.open)(F8) { return Some(F8); }
                    }
                }
            }
        }
    }
    // ---- F5: signed and unsigned integer operands in one expression
    if has_signed && has_unsigned {
        if (inp.open)(F5) { return Some(F5); }
    }
    None
}
