//! C20 case type (a command script over 2-4 resources), its tape generator and the ST
//! source each resource runs.

use serde::{Deserialize, Serialize};

use crate::engine::tape::{Reader, Tape};

#[derive(Clone, Debug, Serialize, Deserialize, PartialEq)]
pub struct Res {
    /// increment added to shared counter j per executed program body (0 = not touched)
    pub weights: Vec<i64>,
    /// bit k set = this resource updates pair k (`a_k := a_k + 1; ...; b_k := a_k`)
    pub pair_mask: u8,
    /// 0 = program without task (runs every cycle); else TASK INTERVAL in microseconds
    pub task_us: u32,
    /// division by zero when the private body counter equals this value
    pub fault_at: Option<u32>,
    /// retain save cadence: None = only on stop, Some(ns) = periodic
    pub retain_interval_ns: Option<i64>,
    /// value of the retained variable the store hands out on load
    pub retain_init: i64,
    /// call `load_retain_store()` before the resource is spawned
    pub load_retain: bool,
    /// busy iterations inside `RetainStore::store` (I/O latency stand-in)
    pub store_spin: u32,
    /// FOR-loop iterations between the two halves of a pair update
    pub filler: u16,
    pub gated: bool,
    pub order: u8,
    /// handshake role: producer raises `req` (and counts `sent`) when it is down, consumer
    /// clears it (and counts `handled`) when it is up
    #[serde(default)]
    pub producer: bool,
    /// value this resource writes to the shared BOOL `flag` in every cycle
    #[serde(default)]
    pub flag_val: bool,
    /// FaultPolicy::Restart: the fault at body `fault_at` (>= 1) warm-restarts the resource,
    /// which re-initialises its private counter, so the fault recurs every `fault_at` bodies
    #[serde(default)]
    pub fault_restart: bool,
    /// watchdog enabled with action Restart and this timeout (0 = every cycle overruns)
    #[serde(default)]
    pub watchdog_restart_ns: Option<i64>,
}

#[derive(Clone, Debug, Serialize, Deserialize, PartialEq)]
pub enum Op {
    Pause(u8),
    Resume(u8),
    Stop { r: u8, via_handle: bool, poll: bool },
    /// advance the manual clock of resource `r` (None = every manual clock)
    Advance { r: Option<u8>, ns: i64 },
    OpenGate,
    Yield(u16),
    Spin(u32),
    SleepUs(u16),
    /// wait (bounded) until state() == Paused; opens the "no cycle while paused" window
    AwaitPaused(u8),
    /// wait (bounded) until `n` more cycles completed
    AwaitCycles { r: u8, n: u8 },
    /// wait until the faulting resource reports Faulted, then demand progress of the others
    AwaitFault,
    /// read pairs (a then b) and counters through SharedGlobals::get
    Sample,
    /// send a MeshSnapshot command (exercises the non-pause/resume command path)
    Snapshot(u8),
    /// raise the external restart signal of resource `r` (`with_restart_signal`)
    Restart { r: u8, cold: bool },
    /// pause (cmd 0) / resume (1) / stop (2) of resource `r`, with the very next action of the
    /// controller being an advance of that resource's manual clock (all manual clocks when
    /// `all`) by `ns` - a step that stays short of a sleeping resource's deadline
    Chased { cmd: u8, r: u8, via_handle: bool, ns: i64, all: bool },
}

#[derive(Clone, Debug, Serialize, Deserialize, PartialEq)]
pub struct Script {
    /// 0 = StdClock, 1 = one ManualClock per resource, 2 = one ManualClock shared by all
    pub clock: u8,
    pub interval_ns: i64,
    /// shared variables are LINT instead of DINT
    pub wide: bool,
    /// initial values of the shared counters c0..
    pub counters: Vec<i64>,
    /// initial values of the shared pairs (a_k = b_k)
    pub pairs: Vec<i64>,
    pub resources: Vec<Res>,
    pub ops: Vec<Op>,
    pub final_rev: bool,
    pub final_via_handle: bool,
    pub final_poll: bool,
    /// teardown: every stop() is immediately followed by this advance of the stopped
    /// resource's manual clock (a sub-interval step; nothing advances the clock afterwards)
    #[serde(default)]
    pub final_advance_ns: Option<i64>,
    pub reps: u16,
}

/// Shared variables that do not only grow: last-writer id `w` with the writer's sequence number
/// `ws` (written together), a BOOL `flag` that every resource sets to its own constant, and the
/// handshake `req`/`sent`/`handled`. A resource writes them with values equal to what it wrote
/// in its previous cycle, which a "publish only what changed" write-back would drop.
pub const NON_MONOTONE: [&str; 6] = ["w", "ws", "flag", "req", "sent", "handled"];
/// initial values in the order of NON_MONOTONE (BOOLs as 0/1)
pub const NON_MONOTONE_INIT: [i64; 6] = [-1, 0, 0, 0, 0, 0];

impl Script {
    pub fn manual(&self) -> bool {
        self.clock != 0
    }
    /// the resource whose fault halts it (FaultPolicy::Halt, the default)
    pub fn fault_res(&self) -> Option<usize> {
        self.resources.iter().position(|r| r.fault_at.is_some() && !r.fault_restart)
    }
    /// resource `i` may be restarted while it runs (its private variables start over)
    pub fn restartable(&self, i: usize) -> bool {
        let r = &self.resources[i];
        (r.fault_restart && r.fault_at.is_some())
            || r.watchdog_restart_ns.is_some()
            || self.ops.iter().any(|op| matches!(op, Op::Restart { r, .. } if *r as usize == i))
    }
    pub fn any_gated(&self) -> bool {
        self.resources.iter().any(|r| r.gated)
    }
    pub fn shared_names(&self) -> Vec<String> {
        let mut v = Vec::new();
        for j in 0..self.counters.len() {
            v.push(format!("c{j}"));
        }
        for k in 0..self.pairs.len() {
            v.push(format!("a{k}"));
            v.push(format!("b{k}"));
        }
        for name in NON_MONOTONE {
            v.push(name.to_string());
        }
        v
    }
}

/// Sanitise a script that came from a replay file (hand-written or shrunk) so that the
/// rig never indexes out of range. Returns None when the script is unusable.
pub fn normalise(s: &Script) -> Option<Script> {
    let mut s = s.clone();
    if s.resources.len() < 2 || s.resources.len() > 4 || s.counters.is_empty() || s.pairs.is_empty() {
        return None;
    }
    if s.counters.len() > 2 || s.pairs.len() > 3 {
        return None;
    }
    let n = s.resources.len() as u8;
    for r in &mut s.resources {
        r.weights.resize(s.counters.len(), 0);
        for w in &mut r.weights {
            *w = (*w).clamp(0, 9);
        }
        r.pair_mask &= (1u8 << s.pairs.len()) - 1;
        r.filler = r.filler.min(400);
        if r.fault_restart {
            r.fault_at = r.fault_at.map(|k| k.max(1));
        }
        r.watchdog_restart_ns = r.watchdog_restart_ns.map(|t| t.clamp(0, 1_000_000_000));
        r.store_spin = r.store_spin.min(if r.retain_interval_ns.is_some() { 2000 } else { 200_000 });
    }
    // at most one faulting resource
    let mut seen = false;
    for r in &mut s.resources {
        if r.fault_at.is_some() {
            if seen {
                r.fault_at = None;
            }
            seen = true;
        }
    }
    s.ops.retain(|op| match op {
        Op::Pause(r) | Op::Resume(r) | Op::AwaitPaused(r) | Op::Snapshot(r) => *r < n,
        Op::Stop { r, .. } | Op::AwaitCycles { r, .. } | Op::Chased { r, .. } | Op::Restart { r, .. } => *r < n,
        Op::Advance { r, .. } => r.map(|r| r < n).unwrap_or(true),
        _ => true,
    });
    s.interval_ns = s.interval_ns.clamp(0, 10_000_000_000);
    s.reps = s.reps.clamp(1, 400);
    Some(s)
}

fn perturb(r: &mut Reader, ops: &mut Vec<Op>) {
    match r.weighted(&[4, 3, 3, 1]) {
        0 => {}
        1 => ops.push(Op::Yield(1 + r.pick(8) as u16)),
        2 => ops.push(Op::Spin([10u32, 100, 1000, 10_000, 50_000][r.pick(5)])),
        _ => ops.push(Op::SleepUs([20u16, 100, 300][r.pick(3)])),
    }
}

pub fn script_from_tape(tape: &Tape, reps: u16) -> Script {
    let mut r = Reader::new(tape);
    let clock = r.weighted(&[3, 2, 2]) as u8;
    let interval_ns = if clock == 0 {
        [0i64, 100_000][r.pick(2)]
    } else {
        [0i64, 1_000_000, 10_000_000, 1_000_000_000][r.weighted(&[3, 3, 2, 2])]
    };
    let manual = clock != 0;
    let wide = r.chance(1, 4);
    let n_res = 2 + r.pick(3);
    let n_cnt = 1 + r.pick(2);
    let n_pairs = 1 + r.pick(3);
    let counters: Vec<i64> = (0..n_cnt).map(|_| [0i64, 7, 1000][r.pick(3)]).collect();
    let pairs: Vec<i64> = (0..n_pairs).map(|_| [0i64, 3, 500][r.pick(3)]).collect();
    let gate_mode = r.weighted(&[4, 2, 2]);
    let fault_res = if r.chance(1, 2) { Some(r.pick(n_res)) } else { None };
    let mut resources = Vec::new();
    for i in 0..n_res {
        let mut weights: Vec<i64> = (0..n_cnt)
            .map(|_| if r.chance(1, 5) { 0 } else { 1 + r.pick(3) as i64 })
            .collect();
        let mut pair_mask = 0u8;
        for k in 0..n_pairs {
            if !r.chance(1, 4) {
                pair_mask |= 1 << k;
            }
        }
        if weights.iter().all(|w| *w == 0) {
            weights[0] = 1;
        }
        let task_us = [0u32, 10, 1000][r.weighted(&[4, 1, 1])];
        let fault_at = if fault_res == Some(i) {
            Some([0u32, 1, 2, 5, 20, 100][r.pick(6)])
        } else {
            let _ = r.word();
            None
        };
        let retain_interval_ns = [None, Some(0i64), Some(1_000_000)][r.weighted(&[2, 1, 1])];
        let load_retain = r.flag();
        let retain_init = [5i64, 0, 100][r.pick(3)];
        // A slow store inside a periodic save runs inside the cycle, i.e. inside the shared
        // lock: keep it short there (a resource with interval 0 that holds the unfair std Mutex
        // for milliseconds starves the others for seconds on a slow machine). With no cadence the
        // only store is the one in the stop path, outside any lock.
        let store_spin = if retain_interval_ns.is_some() {
            [0u32, 300, 300, 2000][r.pick(4)]
        } else {
            [0u32, 300, 5000, 40_000][r.pick(4)]
        };
        let filler = [0u16, 5, 40, 200][r.pick(4)];
        let gated = match gate_mode {
            0 => {
                let _ = r.word();
                false
            }
            1 => {
                let _ = r.word();
                true
            }
            _ => r.flag(),
        };
        let order = r.pick(4) as u8;
        // roles: resource 0 produces and sets the flag, resource 1 consumes and clears it,
        // the others are generated
        let (producer, flag_val) = match i {
            0 => {
                let _ = (r.word(), r.word());
                (true, true)
            }
            1 => {
                let _ = (r.word(), r.word());
                (false, false)
            }
            _ => (r.flag(), r.flag()),
        };
        let fault_restart = fault_at.is_some() && r.chance(1, 3);
        let fault_at = if fault_restart { fault_at.map(|k: u32| k.max(1)) } else { fault_at };
        // (not on the resource whose fault is awaited: its private counter would start over after
        // every cycle and never reach the faulting value)
        let watchdog_restart_ns = if !r.chance(7, 8) && (fault_at.is_none() || fault_restart) {
            Some([0i64, 20_000][r.pick(2)])
        } else {
            let _ = r.word();
            None
        };
        resources.push(Res {
            weights,
            pair_mask,
            task_us,
            fault_at,
            retain_interval_ns,
            retain_init,
            load_retain,
            store_spin,
            filler,
            gated,
            order,
            producer,
            flag_val,
            fault_restart,
            watchdog_restart_ns,
        });
    }
    let any_gated = resources.iter().any(|x| x.gated);

    // Manual-clock steps: fractions of the cycle interval (they do not reach the deadline of a
    // resource sleeping between cycles) and multiples (they do).
    let fractions: [i64; 3] = if interval_ns > 0 {
        [1, (interval_ns / 10).max(1), interval_ns - 1]
    } else {
        [1, 1_000, 100_000]
    };
    let multiples: [i64; 3] = if interval_ns > 0 {
        [interval_ns, interval_ns * 3, interval_ns * 10 + 7]
    } else {
        [1_000_000, 10_000_000, 50_000_000]
    };
    // 0 = fractions and multiples, 1 = only fractions (sleepers are never released by the clock)
    let adv_mode = if manual { r.weighted(&[3, 2]) } else { 0 };
    let step = |r: &mut Reader| -> i64 {
        if adv_mode == 1 || r.chance(2, 5) {
            fractions[r.pick(3)]
        } else {
            multiples[r.pick(3)]
        }
    };

    let mut ops: Vec<Op> = Vec::new();
    // where the gate is opened: 0 = first, 1 = somewhere, 2 = never (stop while gated)
    let gate_open_at = if any_gated { r.weighted(&[3, 3, 1]) } else { 3 };
    if gate_open_at == 0 {
        ops.push(Op::OpenGate);
    }
    // warm-up so that the threads usually are in their loops when commands arrive
    match r.weighted(&[2, 4, 2, 1]) {
        0 => {}
        1 => ops.push(Op::AwaitCycles { r: r.pick(n_res) as u8, n: 1 + r.pick(3) as u8 }),
        2 => ops.push(Op::SleepUs([50u16, 200, 500][r.pick(3)])),
        _ => ops.push(Op::Yield(1 + r.pick(20) as u16)),
    }
    let n_ops = 2 + r.pick(14);
    let density = r.weighted(&[2, 3, 3]); // pause/resume density: none, low, high
    let w_pause = [0u32, 2, 5][density];
    let w_seq = [0u32, 3, 6][density];
    let w_adv = if manual { 6 } else { 0 };
    // pause/resume/stop immediately followed by a sub-interval clock step
    let w_pair = if manual { 4 } else { 0 };
    let gate_pos = if gate_open_at == 1 { r.pick(n_ops) } else { usize::MAX };
    let fault_pos = if fault_res.is_some() && !r.chance(1, 4) { r.pick(n_ops) } else { usize::MAX };
    // external restart signals: none / some
    let w_restart = [0u32, 3, 3][r.weighted(&[2, 2, 1])];
    for idx in 0..n_ops {
        if idx == gate_pos {
            ops.push(Op::OpenGate);
        }
        if idx == fault_pos {
            ops.push(Op::AwaitFault);
        }
        let res = r.pick(n_res) as u8;
        match r.weighted(&[4, w_pause, w_pause, w_seq, 1, w_adv, 3, 3, 2, 1, w_pair, w_restart]) {
            0 => perturb(&mut r, &mut ops),
            1 => ops.push(Op::Pause(res)),
            2 => ops.push(Op::Resume(res)),
            3 => {
                // pause ... observe Paused ... (advance/sample) ... resume or stop
                ops.push(Op::Pause(res));
                perturb(&mut r, &mut ops);
                ops.push(Op::AwaitPaused(res));
                let inner = r.pick(4);
                for _ in 0..inner {
                    match r.weighted(&[3, w_adv, 2, 1]) {
                        0 => perturb(&mut r, &mut ops),
                        1 => ops.push(Op::Advance { r: None, ns: step(&mut r) }),
                        2 => ops.push(Op::Sample),
                        _ => ops.push(Op::Snapshot(res)),
                    }
                }
                let tail = r.weighted(&[5, 2, 1]);
                let chase = manual && r.chance(1, 3);
                match tail {
                    0 => {
                        if chase {
                            ops.push(Op::Chased { cmd: 1, r: res, via_handle: false, ns: fractions[r.pick(3)], all: false });
                        } else {
                            ops.push(Op::Resume(res));
                        }
                        if !r.chance(1, 3) {
                            ops.push(Op::AwaitCycles { r: res, n: 1 + r.pick(2) as u8 });
                        }
                    }
                    1 => {
                        if chase {
                            ops.push(Op::Chased { cmd: 2, r: res, via_handle: r.flag(), ns: fractions[r.pick(3)], all: false });
                        } else {
                            ops.push(Op::Stop { r: res, via_handle: r.flag(), poll: r.flag() });
                        }
                    }
                    _ => {}
                }
            }
            4 => ops.push(Op::Stop { r: res, via_handle: r.flag(), poll: r.flag() }),
            5 => {
                let target = if r.chance(1, 3) { Some(res) } else { None };
                ops.push(Op::Advance { r: target, ns: step(&mut r) });
            }
            6 => ops.push(Op::Sample),
            7 => ops.push(Op::AwaitCycles { r: res, n: 1 + r.pick(4) as u8 }),
            8 => ops.push(Op::Snapshot(res)),
            9 => ops.push(Op::Yield(1 + r.pick(30) as u16)),
            11 => {
                ops.push(Op::Restart { r: res, cold: r.chance(1, 3) });
                if r.flag() {
                    // give the restarted resource the chance to run on before anything else
                    ops.push(Op::AwaitCycles { r: res, n: 1 + r.pick(2) as u8 });
                }
            }
            _ => {
                // the wake-up of pause()/resume()/stop() chased by a clock step that stays
                // short of the sleeper's deadline
                let cmd = r.weighted(&[3, 2, 2]) as u8;
                ops.push(Op::Chased {
                    cmd,
                    r: res,
                    via_handle: r.flag(),
                    ns: fractions[r.pick(3)],
                    all: r.chance(1, 4),
                });
            }
        }
    }
    let final_rev = r.flag();
    let final_via_handle = r.flag();
    let final_poll = r.flag();
    let final_advance_ns = if manual && r.chance(2, 3) { Some(fractions[r.pick(3)]) } else { None };
    Script {
        clock,
        interval_ns,
        wide,
        counters,
        pairs,
        resources,
        ops,
        final_rev,
        final_via_handle,
        final_poll,
        final_advance_ns,
        reps,
    }
}

/// Private DINT globals bound to %QD8.. : observed-at-start, left-at-end (order of
/// NON_MONOTONE each) and the handshake invariant counter.
pub const OBS: [&str; 15] = [
    "ow", "ows", "oflag", "oreq", "osent", "ohandled", "ew", "ews", "eflag", "ereq", "esent", "ehandled", "hbad",
    "otok", "rout",
];

/// ST source run by resource `i`. Every resource declares the same configuration globals;
/// only the names in `Script::shared_names()` are synchronised, the rest are private.
/// Typed literals throughout: assignments keep the expression's type (finding F8).
pub fn source_for(s: &Script, i: usize) -> String {
    let ty = if s.wide { "LINT" } else { "DINT" };
    let res = &s.resources[i];
    let mut g = String::new();
    g.push_str("CONFIGURATION Conf\nVAR_GLOBAL\n");
    for (j, init) in s.counters.iter().enumerate() {
        g.push_str(&format!("    c{j} : {ty} := {init};\n"));
    }
    for (k, init) in s.pairs.iter().enumerate() {
        g.push_str(&format!("    a{k} : {ty} := {init};\n    b{k} : {ty} := {init};\n"));
    }
    g.push_str("    w : DINT := -1;\n    ws : DINT := 0;\n    flag : BOOL := FALSE;\n    req : BOOL := FALSE;\n    sent : DINT := 0;\n    handled : DINT := 0;\n");
    g.push_str("END_VAR\nVAR_GLOBAL RETAIN\n    r : DINT := 0;\nEND_VAR\n");
    // private copies of what the cycle saw at its start (o*) and left at its end (e*), and the
    // handshake invariant counter, all in the output image for the I/O driver
    g.push_str("VAR_GLOBAL\n");
    for (k, name) in OBS.iter().enumerate() {
        g.push_str(&format!("    {name} AT %QD{} : DINT := 0;\n", 8 + 4 * k));
    }
    // the I/O driver hands every cycle a fresh token; a body that ran echoes it in `otok`
    // (the private counter n starts over when the resource is restarted, the token does not)
    g.push_str("    tok AT %ID0 : DINT := 0;\nEND_VAR\n");
    g.push_str("VAR_GLOBAL\n    n AT %QD0 : DINT := 0;\n    bad AT %QD4 : DINT := 0;\n    zero : DINT := 0;\n    z : DINT := 0;\nEND_VAR\n");
    if res.task_us == 0 {
        g.push_str("PROGRAM P1 : Main;\n");
    } else {
        g.push_str(&format!(
            "TASK Tk (INTERVAL := T#{}us, PRIORITY := 0);\nPROGRAM P1 WITH Tk : Main;\n",
            res.task_us
        ));
    }
    g.push_str("END_CONFIGURATION\n\nPROGRAM Main\nVAR_EXTERNAL\n");
    for j in 0..s.counters.len() {
        g.push_str(&format!("    c{j} : {ty};\n"));
    }
    for k in 0..s.pairs.len() {
        g.push_str(&format!("    a{k} : {ty};\n    b{k} : {ty};\n"));
    }
    g.push_str("    w : DINT;\n    ws : DINT;\n    flag : BOOL;\n    req : BOOL;\n    sent : DINT;\n    handled : DINT;\n");
    for name in OBS {
        g.push_str(&format!("    {name} : DINT;\n"));
    }
    g.push_str("    tok : DINT;\n    r : DINT;\n    n : DINT;\n    bad : DINT;\n    zero : DINT;\n    z : DINT;\nEND_VAR\nVAR\n    i : DINT;\n    tmp : DINT;\nEND_VAR\n");
    if let Some(k) = res.fault_at {
        g.push_str(&format!("IF n = DINT#{k} THEN z := DINT#1 / zero; END_IF;\n"));
    }
    for k in 0..s.pairs.len() {
        g.push_str(&format!("IF a{k} <> b{k} THEN bad := bad + DINT#1; END_IF;\n"));
    }
    // what this cycle starts from
    g.push_str("ow := w;\nows := ws;\nIF flag THEN oflag := DINT#1; ELSE oflag := DINT#0; END_IF;\nIF req THEN oreq := DINT#1; ELSE oreq := DINT#0; END_IF;\nosent := sent;\nohandled := handled;\n");
    // handshake invariant: a request is outstanding exactly while req is up
    g.push_str("IF sent - handled <> oreq THEN hbad := hbad + DINT#1; END_IF;\n");
    let cnt: Vec<String> = res
        .weights
        .iter()
        .enumerate()
        .filter(|(_, w)| **w > 0)
        .map(|(j, w)| format!("c{j} := c{j} + {ty}#{w};\n"))
        .collect();
    let touched: Vec<usize> = (0..s.pairs.len()).filter(|k| res.pair_mask & (1 << k) != 0).collect();
    let first = |k: usize| format!("a{k} := a{k} + {ty}#1;\n");
    let second = |k: usize| format!("b{k} := a{k};\n");
    let filler = if res.filler > 0 {
        format!("FOR i := DINT#1 TO DINT#{} DO tmp := i; END_FOR;\n", res.filler)
    } else {
        String::new()
    };
    match res.order % 4 {
        0 => {
            g.push_str(&cnt.concat());
            for k in &touched {
                g.push_str(&first(*k));
            }
            g.push_str(&filler);
            for k in &touched {
                g.push_str(&second(*k));
            }
        }
        1 => {
            for k in &touched {
                g.push_str(&first(*k));
            }
            g.push_str(&cnt.concat());
            g.push_str(&filler);
            for k in &touched {
                g.push_str(&second(*k));
            }
        }
        2 => {
            for k in &touched {
                g.push_str(&first(*k));
                g.push_str(&filler);
                g.push_str(&second(*k));
            }
            g.push_str(&cnt.concat());
        }
        _ => {
            for k in &touched {
                g.push_str(&first(*k));
            }
            g.push_str(&filler);
            for k in touched.iter().rev() {
                g.push_str(&second(*k));
            }
            g.push_str(&cnt.concat());
        }
    }
    // non-monotone shared state: every value written here equals what this resource wrote in
    // its previous cycle (w, flag, req) or is written together with such a value (ws)
    g.push_str(&format!("w := DINT#{i};\nws := n + DINT#1;\nflag := {};\n", if res.flag_val { "TRUE" } else { "FALSE" }));
    if res.producer {
        g.push_str("IF NOT req THEN req := TRUE; sent := sent + DINT#1; END_IF;\n");
    } else {
        g.push_str("IF req THEN req := FALSE; handled := handled + DINT#1; END_IF;\n");
    }
    g.push_str("ew := w;\news := ws;\nIF flag THEN eflag := DINT#1; ELSE eflag := DINT#0; END_IF;\nIF req THEN ereq := DINT#1; ELSE ereq := DINT#0; END_IF;\nesent := sent;\nehandled := handled;\n");
    g.push_str("r := r + DINT#1;\nn := n + DINT#1;\nrout := r;\notok := tok;\nEND_PROGRAM\n");
    g
}
