//! C20 rig: builds the resources of one script, drives the command script from a controller
//! thread, joins everything and evaluates the history invariants.

use std::sync::atomic::{AtomicI64, AtomicU64, Ordering::SeqCst};
use std::sync::{mpsc, Arc, Mutex};
use std::time::{Duration as StdDuration, Instant};

use smol_str::SmolStr;
use trust_runtime::error::RuntimeError;
use trust_runtime::harness::TestHarness;
use trust_runtime::io::IoDriver;
use trust_runtime::retain::RetainStore;
use trust_runtime::scheduler::{
    Clock, ManualClock, ResourceCommand, ResourceControl, ResourceHandle, ResourceRunner,
    ResourceState, SharedGlobals, StartGate, StdClock,
};
use trust_runtime::value::{Duration, Value};
use trust_runtime::RetainSnapshot;

use super::script::{source_for, Op, Script, NON_MONOTONE, NON_MONOTONE_INIT};

/// Last-resort bound for a thread that makes no observable progress at all (normal: < 100 ms).
/// It is counted in controller sleep ticks of >= 2 ms each *and* in wall time, so that a
/// stalled or time-warped machine (VM pause, clock jump) cannot exhaust it by itself.
pub const LAST_RESORT: StdDuration = StdDuration::from_secs(120);
pub const LAST_RESORT_TICKS: u64 = 60_000;
/// Progress criterion: the loop drains all commands and looks at the stop flag once per
/// iteration, so after pause()/resume()/stop() returned at most the iteration in progress and
/// one more may pass before the command shows. This many further iterations (or cycle starts)
/// without effect is a violation independent of machine speed.
pub const PROGRESS_SLACK: u64 = 50;

/// A thread that makes no loop iteration and is found blocked (state S/D in
/// /proc/self/task/<tid>/stat) at this many consecutive samples, 100 ms apart, while it is owed
/// a wake-up, is hung. Samples are taken by the controller, so a stalled machine takes none.
pub const BLOCKED_SAMPLES: u32 = 200;
const SAMPLE_EVERY: StdDuration = StdDuration::from_millis(100);

fn find_tid(name: &str) -> Option<i32> {
    let rd = std::fs::read_dir("/proc/self/task").ok()?;
    for e in rd.flatten() {
        let p = e.path();
        if let Ok(comm) = std::fs::read_to_string(p.join("comm")) {
            if comm.trim_end() == name {
                return p.file_name()?.to_str()?.parse().ok();
            }
        }
    }
    None
}

/// Some(true): blocked (sleeping); Some(false): running or runnable; None: unknown / gone.
fn thread_blocked(tid: i32) -> Option<bool> {
    let text = std::fs::read_to_string(format!("/proc/self/task/{tid}/stat")).ok()?;
    let rest = &text[text.rfind(')')? + 1..];
    let state = rest.split_whitespace().next()?;
    Some(matches!(state, "S" | "D"))
}

/// Periodic sample of (loop iterations moved?, thread blocked?) for every resource.
struct BlockWatch {
    last: Instant,
    iters: Vec<u64>,
}

impl BlockWatch {
    fn new(live: &[Live]) -> BlockWatch {
        BlockWatch { last: Instant::now(), iters: live.iter().map(|l| l.clock.iters.load(SeqCst)).collect() }
    }
    fn tick(&mut self, live: &mut [Live]) -> Option<Vec<(bool, Option<bool>)>> {
        if self.last.elapsed() < SAMPLE_EVERY {
            return None;
        }
        self.last = Instant::now();
        let mut out = Vec::new();
        for (i, l) in live.iter_mut().enumerate() {
            let it = l.clock.iters.load(SeqCst);
            let moved = it != self.iters[i];
            self.iters[i] = it;
            if l.tid.is_none() {
                l.tid = find_tid(&l.name);
            }
            let blocked = l.tid.and_then(thread_blocked);
            out.push((moved, blocked));
        }
        Some(out)
    }
}

/// Polling helper of the controller: yields first, then sleeps (so that the controller does not
/// compete with the resource threads for the CPU), counting its long sleeps as ticks.
struct Waiter {
    polls: u32,
    ticks: u64,
    t0: Instant,
}

impl Waiter {
    fn new() -> Waiter {
        Waiter { polls: 0, ticks: 0, t0: Instant::now() }
    }
    fn pause(&mut self) {
        self.polls = self.polls.saturating_add(1);
        if self.polls < 64 {
            std::thread::yield_now();
        } else if self.polls < 256 {
            std::thread::sleep(StdDuration::from_micros(100));
        } else {
            std::thread::sleep(StdDuration::from_millis(2));
            self.ticks += 1;
        }
    }
    /// bound of a helper wait (giving up is silent: nothing is asserted)
    fn helper_expired(&self, ms: u64) -> bool {
        self.t0.elapsed() > StdDuration::from_millis(ms)
    }
    fn last_resort(&self) -> bool {
        self.ticks >= LAST_RESORT_TICKS && self.t0.elapsed() >= LAST_RESORT
    }
}

#[derive(Clone, Debug)]
pub enum Inner {
    Std(StdClock),
    Manual(ManualClock),
}

/// The clock handed to a resource: delegates to the real clock and counts `now()` calls.
/// The resource loop calls `now()` exactly once per iteration (paused or not), so `iters`
/// is the number of loop iterations seen from outside. The controller never calls `now()`.
#[derive(Clone, Debug)]
pub struct AnyClock {
    pub inner: Inner,
    pub iters: Arc<AtomicU64>,
}

impl AnyClock {
    fn manual(&self) -> Option<&ManualClock> {
        match &self.inner {
            Inner::Manual(c) => Some(c),
            Inner::Std(_) => None,
        }
    }
}

impl Clock for AnyClock {
    fn now(&self) -> Duration {
        self.iters.fetch_add(1, SeqCst);
        match &self.inner {
            Inner::Std(c) => c.now(),
            Inner::Manual(c) => c.now(),
        }
    }
    fn sleep_until(&self, deadline: Duration) {
        match &self.inner {
            Inner::Std(c) => c.sleep_until(deadline),
            Inner::Manual(c) => c.sleep_until(deadline),
        }
    }
    fn wake(&self) {
        match &self.inner {
            Inner::Std(c) => c.wake(),
            Inner::Manual(c) => c.wake(),
        }
    }
}

/// What the I/O driver of a resource sees: one `read_inputs` at the start and one
/// `write_outputs` at the end of every cycle, the latter with the private counters.
#[derive(Default)]
pub struct Cell {
    pub started: AtomicU64,
    pub finished: AtomicU64,
    pub n: AtomicI64,
    /// largest values of the program's `bad` / `hbad` counters seen (they start over when the
    /// resource is restarted)
    pub bad: AtomicI64,
    pub hbad: AtomicI64,
    /// program bodies executed since the spawn, counted by the driver through the token echo
    /// (the program's own `n` starts over when the resource is restarted)
    pub bodies: AtomicI64,
    /// retained variable `r` as the last executed body left it
    pub rout: AtomicI64,
}

/// One executed program body, as its resource's I/O driver saw it in `write_outputs`:
/// the values of the non-monotone shared variables the cycle started from (`o`) and left
/// behind (`e`), in the order of `NON_MONOTONE`. `write_outputs` runs inside the cycle and so
/// inside the shared-globals lock: the order of the log is the order of the cycles.
#[derive(Clone, Debug)]
pub struct Entry {
    pub res: u8,
    pub n: i32,
    pub o: [i32; 6],
    pub e: [i32; 6],
}

pub const LOG_CAP: usize = 200_000;

#[derive(Default)]
pub struct CycleLog {
    pub entries: Mutex<Vec<Entry>>,
    pub truncated: std::sync::atomic::AtomicBool,
}

struct Drv {
    cell: Arc<Cell>,
    log: Arc<CycleLog>,
    res: u8,
    token: i32,
}

impl IoDriver for Drv {
    fn read_inputs(&mut self, inputs: &mut [u8]) -> Result<(), RuntimeError> {
        self.token = self.token.wrapping_add(1);
        if inputs.len() >= 4 {
            inputs[..4].copy_from_slice(&self.token.to_le_bytes());
        }
        self.cell.started.fetch_add(1, SeqCst);
        Ok(())
    }
    fn write_outputs(&mut self, o: &[u8]) -> Result<(), RuntimeError> {
        if o.len() >= 68 {
            let d = |k: usize| i32::from_le_bytes([o[4 * k], o[4 * k + 1], o[4 * k + 2], o[4 * k + 3]]);
            let n = d(0);
            self.cell.n.store(n as i64, SeqCst);
            self.cell.bad.fetch_max(d(1) as i64, SeqCst);
            self.cell.hbad.fetch_max(d(14) as i64, SeqCst);
            if d(15) == self.token {
                // the program body ran in this cycle (it echoed this cycle's token)
                self.cell.rout.store(d(16) as i64, SeqCst);
                self.cell.bodies.fetch_add(1, SeqCst);
                let mut log = self.log.entries.lock().unwrap();
                if log.len() < LOG_CAP {
                    log.push(Entry {
                        res: self.res,
                        n,
                        o: [d(2), d(3), d(4), d(5), d(6), d(7)],
                        e: [d(8), d(9), d(10), d(11), d(12), d(13)],
                    });
                } else {
                    self.log.truncated.store(true, SeqCst);
                }
            }
        }
        self.cell.finished.fetch_add(1, SeqCst);
        Ok(())
    }
}

#[derive(Default)]
pub struct StoreLog {
    /// (value of `r`, number of values) of every stored snapshot
    pub snaps: Mutex<Vec<(i64, usize)>>,
    pub count: AtomicU64,
}

struct Store {
    log: Arc<StoreLog>,
    spin: u32,
    init: i64,
}

impl RetainStore for Store {
    fn load(&self) -> Result<RetainSnapshot, RuntimeError> {
        let mut s = RetainSnapshot::default();
        s.insert("r", Value::DInt(self.init as i32));
        Ok(s)
    }
    fn store(&self, snapshot: &RetainSnapshot) -> Result<(), RuntimeError> {
        for _ in 0..self.spin {
            std::hint::spin_loop();
        }
        let r = snapshot.values().get("r").and_then(val_i64).unwrap_or(i64::MIN);
        self.log.snaps.lock().unwrap().push((r, snapshot.values().len()));
        self.log.count.fetch_add(1, SeqCst);
        Ok(())
    }
}

pub fn val_i64(v: &Value) -> Option<i64> {
    match v {
        Value::SInt(x) => Some(*x as i64),
        Value::Int(x) => Some(*x as i64),
        Value::DInt(x) => Some(*x as i64),
        Value::LInt(x) => Some(*x),
        Value::Bool(b) => Some(*b as i64),
        _ => None,
    }
}

pub enum RepEnd {
    Ok(RepStats),
    Violation(String),
    /// a liveness bound of the property was exceeded (once = inconclusive, twice = violation)
    Hang(String),
    Infra(String),
}

#[derive(Default, Clone, Debug)]
pub struct RepStats {
    pub overlapped: usize,
    pub inflight_pause: bool,
    pub inflight_stop: bool,
    pub windows: u32,
    pub fault_observed: bool,
    pub others_progressed: bool,
    pub stop_while_paused: bool,
    pub stop_while_gated: bool,
    pub poll_saw_stopped: bool,
    pub faulted_final: bool,
    pub cycles: u64,
    pub samples: u32,
    pub pause_unobserved: bool,
    pub chased: bool,
    pub log_truncated: bool,
    pub restart_signals: u32,
    pub fault_restarts: u64,
}

struct Live {
    ctl: ResourceControl<AnyClock>,
    handle: Option<ResourceHandle<AnyClock>>,
    cell: Arc<Cell>,
    log: Arc<StoreLog>,
    clock: AnyClock,
    /// 0 = none yet, 1 = pause, 2 = resume (last pause/resume command sent)
    last_cmd: u8,
    stop_called: bool,
    /// Some((started, op index)) = state Paused was observed while the last command sent
    /// was pause: no cycle may start until resume() is called
    window: Option<(u64, usize)>,
    /// (cycles started, loop iterations) right after the last pause() / resume() returned
    pause_ref: Option<(u64, u64)>,
    resume_ref: Option<(u64, u64)>,
    /// loop iterations right after stop() returned
    stop_ref: Option<u64>,
    stores_at_stopped: Option<u64>,
    f_first: u64,
    f_last: u64,
    joined: Option<bool>,
    name: String,
    tid: Option<i32>,
    restart: RestartSignal,
}

struct Rig<'a> {
    s: &'a Script,
    live: Vec<Live>,
    shared: SharedGlobals,
    gate: Option<Arc<StartGate>>,
    gate_open: bool,
    join_tx: mpsc::Sender<(usize, bool)>,
    join_rx: mpsc::Receiver<(usize, bool)>,
    stats: RepStats,
    last_counter: Vec<i64>,
    op_idx: usize,
    cycle_log: Arc<CycleLog>,
}

fn data_err(m: String) -> RepEnd {
    if m.starts_with("infrastructure:") {
        RepEnd::Infra(m)
    } else {
        RepEnd::Violation(m)
    }
}

fn err_v<T>(m: String) -> Result<T, RepEnd> {
    Err(RepEnd::Violation(m))
}

pub type RestartSignal = Arc<Mutex<Option<trust_runtime::RestartMode>>>;

pub struct Prepared {
    pub runners: Vec<(ResourceRunner<AnyClock>, Arc<Cell>, Arc<StoreLog>, AnyClock, RestartSignal)>,
    pub shared: SharedGlobals,
    pub cycle_log: Arc<CycleLog>,
}

/// Compile the programs of a script and wire every runtime to its driver, store and clock.
pub fn prepare(s: &Script, clock_kind: u8, gate: Option<&Arc<StartGate>>) -> Result<Prepared, RepEnd> {
    let n = s.resources.len();
    let mut runtimes = Vec::new();
    for i in 0..n {
        let src = source_for(s, i);
        match TestHarness::from_source(&src) {
            Ok(h) => runtimes.push(h.into_runtime()),
            Err(e) => return Err(RepEnd::Infra(format!("generated source rejected: {e:?}\n{src}"))),
        }
    }
    let names: Vec<SmolStr> = s.shared_names().into_iter().map(SmolStr::new).collect();
    let shared = match SharedGlobals::from_runtime(names, &runtimes[0]) {
        Ok(x) => x,
        Err(e) => return Err(RepEnd::Infra(format!("SharedGlobals::from_runtime: {e:?}"))),
    };
    let shared_clock = ManualClock::new();
    let cycle_log = Arc::new(CycleLog::default());
    let mut runners = Vec::new();
    for (i, mut rt) in runtimes.into_iter().enumerate() {
        let res = &s.resources[i];
        let cell = Arc::new(Cell::default());
        let log = Arc::new(StoreLog::default());
        // the input image is sized lazily; the driver needs its 4 token bytes to exist
        let (ins, outs, mem) = (rt.io().inputs().len().max(4), rt.io().outputs().len().max(68), rt.io().memory().len());
        rt.io_mut().resize(ins, outs, mem);
        rt.add_io_driver(
            "c20",
            Box::new(Drv { cell: cell.clone(), log: cycle_log.clone(), res: i as u8, token: 0 }),
        );
        if res.fault_restart {
            rt.set_fault_policy(trust_runtime::watchdog::FaultPolicy::Restart);
        }
        if let Some(t) = res.watchdog_restart_ns {
            rt.set_watchdog_policy(trust_runtime::watchdog::WatchdogPolicy {
                enabled: true,
                timeout: Duration::from_nanos(t),
                action: trust_runtime::watchdog::WatchdogAction::Restart,
            });
        }
        rt.set_retain_store(
            Some(Box::new(Store { log: log.clone(), spin: res.store_spin, init: res.retain_init })),
            res.retain_interval_ns.map(Duration::from_nanos),
        );
        if res.load_retain {
            if let Err(e) = rt.load_retain_store() {
                return Err(RepEnd::Infra(format!("load_retain_store: {e:?}")));
            }
        }
        let clock = AnyClock {
            inner: match clock_kind {
                0 => Inner::Std(StdClock::new()),
                1 => Inner::Manual(ManualClock::new()),
                _ => Inner::Manual(shared_clock.clone()),
            },
            iters: Arc::new(AtomicU64::new(0)),
        };
        let signal: RestartSignal = Arc::new(Mutex::new(None));
        let mut runner = ResourceRunner::new(rt, clock.clone(), Duration::from_nanos(s.interval_ns))
            .with_restart_signal(signal.clone());
        if res.gated {
            if let Some(g) = gate {
                runner = runner.with_start_gate(g.clone());
            }
        }
        runners.push((runner, cell, log, clock, signal));
    }
    Ok(Prepared { runners, shared, cycle_log })
}

/// The data invariants ("no lost update", "snapshot atomic with its write-back") on the
/// counters of the drivers, the cycle log and the shared map. Valid whenever no cycle is in
/// flight: after all threads are joined, or between two ticks of the single-threaded driver.
pub fn evaluate(s: &Script, cells: &[Arc<Cell>], log: &CycleLog, shared: &SharedGlobals) -> Result<(), String> {
    let get = |name: &str| -> Result<i64, String> {
        match shared.get(name) {
            Some(v) => val_i64(&v).ok_or_else(|| format!("infrastructure: shared {name} holds {v:?}")),
            None => Err(format!("infrastructure: shared {name} missing")),
        }
    };
    let n_final: Vec<i64> = cells.iter().map(|c| c.bodies.load(SeqCst)).collect();
    for (i, c) in cells.iter().enumerate() {
        let bad = c.bad.load(SeqCst);
        if bad != 0 {
            return Err(format!(
                "resource {i} saw a half-updated pair (a_k <> b_k) in the snapshot of {bad} of its {} cycles",
                n_final[i]
            ));
        }
        let hbad = c.hbad.load(SeqCst);
        if hbad != 0 {
            return Err(format!(
                "resource {i} started {hbad} of its {} cycles from a snapshot that breaks the handshake invariant (sent - handled = 1 exactly while req is TRUE): an update of req, sent or handled was lost",
                n_final[i]
            ));
        }
    }
    for j in 0..s.counters.len() {
        let c = get(&format!("c{j}"))?;
        let want = s.counters[j] + s.resources.iter().zip(&n_final).map(|(r, n)| r.weights[j] * *n).sum::<i64>();
        if c != want {
            let w: Vec<i64> = s.resources.iter().map(|r| r.weights[j]).collect();
            return Err(format!(
                "lost update: shared counter c{j} = {c}, but initial {} + sum(weights {w:?} x executed bodies {n_final:?}) = {want}",
                s.counters[j]
            ));
        }
    }
    for k in 0..s.pairs.len() {
        let a = get(&format!("a{k}"))?;
        let b = get(&format!("b{k}"))?;
        let want = s.pairs[k]
            + s.resources
                .iter()
                .zip(&n_final)
                .map(|(r, n)| if r.pair_mask & (1 << k) != 0 { *n } else { 0 })
                .sum::<i64>();
        if a != b || a != want {
            return Err(format!("pair {k}: a{k} = {a}, b{k} = {b}, expected both = {want} (bodies {n_final:?})"));
        }
    }
    // the chain: every executed body started from exactly what the previous one (in the order
    // of the cycles under the lock) left behind
    let entries = log.entries.lock().unwrap();
    let mut prev: [i64; 6] = NON_MONOTONE_INIT;
    let mut prev_who: Option<(u8, i32)> = None;
    for (idx, e) in entries.iter().enumerate() {
        for v in 0..6 {
            if e.o[v] as i64 != prev[v] {
                let left = match prev_who {
                    Some((r, n)) => format!("the previous cycle under the lock (body {n} of resource {r}) left {} = {}", NON_MONOTONE[v], prev[v]),
                    None => format!("the initial value of {} is {}", NON_MONOTONE[v], prev[v]),
                };
                return Err(format!(
                    "lost update / stale snapshot: body {} of resource {} (cycle {idx} in lock order) started from {} = {}, but {left}; start values {:?} vs left behind {:?} (order {:?})",
                    e.n, e.res, NON_MONOTONE[v], e.o[v], e.o, prev, NON_MONOTONE
                ));
            }
        }
        // what the body itself must have produced from its snapshot
        let res = &s.resources[e.res as usize];
        let mut want = [e.res as i64, e.n as i64, res.flag_val as i64, e.o[3] as i64, e.o[4] as i64, e.o[5] as i64];
        if res.producer && e.o[3] == 0 {
            want[3] = 1;
            want[4] += 1;
        } else if !res.producer && e.o[3] == 1 {
            want[3] = 0;
            want[5] += 1;
        }
        for v in 0..6 {
            if e.e[v] as i64 != want[v] {
                return Err(format!(
                    "infrastructure: body {} of resource {} left {} = {} where its program computes {} from its snapshot",
                    e.n, e.res, NON_MONOTONE[v], e.e[v], want[v]
                ));
            }
            prev[v] = e.e[v] as i64;
        }
        prev_who = Some((e.res, e.n));
    }
    if !log.truncated.load(SeqCst) {
        for v in 0..6 {
            let now = get(NON_MONOTONE[v])?;
            if now != prev[v] {
                let who = match prev_who {
                    Some((r, n)) => format!("the last cycle under the lock (body {n} of resource {r}) left {}", prev[v]),
                    None => format!("no body ran and the initial value is {}", prev[v]),
                };
                return Err(format!(
                    "lost update: shared {} = {now}, but {who} (w = last writer, ws = its sequence number)",
                    NON_MONOTONE[v]
                ));
            }
        }
        let (req, sent, handled) = (prev[3], prev[4], prev[5]);
        if sent - handled != req {
            return Err(format!("handshake broken: sent = {sent}, handled = {handled}, req = {req}"));
        }
    }
    Ok(())
}

/// Single-threaded driver: the runners of a script ticked with `tick_with_shared` in a fixed
/// order; the data invariants are evaluated after every tick.
pub fn run_ticks(s: &Script, order: &[u8]) -> RepEnd {
    let Prepared { mut runners, shared, cycle_log } = match prepare(s, 1, None) {
        Ok(p) => p,
        Err(e) => return e,
    };
    let cells: Vec<Arc<Cell>> = runners.iter().map(|r| r.1.clone()).collect();
    for (k, who) in order.iter().enumerate() {
        let i = (*who & 0x3f) as usize % runners.len();
        if *who & 0x80 != 0 {
            // tick_with_shared does not look at the restart signal or the fault policy; restart
            // the runner's runtime directly between two ticks (0x80 warm, 0xC0 cold). The
            // shared set must be untouched by it.
            let mode = if *who & 0x40 != 0 { trust_runtime::RestartMode::Cold } else { trust_runtime::RestartMode::Warm };
            if let Err(e) = runners[i].0.runtime_mut().restart(mode) {
                return RepEnd::Infra(format!("restart in tick order failed: {e:?}"));
            }
            if let Err(m) = evaluate(s, &cells, &cycle_log, &shared) {
                return data_err(format!("{}after restart {k} (resource {i}) of order {order:?}: {m}", if m.starts_with("infrastructure:") { "infrastructure: " } else { "" }));
            }
            continue;
        }
        if let Some(c) = runners[i].3.manual() {
            c.advance(Duration::from_millis(1));
        }
        // a faulting cycle returns Err; the data invariants hold regardless
        let _ = runners[i].0.tick_with_shared(&shared);
        if let Err(m) = evaluate(s, &cells, &cycle_log, &shared) {
            return data_err(format!("{}after tick {k} (resource {i}) of order {order:?}: {m}", if m.starts_with("infrastructure:") { "infrastructure: " } else { "" }));
        }
    }
    RepEnd::Ok(RepStats::default())
}

impl<'a> Rig<'a> {
    fn build(s: &'a Script) -> Result<Rig<'a>, RepEnd> {
        let gate = if s.any_gated() { Some(Arc::new(StartGate::new())) } else { None };
        let Prepared { runners: prepared, shared, cycle_log } = prepare(s, s.clock, gate.as_ref())?;
        let (join_tx, join_rx) = mpsc::channel();
        let mut live = Vec::new();
        // nothing can fail between here and the end of the spawns except the spawn itself
        for (i, (runner, cell, log, clock, restart)) in prepared.into_iter().enumerate() {
            let handle = match runner.spawn_with_shared(format!("c20-r{i}"), shared.clone()) {
                Ok(h) => h,
                Err(e) => {
                    // stop what is already running, then give up on this repetition
                    for l in live.iter_mut() {
                        let l: &mut Live = l;
                        l.ctl.stop();
                        if let Some(g) = gate.as_ref() {
                            g.open();
                        }
                        if let Some(mut h) = l.handle.take() {
                            let _ = h.join();
                        }
                    }
                    return Err(RepEnd::Infra(format!("spawn failed: {e:?}")));
                }
            };
            live.push(Live {
                ctl: handle.control(),
                handle: Some(handle),
                cell,
                log,
                clock,
                last_cmd: 0,
                stop_called: false,
                window: None,
                pause_ref: None,
                resume_ref: None,
                stop_ref: None,
                stores_at_stopped: None,
                f_first: 0,
                f_last: 0,
                joined: None,
                name: format!("c20-r{i}"),
                tid: None,
                restart,
            });
        }
        Ok(Rig {
            s,
            live,
            shared,
            gate,
            gate_open: false,
            join_tx,
            join_rx,
            stats: RepStats::default(),
            last_counter: s.counters.clone(),
            op_idx: 0,
            cycle_log,
        })
    }

    fn gate_passable(&self, i: usize) -> bool {
        !self.s.resources[i].gated || self.gate_open
    }

    fn terminal(&self, i: usize) -> bool {
        matches!(self.live[i].ctl.state(), ResourceState::Faulted | ResourceState::Stopped)
    }

    /// The resource will execute cycles without anybody calling resume().
    fn can_progress(&self, i: usize) -> bool {
        let l = &self.live[i];
        !l.stop_called && l.last_cmd != 1 && self.gate_passable(i) && !self.terminal(i)
    }

    /// Advance manual clocks so that sleeping resources and interval tasks get going.
    fn drive(&self, only: Option<usize>) {
        if !self.s.manual() {
            return;
        }
        let step = Duration::from_nanos(self.s.interval_ns.max(1_000_000));
        match (self.s.clock, only) {
            (2, _) => {
                if let Some(c) = self.live[0].clock.manual() {
                    c.advance(step);
                }
            }
            (_, Some(i)) => {
                if let Some(c) = self.live[i].clock.manual() {
                    c.advance(step);
                }
            }
            (_, None) => {
                for l in &self.live {
                    if let Some(c) = l.clock.manual() {
                        c.advance(step);
                    }
                }
            }
        }
    }

    /// Open "paused" windows where Paused is observed while the last command sent is pause,
    /// and check every open window: no cycle may have started.
    fn watch(&mut self) -> Result<(), RepEnd> {
        let op_idx = self.op_idx;
        for (i, l) in self.live.iter_mut().enumerate() {
            if l.window.is_none() && !l.stop_called && l.last_cmd == 1 && l.ctl.state() == ResourceState::Paused {
                l.window = Some((l.cell.started.load(SeqCst), op_idx));
                self.stats.windows += 1;
            }
            if let Some((s0, at)) = l.window {
                let s1 = l.cell.started.load(SeqCst);
                if s1 != s0 {
                    return err_v(format!(
                        "resource {i} executed a cycle while paused: state() was observed Paused at op {at} with {s0} cycles started (last command sent: pause, no resume() since), now {s1} cycles started (op {op_idx})"
                    ));
                }
            }
            // Progress criteria (independent of machine speed). Read the counters first and
            // the state last: a state that is still "wrong" after the counters moved that far
            // cannot be a stale read.
            if l.stop_called {
                if let (Some(i0), None) = (l.stop_ref, l.joined) {
                    let i1 = l.clock.iters.load(SeqCst);
                    if i1 > i0 + PROGRESS_SLACK {
                        return err_v(format!(
                            "resource {i} kept looping after stop() returned: {} further loop iterations (state {:?}, op {op_idx}); the loop looks at the stop flag once per iteration",
                            i1 - i0,
                            l.ctl.state()
                        ));
                    }
                }
                continue;
            }
            if let (1, Some((s0, i0))) = (l.last_cmd, l.pause_ref) {
                let i1 = l.clock.iters.load(SeqCst);
                let s1 = l.cell.started.load(SeqCst);
                let st = l.ctl.state();
                let live = !matches!(st, ResourceState::Faulted | ResourceState::Stopped);
                if live && s1 > s0 + PROGRESS_SLACK {
                    return err_v(format!(
                        "pause() on resource {i} had no effect: {} further cycles started after pause() returned (state {st:?}, op {op_idx})",
                        s1 - s0
                    ));
                }
                if live && st != ResourceState::Paused && i1 > i0 + PROGRESS_SLACK {
                    return err_v(format!(
                        "pause() on resource {i} had no effect: {} further loop iterations after pause() returned and the state is {st:?}, not Paused (op {op_idx})",
                        i1 - i0
                    ));
                }
            }
            if let (2, Some((s0, i0))) = (l.last_cmd, l.resume_ref) {
                let gate_ok = !self.s.resources[i].gated || self.gate_open;
                let i1 = l.clock.iters.load(SeqCst);
                let s1 = l.cell.started.load(SeqCst);
                let st = l.ctl.state();
                let live = !matches!(st, ResourceState::Faulted | ResourceState::Stopped);
                if gate_ok && live && s1 == s0 && i1 > i0 + PROGRESS_SLACK {
                    return err_v(format!(
                        "resume() on resource {i} had no effect: {} further loop iterations after resume() returned but still {s0} cycles started (state {st:?}, op {op_idx})",
                        i1 - i0
                    ));
                }
            }
        }
        Ok(())
    }

    /// The controller's very next action after a wake-up: a small step of the manual clock.
    fn chase(live: &[Live], clock_kind: u8, i: usize, ns: i64, all: bool) {
        let d = Duration::from_nanos(ns);
        if clock_kind == 1 && all {
            for l in live {
                if let Some(c) = l.clock.manual() {
                    c.advance(d);
                }
            }
        } else if let Some(c) = live[i].clock.manual() {
            c.advance(d);
        }
    }

    fn do_pause(&mut self, i: usize, chase: Option<(i64, bool)>) {
        if self.live[i].stop_called {
            return;
        }
        let sb = self.live[i].cell.started.load(SeqCst);
        let _ = self.live[i].ctl.pause();
        if let Some((ns, all)) = chase {
            Self::chase(&self.live, self.s.clock, i, ns, all);
            self.stats.chased = true;
        }
        let l = &mut self.live[i];
        let fa = l.cell.finished.load(SeqCst);
        l.last_cmd = 1;
        l.resume_ref = None;
        l.pause_ref = Some((l.cell.started.load(SeqCst), l.clock.iters.load(SeqCst)));
        if fa < sb && l.ctl.state() != ResourceState::Faulted {
            self.stats.inflight_pause = true;
        }
    }

    fn do_resume(&mut self, i: usize, chase: Option<(i64, bool)>) -> Result<(), RepEnd> {
        if self.live[i].stop_called {
            return Ok(());
        }
        self.watch()?; // last look at the window before it closes
        let l = &mut self.live[i];
        l.window = None;
        l.pause_ref = None;
        l.last_cmd = 2;
        let _ = l.ctl.resume();
        if let Some((ns, all)) = chase {
            Self::chase(&self.live, self.s.clock, i, ns, all);
            self.stats.chased = true;
        }
        let l = &mut self.live[i];
        l.resume_ref = Some((l.cell.started.load(SeqCst), l.clock.iters.load(SeqCst)));
        Ok(())
    }

    fn do_stop(&mut self, i: usize, via_handle: bool, poll: bool, chase: Option<(i64, bool)>) {
        if self.live[i].stop_called {
            return;
        }
        let paused_now = self.live[i].window.is_some();
        let gated_now = !self.gate_passable(i);
        let l = &mut self.live[i];
        let sb = l.cell.started.load(SeqCst);
        match (via_handle, l.handle.as_ref()) {
            (true, Some(h)) => h.stop(),
            _ => l.ctl.stop(),
        }
        if let Some((ns, all)) = chase {
            Self::chase(&self.live, self.s.clock, i, ns, all);
            self.stats.chased = true;
        }
        let l = &mut self.live[i];
        let fa = l.cell.finished.load(SeqCst);
        l.stop_ref = Some(l.clock.iters.load(SeqCst));
        l.stop_called = true;
        if fa < sb && l.ctl.state() != ResourceState::Faulted {
            self.stats.inflight_stop = true;
        }
        self.stats.stop_while_paused |= paused_now;
        self.stats.stop_while_gated |= gated_now;
        if let Some(mut h) = l.handle.take() {
            let tx = self.join_tx.clone();
            let spawned = std::thread::Builder::new().name(format!("c20-join{i}")).spawn(move || {
                let ok = h.join().is_ok();
                let _ = tx.send((i, ok));
            });
            if spawned.is_err() {
                // cannot happen in practice; fall back to a blocking join
                l.joined = Some(true);
            }
        }
        if poll {
            for _ in 0..4000 {
                match l.ctl.state() {
                    ResourceState::Stopped => {
                        l.stores_at_stopped = Some(l.log.count.load(SeqCst));
                        self.stats.poll_saw_stopped = true;
                        break;
                    }
                    ResourceState::Faulted => break,
                    _ => std::hint::spin_loop(),
                }
            }
        }
    }

    fn get_i64(&self, name: &str) -> Result<i64, RepEnd> {
        match self.shared.get(name) {
            Some(v) => val_i64(&v).ok_or_else(|| RepEnd::Infra(format!("shared {name} holds {v:?}"))),
            None => Err(RepEnd::Infra(format!("shared {name} missing"))),
        }
    }

    fn expected_counter(&self, j: usize, n: &[i64]) -> i64 {
        self.s.counters[j]
            + self.s.resources.iter().zip(n).map(|(r, n)| r.weights[j] * *n).sum::<i64>()
    }

    fn sample(&mut self) -> Result<(), RepEnd> {
        self.stats.samples += 1;
        for k in 0..self.s.pairs.len() {
            // a and b only grow and are equal whenever the lock is free, so a value of a read
            // first can never exceed a value of b read later
            let a = self.get_i64(&format!("a{k}"))?;
            let b = self.get_i64(&format!("b{k}"))?;
            if a > b {
                return err_v(format!(
                    "half-updated pair observed through SharedGlobals::get: a{k} = {a} read first, b{k} = {b} read afterwards (op {})",
                    self.op_idx
                ));
            }
        }
        for j in 0..self.s.counters.len() {
            let before: Vec<i64> = self.live.iter().map(|l| l.cell.bodies.load(SeqCst)).collect();
            let c = self.get_i64(&format!("c{j}"))?;
            let after: Vec<i64> = self.live.iter().map(|l| l.cell.bodies.load(SeqCst)).collect();
            let lo = self.expected_counter(j, &before);
            let hi = self.expected_counter(j, &after);
            if c < lo || c > hi {
                return err_v(format!(
                    "shared counter c{j} = {c} outside [{lo}, {hi}] implied by the per-resource body counts read before {before:?} / after {after:?} (lost or duplicated update, op {})",
                    self.op_idx
                ));
            }
            if c < self.last_counter[j] {
                return err_v(format!(
                    "shared counter c{j} went backwards: {} then {c} (op {})",
                    self.last_counter[j], self.op_idx
                ));
            }
            self.last_counter[j] = c;
        }
        Ok(())
    }

    fn exec(&mut self, op: &Op) -> Result<(), RepEnd> {
        match op {
            Op::Pause(r) => self.do_pause(*r as usize, None),
            Op::Resume(r) => self.do_resume(*r as usize, None)?,
            Op::Stop { r, via_handle, poll } => self.do_stop(*r as usize, *via_handle, *poll, None),
            Op::Chased { cmd, r, via_handle, ns, all } => match cmd {
                0 => self.do_pause(*r as usize, Some((*ns, *all))),
                1 => self.do_resume(*r as usize, Some((*ns, *all)))?,
                _ => self.do_stop(*r as usize, *via_handle, false, Some((*ns, *all))),
            },
            Op::Advance { r, ns } => {
                let d = Duration::from_nanos(*ns);
                match (self.s.clock, r) {
                    (0, _) => {}
                    (1, Some(i)) => {
                        if let Some(c) = self.live[*i as usize].clock.manual() {
                            c.advance(d);
                        }
                    }
                    (1, None) => {
                        for l in &self.live {
                            if let Some(c) = l.clock.manual() {
                                c.advance(d);
                            }
                        }
                    }
                    _ => {
                        if let Some(c) = self.live[0].clock.manual() {
                            c.advance(d);
                        }
                    }
                }
            }
            Op::OpenGate => {
                if let Some(g) = self.gate.as_ref() {
                    g.open();
                }
                self.gate_open = true;
            }
            Op::Yield(n) => {
                for _ in 0..*n {
                    std::thread::yield_now();
                }
            }
            Op::Spin(n) => {
                for _ in 0..*n {
                    std::hint::spin_loop();
                }
            }
            Op::SleepUs(us) => std::thread::sleep(StdDuration::from_micros(*us as u64)),
            Op::AwaitPaused(r) => {
                let i = *r as usize;
                let l = &self.live[i];
                if !l.stop_called && l.last_cmd == 1 && self.gate_passable(i) {
                    // helper wait: gives up silently (a thread starved at the shared lock may
                    // take arbitrarily long to reach its next drain; watch() judges by progress)
                    let mut w = Waiter::new();
                    loop {
                        self.watch()?;
                        if self.live[i].window.is_some() || self.terminal(i) {
                            break;
                        }
                        if w.helper_expired(2000) {
                            self.stats.pause_unobserved = true;
                            break;
                        }
                        w.pause();
                    }
                }
            }
            Op::AwaitCycles { r, n } => {
                let i = *r as usize;
                if self.can_progress(i) {
                    let resumed_from = if self.live[i].last_cmd == 2 { self.live[i].resume_ref } else { None };
                    let target = self.live[i].cell.finished.load(SeqCst) + *n as u64;
                    let bound_ms = if resumed_from.is_some() { 2000 } else { 50 };
                    let mut w = Waiter::new();
                    let mut bw = BlockWatch::new(&self.live);
                    let mut streak = 0u32;
                    loop {
                        self.watch()?; // carries the progress criterion for resume()
                        let l = &self.live[i];
                        let done = match resumed_from {
                            Some((s0, _)) => l.cell.started.load(SeqCst) > s0,
                            None => l.cell.finished.load(SeqCst) >= target,
                        };
                        if done || self.terminal(i) {
                            break;
                        }
                        if resumed_from.is_some() {
                            // resume() must get the resource going without help from the clock.
                            // Hung = it makes no loop iteration, its thread is blocked, and no
                            // other resource iterates either (so it is not waiting for the
                            // shared lock), at BLOCKED_SAMPLES consecutive samples.
                            if let Some(sample) = bw.tick(&mut self.live) {
                                let quiet = sample.iter().all(|(moved, _)| !*moved);
                                if quiet && sample[i].1 == Some(true) {
                                    streak += 1;
                                } else {
                                    streak = 0;
                                }
                                if streak >= BLOCKED_SAMPLES {
                                    return Err(RepEnd::Hang(format!(
                                        "resume() on resource {i} had no effect: no loop iteration, thread blocked and no other resource running at {BLOCKED_SAMPLES} consecutive samples over {} s (state {:?}, clock kind {}, interval {} ns, op {})",
                                        w.t0.elapsed().as_secs(),
                                        self.live[i].ctl.state(),
                                        self.s.clock,
                                        self.s.interval_ns,
                                        self.op_idx
                                    )));
                                }
                            }
                            if streak == 0 && w.helper_expired(bound_ms) {
                                break;
                            }
                        } else {
                            if w.helper_expired(bound_ms) {
                                break;
                            }
                            self.drive(Some(i));
                        }
                        w.pause();
                    }
                }
            }
            Op::AwaitFault => {
                if let Some(f) = self.s.fault_res() {
                    if self.can_progress(f) && self.s.resources[f].watchdog_restart_ns.is_none() {
                        let mut w = Waiter::new();
                        let mut seen = false;
                        loop {
                            self.watch()?;
                            match self.live[f].ctl.state() {
                                ResourceState::Faulted => {
                                    seen = true;
                                    break;
                                }
                                ResourceState::Stopped => break,
                                _ => {}
                            }
                            if w.helper_expired(250) {
                                break;
                            }
                            self.drive(None);
                            w.pause();
                        }
                        if seen {
                            self.stats.fault_observed = true;
                            let others: Vec<(usize, u64)> = (0..self.live.len())
                                .filter(|j| *j != f && self.can_progress(*j))
                                .map(|j| (j, self.live[j].cell.finished.load(SeqCst)))
                                .collect();
                            let mut w = Waiter::new();
                            loop {
                                self.watch()?;
                                let blocked: Vec<usize> = others
                                    .iter()
                                    .filter(|(j, f0)| {
                                        self.live[*j].cell.finished.load(SeqCst) <= *f0 && !self.terminal(*j)
                                    })
                                    .map(|(j, _)| *j)
                                    .collect();
                                if blocked.is_empty() {
                                    if !others.is_empty() {
                                        self.stats.others_progressed = true;
                                    }
                                    break;
                                }
                                if w.last_resort() {
                                    return Err(RepEnd::Hang(format!(
                                        "after resource {f} faulted, resource(s) {blocked:?} completed no further cycle for {} s / {} controller ticks (op {})",
                                        LAST_RESORT.as_secs(),
                                        w.ticks,
                                        self.op_idx
                                    )));
                                }
                                self.drive(None);
                                w.pause();
                            }
                        }
                    }
                }
            }
            Op::Sample => self.sample()?,
            Op::Restart { r, cold } => {
                let i = *r as usize;
                if !self.live[i].stop_called {
                    let mode = if *cold { trust_runtime::RestartMode::Cold } else { trust_runtime::RestartMode::Warm };
                    *self.live[i].restart.lock().unwrap() = Some(mode);
                    self.stats.restart_signals += 1;
                }
            }
            Op::Snapshot(r) => {
                let i = *r as usize;
                if !self.live[i].stop_called {
                    let (tx, rx) = mpsc::channel();
                    let _ = self.live[i].ctl.send_command(ResourceCommand::MeshSnapshot {
                        names: vec![SmolStr::new("n"), SmolStr::new("bad")],
                        respond_to: tx,
                    });
                    if self.can_progress(i) || self.live[i].window.is_some() {
                        let _ = rx.recv_timeout(StdDuration::from_millis(5));
                    }
                }
            }
        }
        Ok(())
    }

    /// Stop whatever is still running and join every thread. A thread that keeps looping after
    /// stop() is a violation by progress; a thread that shows no progress at all is waited for
    /// up to the last-resort bound (Hang: once = inconclusive, twice in a row = violation). In
    /// both cases the threads are then made to exit by other means so nothing outlives the case.
    fn shutdown(&mut self) -> Result<(), RepEnd> {
        for l in self.live.iter_mut() {
            l.f_last = l.cell.finished.load(SeqCst);
        }
        let n = self.live.len();
        let order: Vec<usize> = if self.s.final_rev { (0..n).rev().collect() } else { (0..n).collect() };
        for i in order {
            let chase = self.s.final_advance_ns.map(|ns| (ns, false));
            self.do_stop(i, self.s.final_via_handle, self.s.final_poll, chase);
        }
        let problem = match self.collect_joins(true) {
            Ok(()) => return Ok(()),
            Err(p) => p,
        };
        // make the threads exit by other means
        if let Some(g) = self.gate.as_ref() {
            g.open();
        }
        for l in &self.live {
            if let Some(c) = l.clock.manual() {
                c.interrupt();
                c.advance(Duration::from_millis(1000));
            }
            let _ = l.ctl.resume();
            l.ctl.stop();
        }
        if self.collect_joins(false).is_err() {
            eprintln!("C20: resource threads cannot be made to exit; aborting the worker (the journal names the case)");
            std::process::exit(101);
        }
        Err(problem)
    }

    /// Wait until every joiner reported. `judge` = apply the stop progress criterion.
    fn collect_joins(&mut self, judge: bool) -> Result<(), RepEnd> {
        let mut w = Waiter::new();
        let mut bw = BlockWatch::new(&self.live);
        let mut streak = vec![0u32; self.live.len()];
        loop {
            while let Ok((i, ok)) = self.join_rx.try_recv() {
                self.live[i].joined = Some(ok);
            }
            if self.live.iter().all(|l| l.joined.is_some()) {
                return Ok(());
            }
            if judge {
                self.watch()?;
                if let Some(sample) = bw.tick(&mut self.live) {
                    for (i, (moved, blocked)) in sample.iter().enumerate() {
                        if self.live[i].joined.is_none() && !*moved && *blocked == Some(true) {
                            streak[i] += 1;
                        } else {
                            streak[i] = 0;
                        }
                    }
                    let hung: Vec<usize> = (0..streak.len()).filter(|i| streak[*i] >= BLOCKED_SAMPLES).collect();
                    if !hung.is_empty() {
                        let states: Vec<ResourceState> = hung.iter().map(|i| self.live[*i].ctl.state()).collect();
                        return Err(RepEnd::Hang(format!(
                            "stop() returned but join() does not: resource(s) {hung:?} made no loop iteration and their threads were blocked at {BLOCKED_SAMPLES} consecutive samples over {} s after every resource had been told to stop, nothing advancing the clock (states {states:?}; clock kind {}, interval {} ns, gate open: {}, teardown step {:?})",
                            w.t0.elapsed().as_secs(),
                            self.s.clock,
                            self.s.interval_ns,
                            self.gate_open,
                            self.s.final_advance_ns
                        )));
                    }
                }
            }
            if w.last_resort() {
                let missing: Vec<usize> =
                    (0..self.live.len()).filter(|i| self.live[*i].joined.is_none()).collect();
                let states: Vec<ResourceState> = missing.iter().map(|i| self.live[*i].ctl.state()).collect();
                return Err(RepEnd::Hang(format!(
                    "stop() then join() did not return within {} s / {} controller ticks for resource(s) {missing:?}, which made no loop iteration either (states {states:?}; clock kind {}, interval {} ns, gate open: {})",
                    LAST_RESORT.as_secs(),
                    w.ticks,
                    self.s.clock,
                    self.s.interval_ns,
                    self.gate_open
                )));
            }
            w.pause();
        }
    }

    /// History invariants after every thread has been joined.
    fn final_checks(&mut self) -> Result<(), RepEnd> {
        let s = self.s;
        let n_final: Vec<i64> = self.live.iter().map(|l| l.cell.n.load(SeqCst)).collect();
        for (i, l) in self.live.iter().enumerate() {
            let res = &s.resources[i];
            if l.joined == Some(false) {
                return err_v(format!("thread of resource {i} panicked (join() returned Err)"));
            }
            let st = l.ctl.state();
            let started = l.cell.started.load(SeqCst);
            let finished = l.cell.finished.load(SeqCst);
            let n = n_final[i];
            self.stats.cycles += finished;
            match st {
                ResourceState::Stopped => {
                    if res.fault_restart && res.fault_at.is_some() && started >= finished {
                        // FaultPolicy::Restart: every faulted cycle was followed by a warm restart
                        self.stats.fault_restarts += started - finished;
                    } else if started != finished {
                        return err_v(format!(
                            "resource {i} ended Stopped although its cycle {started} started and never completed (fault_at = {:?}, body count {n}, last_error {:?}): a faulted resource must end Faulted",
                            res.fault_at,
                            l.ctl.last_error()
                        ));
                    }
                }
                ResourceState::Faulted => {
                    // (the private body count is stale when a restart preceded the faulting cycle)
                    let ok = res.fault_at.map(|k| k as i64 == n || s.restartable(i)).unwrap_or(false)
                        && !res.fault_restart
                        && started == finished + 1
                        && matches!(l.ctl.last_error(), Some(RuntimeError::DivisionByZero));
                    if !ok {
                        return err_v(format!(
                            "resource {i} ended Faulted unexpectedly: fault_at = {:?}, body count {n}, cycles started {started} / finished {finished}, last_error {:?}",
                            res.fault_at,
                            l.ctl.last_error()
                        ));
                    }
                    self.stats.faulted_final = true;
                }
                other => {
                    return err_v(format!(
                        "resource {i}: stop() + join() returned but the state is {other:?}, not Stopped"
                    ));
                }
            }
            if let Some((s0, at)) = l.window {
                if started != s0 {
                    return err_v(format!(
                        "resource {i} executed a cycle while paused: Paused observed at op {at} with {s0} cycles started, never resumed, {started} cycles started after join"
                    ));
                }
            }
            let stores = l.log.snaps.lock().unwrap().clone();
            if let Some(at_stopped) = l.stores_at_stopped {
                if at_stopped != stores.len() as u64 {
                    return err_v(format!(
                        "resource {i}: retain store was written after state() already reported Stopped ({at_stopped} store calls when Stopped was observed, {} after join)",
                        stores.len()
                    ));
                }
            }
            if st == ResourceState::Stopped {
                // what a restart does to the private retained variable is C09's business: the value
                // is only compared for resources that are never restarted
                let exact = !s.restartable(i);
                let r_expected = if res.load_retain { res.retain_init } else { 0 } + n;
                if finished >= 1 {
                    match stores.last() {
                        None => {
                            return err_v(format!(
                                "resource {i} completed {finished} cycles and was stopped, but the retain store was never written (final retained r = {r_expected})"
                            ))
                        }
                        Some((r, cnt)) if exact && (*r != r_expected || *cnt != 1) => {
                            return err_v(format!(
                                "resource {i}: last stored retain snapshot has r = {r} ({cnt} values), final retained value is r = {r_expected} (stores: {:?})",
                                tail(&stores)
                            ))
                        }
                        _ => {}
                    }
                } else if let Some((r, _)) = stores.last() {
                    if exact && *r != r_expected {
                        return err_v(format!(
                            "resource {i} never completed a cycle but stored r = {r}, retained value is {r_expected}"
                        ));
                    }
                }
                let limit = match res.retain_interval_ns {
                    None => 1,
                    Some(_) => finished as usize + 1,
                };
                if stores.len() > limit {
                    return err_v(format!(
                        "resource {i}: {} retain store writes with save cadence {:?} and {finished} completed cycles (expected at most {limit}; stop must save once): {:?}",
                        stores.len(),
                        res.retain_interval_ns,
                        tail(&stores)
                    ));
                }
            }
        }
        let cells: Vec<Arc<Cell>> = self.live.iter().map(|l| l.cell.clone()).collect();
        evaluate(s, &cells, &self.cycle_log, &self.shared).map_err(data_err)?;
        if self.cycle_log.truncated.load(SeqCst) {
            self.stats.log_truncated = true;
        }
        self.stats.overlapped = self.live.iter().filter(|l| l.f_last > l.f_first).count();
        Ok(())
    }
}

fn tail(v: &[(i64, usize)]) -> Vec<i64> {
    v.iter().rev().take(6).rev().map(|x| x.0).collect()
}

/// One repetition of a script against freshly built resources.
pub fn run_rep(s: &Script) -> RepEnd {
    let mut rig = match Rig::build(s) {
        Ok(r) => r,
        Err(e) => return e,
    };
    for l in rig.live.iter_mut() {
        l.f_first = l.cell.finished.load(SeqCst);
    }
    let mut first_problem: Option<RepEnd> = None;
    for (idx, op) in s.ops.iter().enumerate() {
        rig.op_idx = idx;
        let r = rig.exec(op).and_then(|_| rig.watch());
        if let Err(e) = r {
            first_problem = Some(e);
            break;
        }
    }
    rig.op_idx = s.ops.len();
    let down = rig.shutdown();
    if let Some(p) = first_problem {
        return p;
    }
    if let Err(e) = down {
        return e;
    }
    match rig.final_checks() {
        Ok(()) => RepEnd::Ok(rig.stats.clone()),
        Err(e) => e,
    }
}
