//! C19 - web IDE file API stays inside the project and never loses a concurrent edit.
//!
//! Search "paths": a scratch tree `S/{outside_a, project, outside_b}` with canary files,
//! hidden entries and symlinks (directory, file, dangling, to-hidden, internal) is rebuilt
//! for every case; a generated sequence of `WebIdeState` calls (every file operation x
//! generated path strings x session kind x write_enabled) runs against it. After every
//! call: `S` minus the project is byte-for-byte what it was (paths, content hashes,
//! mtimes, link targets), no reply contains a canary string, every path a reply lists is
//! an entry the project itself justifies and is not hidden, hidden entries are untouched,
//! and calls by viewer / expired / unknown sessions or with write_enabled = false leave
//! the whole tree unchanged.
//!
//! Search "history": sequential model-based histories (open / write with latest, older,
//! re-opened or guessed version / create / delete / rename of files and directories / noise) by
//! 2-3 sessions on a tree of prefix-sharing names, against a reference model of the version rule
//! (see `c19/hist.rs`); the disk must equal the model after every call.
//!
//! Search "conc": k sessions write one file from real threads following the client
//! protocol or generated deviations; successes must have pairwise distinct expected
//! versions, return expected + 1, chain on each other's content, and the file at the end
//! is the content of the success with the highest version.

use std::cell::RefCell;
use std::collections::BTreeSet;
use std::path::{Path, PathBuf};
use std::sync::atomic::{AtomicU64, Ordering};
use std::sync::Arc;

use proptest::prelude::*;
use serde::de::DeserializeOwned;
use serde::Serialize;
use serde_json::json;
use trust_runtime::web::ide::{IdeError, IdeErrorKind, IdeRole, IdeTreeNode, WebIdeState};

use crate::engine::tape::tape_strategy;
use crate::engine::{Probe, PropertyInfo, RunCtx};

#[path = "c19/conc.rs"]
mod conc;
#[path = "c19/fixture.rs"]
mod fixture;
#[path = "c19/guard.rs"]
mod guard;
#[path = "c19/hist.rs"]
mod hist;
#[path = "c19/paths.rs"]
mod paths;

use fixture::{Entry, Fixture, Snapshot};
use paths::{Call, Op, PathCase, Sess};

pub const KEY_F27: &str = "F27-file-symlink-escape";
pub const KEY_F28: &str = "F28-listing-follows-outside-symlinks";
pub const KEY_F29: &str = "F29-rename-entry-mkdir-before-session-gate";
pub const KEY_F30: &str = "F30-listing-backslash-mapping-escape";
pub const KEY_F31: &str = "F31-hidden-entry-through-internal-symlink";
pub const KEY_F32: &str = "F32-version-restarts-after-delete-or-rename";

pub fn info() -> PropertyInfo {
    PropertyInfo {
        id: "C19",
        level: "exploration",
        rule: "paths: a case = fresh scratch tree (canary files outside, hidden entries, dir/file/dangling/to-hidden/internal symlinks) + 1-7 generated WebIdeState calls; non-trivial = a call whose path/glob carries a traversal, hidden, symlink, absolute, backslash, percent-encoded, Unicode look-alike, NUL or over-long component and that got past the lexical normaliser to the file-system stage (reply Ok / NotFound / Conflict / Internal / TooLarge, or the canonical-parent 'escapes project root' refusal of a path without a lexical '..'); history: a sequential history (2-3 sessions, 5-25 calls on a tree of prefix-sharing names) in which a write based on an out-of-date version (or a guessed version 1 after a successful write) was attempted and >= 1 delete/rename succeeded; conc: a script with >= 2 writer threads whose write calls overlapped (ticket intervals intersect) and >= 1 conflict reply; distinct by SHA-256 of the call sequence / script",
        assumptions: &[
            "observation point is the WebIdeState API (what web.rs forwards request fields to verbatim); HTTP parsing/percent-decoding in web.rs is not exercised",
            "session expiry is driven through hook H1 (injected clock), never through real time",
            "symlinks, hidden entries and one backslash-named file are part of the generated fixture; the API itself cannot create symlinks",
            "an 'unknown token' is treated like an expired session (after pruning they are the same server state)",
            "hidden entries nested in a non-hidden directory may move/vanish only together with that directory when an editor renames/deletes it as a whole",
            "the project picker (browse_directory, project_selection, set_active_project) is called for crash freedom and the session gate only, not under the confinement oracle",
            "history search: the reference model knows only the property's rule (a version obtained before a later successful write/creation of the same path must not be accepted; guessed version 1 only before the first write), not the server's version arithmetic; spurious conflicts are accepted",
            "concurrency: real OS threads with generated yields/spins, 20-100 repetitions per script; interleavings are perturbed, not enumerated",
            "Linux path semantics (backslash is an ordinary file-name byte)",
            "containment: fixtures 8 directory levels below a per-worker scratch directory, every string handed to the API passes a hostile-normalisation guard (<= 8 parent-like components, absolute only inside the moat), a root process drops to uid/gid 65534 before the first call, the working directory is inside the moat; absolute system paths and unbounded '..' chains are therefore NOT part of the searched domain",
        ],
        workers_quick: 8,
        workers_thorough: 16,
        address_space_limit: 0,
        watchdog_quick_s: 3000,
        watchdog_thorough_s: 14400,
        run,
    }
}

/// Helper subcommands (child processes of this check); None = not mine.
pub fn helper(_args: &[String]) -> Option<i32> {
    None
}

// ---------------------------------------------------------------------------------------
// executing one call

#[derive(Debug)]
pub struct Outcome {
    pub ok: bool,
    pub kind: &'static str,
    /// JSON of the Ok value, or the error message
    pub reply: String,
    /// workspace paths the reply enumerates
    pub listed: Vec<String>,
    /// normalised path of a successful create/rename/delete reply
    pub result_path: Option<String>,
}

fn kind_name(k: IdeErrorKind) -> &'static str {
    match k {
        IdeErrorKind::Unauthorized => "Unauthorized",
        IdeErrorKind::Forbidden => "Forbidden",
        IdeErrorKind::NotFound => "NotFound",
        IdeErrorKind::Conflict => "Conflict",
        IdeErrorKind::InvalidInput => "InvalidInput",
        IdeErrorKind::TooLarge => "TooLarge",
        IdeErrorKind::LimitExceeded => "LimitExceeded",
        IdeErrorKind::Internal => "Internal",
    }
}

fn outcome<T: Serialize>(r: Result<T, IdeError>, listed: impl FnOnce(&T) -> Vec<String>) -> Outcome {
    match r {
        Ok(v) => Outcome {
            ok: true,
            kind: "Ok",
            reply: serde_json::to_string(&v).unwrap_or_default(),
            listed: listed(&v),
            result_path: None,
        },
        Err(e) => Outcome {
            ok: false,
            kind: kind_name(e.kind()),
            reply: e.to_string(),
            listed: Vec::new(),
            result_path: None,
        },
    }
}

fn tree_paths(nodes: &[IdeTreeNode], out: &mut Vec<String>) {
    for n in nodes {
        out.push(n.path.clone());
        tree_paths(&n.children, out);
    }
}

/// `Position` lives in a crate the harness does not depend on; it is `Deserialize`, so the
/// call site's parameter type drives the conversion.
fn pos<T: DeserializeOwned>(line: u32, character: u32) -> T {
    serde_json::from_value(json!({"line": line, "character": character})).expect("position")
}

fn opt(s: &str) -> Option<&str> {
    if s.is_empty() {
        None
    } else {
        Some(s)
    }
}

pub struct Env {
    pub fx: Fixture,
    pub ide: WebIdeState,
    pub clock: Arc<AtomicU64>,
    /// (token, lower bound of its last renewal)
    editor: Option<(String, u64)>,
    viewer: Option<(String, u64)>,
}

const TTL: u64 = 15 * 60;

impl Env {
    pub fn new(fx: Fixture) -> Env {
        let clock = Arc::new(AtomicU64::new(10_000));
        let c2 = clock.clone();
        let ide = WebIdeState::with_clock_for_verif(
            Some(fx.project.clone()),
            Arc::new(move || c2.load(Ordering::SeqCst)),
        );
        Env {
            fx,
            ide,
            clock,
            editor: None,
            viewer: None,
        }
    }

    fn now(&self) -> u64 {
        self.clock.load(Ordering::SeqCst)
    }

    fn live(&mut self, role: IdeRole) -> Result<String, String> {
        let now = self.now();
        let slot = match role {
            IdeRole::Editor => &mut self.editor,
            IdeRole::Viewer => &mut self.viewer,
        };
        if let Some((tok, renewed)) = slot {
            if now < renewed.saturating_add(TTL) {
                return Ok(tok.clone());
            }
        }
        let s = self
            .ide
            .create_session(role)
            .map_err(|e| format!("infrastructure: create_session failed: {e}"))?;
        *slot = Some((s.token.clone(), now));
        Ok(s.token)
    }

    /// Returns (token, is a valid editor session at call time).
    fn token_for(&mut self, sess: &Sess) -> Result<(String, bool), String> {
        match sess {
            Sess::Editor => Ok((self.live(IdeRole::Editor)?, true)),
            Sess::Viewer => Ok((self.live(IdeRole::Viewer)?, false)),
            Sess::AlmostExpired => {
                // a session created now and used TTL-1 seconds later is still valid
                let s = self
                    .ide
                    .create_session(IdeRole::Editor)
                    .map_err(|e| format!("infrastructure: create_session failed: {e}"))?;
                let t = self.now().saturating_add(TTL - 1);
                self.clock.store(t, Ordering::SeqCst);
                self.editor = None;
                self.viewer = None;
                Ok((s.token, true))
            }
            Sess::Expired { editor, after } => {
                let role = if *editor { IdeRole::Editor } else { IdeRole::Viewer };
                let s = self
                    .ide
                    .create_session(role)
                    .map_err(|e| format!("infrastructure: create_session failed: {e}"))?;
                let t = self.now().saturating_add((*after).max(TTL));
                self.clock.store(t, Ordering::SeqCst);
                self.editor = None;
                self.viewer = None;
                Ok((s.token, false))
            }
            Sess::Unknown { variant } => {
                let live = self.live(IdeRole::Editor)?;
                let tok = match variant % 6 {
                    0 => String::new(),
                    1 => "not-a-token".to_string(),
                    2 => live[..live.len() - 1].to_string(),
                    3 => format!("{live}x"),
                    4 => format!(" {live} "),
                    _ => {
                        let mut c: Vec<char> = live.chars().collect();
                        c[0] = if c[0].is_ascii_lowercase() {
                            c[0].to_ascii_uppercase()
                        } else if c[0].is_ascii_uppercase() {
                            c[0].to_ascii_lowercase()
                        } else {
                            '~'
                        };
                        c.into_iter().collect()
                    }
                };
                Ok((tok, false))
            }
        }
    }

    fn renewed(&mut self, tok: &str) {
        let now = self.now();
        for slot in [&mut self.editor, &mut self.viewer] {
            if let Some((t, r)) = slot {
                if t == tok {
                    *r = now;
                }
            }
        }
    }

    fn subst(&self, s: &str) -> String {
        s.replace("{S}", &self.fx.s.to_string_lossy())
    }

    pub fn exec(&mut self, call: &Call, tok: &str, valid_editor: bool) -> Result<Outcome, String> {
        // containment: last line of defence, immediately before the strings reach the API
        for t in [&call.path, &call.path2, &call.path3] {
            guard::check_template(t).map_err(|why| format!("unsafe: {t:?}: {why}"))?;
        }
        let ide = &self.ide;
        let path = self.subst(&call.path);
        let path2 = self.subst(&call.path2);
        let path3 = self.subst(&call.path3);
        let we = call.write_enabled;
        let text = call.text.clone();
        let mut out = match call.op {
            Op::ListSources => outcome(ide.list_sources(tok), |v| v.clone()),
            Op::ListTree => outcome(ide.list_tree(tok), |v| {
                let mut o = Vec::new();
                tree_paths(v, &mut o);
                o
            }),
            Op::OpenSource => outcome(ide.open_source(tok, &path), |_| Vec::new()),
            Op::CreateFile | Op::CreateDir => {
                let r = ide.create_entry(tok, &path, call.op == Op::CreateDir, text, we);
                let rp = r.as_ref().ok().map(|v| v.path.clone());
                let mut o = outcome(r, |_| Vec::new());
                o.result_path = rp;
                o
            }
            Op::ApplySource => {
                let expected = if call.expected == 0 {
                    // client protocol: open first (only meaningful for a live editor; calling
                    // open with an expired token would prune it before the write)
                    if valid_editor {
                        ide.open_source(tok, &path).map(|s| s.version).unwrap_or(1)
                    } else {
                        1
                    }
                } else {
                    call.expected - 1
                };
                outcome(
                    ide.apply_source(tok, &path, expected, text.unwrap_or_default(), we),
                    |_| Vec::new(),
                )
            }
            Op::RenameEntry => {
                let r = ide.rename_entry(tok, &path, &path2, we);
                let rp = r.as_ref().ok().map(|v| v.path.clone());
                let mut o = outcome(r, |_| Vec::new());
                o.result_path = rp;
                o
            }
            Op::DeleteEntry => {
                let r = ide.delete_entry(tok, &path, we);
                let rp = r.as_ref().ok().map(|v| v.path.clone());
                let mut o = outcome(r, |_| Vec::new());
                o.result_path = rp;
                o
            }
            Op::WorkspaceSearch => outcome(
                ide.workspace_search(
                    tok,
                    text.as_deref().unwrap_or(""),
                    opt(&path2),
                    opt(&path3),
                    200,
                ),
                |v| v.iter().map(|h| h.path.clone()).collect(),
            ),
            Op::FormatSource => outcome(ide.format_source(tok, &path, text), |_| Vec::new()),
            Op::Diagnostics => outcome(ide.diagnostics(tok, &path, text), |_| Vec::new()),
            Op::Hover => outcome(
                ide.hover(tok, &path, text, pos(call.line, call.character)),
                |_| Vec::new(),
            ),
            Op::Completion => outcome(
                ide.completion(tok, &path, text, pos(call.line, call.character), Some(50)),
                |_| Vec::new(),
            ),
            Op::Definition => outcome(
                ide.definition(tok, &path, text, pos(call.line, call.character)),
                |v| v.iter().map(|l| l.path.clone()).collect(),
            ),
            Op::References => outcome(
                ide.references(tok, &path, text, pos(call.line, call.character), true),
                |v| v.iter().map(|l| l.path.clone()).collect(),
            ),
            Op::RenameSymbol => outcome(
                ide.rename_symbol(tok, &path, text, pos(call.line, call.character), &path2, we),
                |v| v.changed_files.iter().map(|f| f.path.clone()).collect(),
            ),
            Op::FileSymbols => outcome(
                ide.file_symbols(tok, &path, text.as_deref().unwrap_or(""), 200),
                |v| v.iter().map(|h| h.path.clone()).collect(),
            ),
            Op::WorkspaceSymbols => outcome(
                ide.workspace_symbols(tok, text.as_deref().unwrap_or(""), 200),
                |v| v.iter().map(|h| h.path.clone()).collect(),
            ),
            Op::BrowseDirectory => outcome(ide.browse_directory(tok, opt(&path)), |_| Vec::new()),
            Op::ProjectSelection => outcome(ide.project_selection(tok), |_| Vec::new()),
            Op::SetActiveProject => outcome(ide.set_active_project(tok, &path), |_| Vec::new()),
        };
        if out.ok {
            self.renewed(tok);
        }
        // keep replies bounded in messages
        if out.reply.len() > 4000 {
            let mut end = 4000;
            while !out.reply.is_char_boundary(end) {
                end -= 1;
            }
            let full = std::mem::take(&mut out.reply);
            // the leak scan must see the whole reply: do it on the full text via a marker
            if full.to_ascii_lowercase().contains(fixture::CANARY) {
                let at = full.to_ascii_lowercase().find(fixture::CANARY).unwrap_or(0);
                let mut s = at.saturating_sub(200);
                while !full.is_char_boundary(s) {
                    s -= 1;
                }
                let mut e = (at + 200).min(full.len());
                while !full.is_char_boundary(e) {
                    e -= 1;
                }
                out.reply = full[s..e].to_string();
            } else {
                out.reply = full[..end].to_string();
            }
        }
        Ok(out)
    }
}

// ---------------------------------------------------------------------------------------
// the oracle for one call

fn hidden_only(s: &Snapshot) -> Snapshot {
    s.iter()
        .filter(|(p, _)| fixture::is_hidden_project_path(p))
        .map(|(p, e)| (p.clone(), e.clone()))
        .collect()
}

/// Suffix of a hidden project path starting at its first hidden component.
fn hidden_suffix(p: &str) -> String {
    let inner = p.strip_prefix("project/").unwrap_or(p);
    let comps: Vec<&str> = inner.split('/').collect();
    let at = comps.iter().position(|c| c.starts_with('.')).unwrap_or(0);
    comps[at..].join("/")
}

fn check_hidden(call: &Call, out: &Outcome, before: &Snapshot, after: &Snapshot) -> Result<(), String> {
    let hb = hidden_only(before);
    let ha = hidden_only(after);
    if hb == ha {
        return Ok(());
    }
    let describe = || fixture::diff(before, after, fixture::is_hidden_project_path).join("; ");
    let container_ok = |n: &str| !n.is_empty() && !n.split('/').any(|c| c.starts_with('.'));
    match (call.op, out.ok, out.result_path.as_deref()) {
        (Op::DeleteEntry, true, Some(n)) if container_ok(n) => {
            // hidden entries may vanish only together with the non-hidden directory `n`
            let prefix = format!("project/{n}/");
            let expected: Snapshot = hb
                .iter()
                .filter(|(p, _)| !p.starts_with(&prefix))
                .map(|(p, e)| (p.clone(), e.clone()))
                .collect();
            if expected == ha && !after.contains_key(&format!("project/{n}")) {
                return Ok(());
            }
            Err(format!("hidden entries touched by delete_entry of {n:?}: {}", describe()))
        }
        (Op::RenameEntry, true, Some(m)) if container_ok(m) => {
            // hidden entries may move only together with their non-hidden container, to `m`
            let prefix = format!("project/{m}/");
            let mut moved_from: Vec<(String, &Entry)> = Vec::new();
            for (p, e) in &hb {
                if ha.get(p) != Some(e) {
                    moved_from.push((hidden_suffix(p), e));
                }
            }
            let mut moved_to: Vec<(String, &Entry)> = Vec::new();
            for (p, e) in &ha {
                if hb.get(p) != Some(e) {
                    if !p.starts_with(&prefix) {
                        return Err(format!(
                            "hidden entry appeared outside the rename target {m:?}: {}",
                            describe()
                        ));
                    }
                    moved_to.push((hidden_suffix(p), e));
                }
            }
            moved_from.sort_by(|a, b| a.0.cmp(&b.0));
            moved_to.sort_by(|a, b| a.0.cmp(&b.0));
            if moved_from == moved_to {
                return Ok(());
            }
            Err(format!("hidden entries touched by rename_entry to {m:?}: {}", describe()))
        }
        _ => Err(format!("hidden entries touched: {}", describe())),
    }
}

fn describe_call(call: &Call) -> String {
    let mut c = call.clone();
    for s in [&mut c.path, &mut c.path2, &mut c.path3] {
        if s.len() > 160 {
            let mut end = 160;
            while !s.is_char_boundary(end) {
                end -= 1;
            }
            *s = format!("{}...[{} bytes]", &s[..end], s.len());
        }
    }
    if let Some(t) = &mut c.text {
        if t.len() > 60 {
            *t = format!("{}...", &t[..60]);
        }
    }
    format!(
        "{:?}(session={:?}, write_enabled={}, path={:?}, path2={:?}, path3={:?}, text={:?}, expected={}, pos={}:{})",
        c.op, c.session, c.write_enabled, c.path, c.path2, c.path3, c.text, c.expected, c.line, c.character
    )
}

fn reached_fs(call: &Call, out: &Outcome) -> bool {
    match out.kind {
        "Ok" | "NotFound" | "Conflict" | "Internal" | "TooLarge" => true,
        "Forbidden" => {
            out.reply.contains("escapes project root")
                && !call.path.split('/').any(|c| c.trim() == "..")
                && !call.path2.split('/').any(|c| c.trim() == "..")
                && !call.path.trim().starts_with('/')
        }
        _ => false,
    }
}

pub fn check_call(
    env: &mut Env,
    call: &Call,
    before: &Snapshot,
    probe: &mut Probe,
    idx: usize,
) -> Result<Snapshot, String> {
    let (tok, valid_editor) = env.token_for(&call.session)?;
    let out = env.exec(call, &tok, valid_editor)?;
    // containment: the directories above the fixture are exactly what the check put there
    if let Err(why) = moat().intact() {
        return Err(format!(
            "call {} reached above the scratch root S: {why}",
            describe_call(call)
        ));
    }
    let after = fixture::snapshot(&env.fx.s);
    let ctx = |what: String| -> String {
        format!(
            "call #{idx} {} -> {} {:?}: {what}",
            describe_call(call),
            out.kind,
            if out.reply.len() > 300 {
                let mut end = 300;
                while !out.reply.is_char_boundary(end) {
                    end -= 1;
                }
                &out.reply[..end]
            } else {
                &out.reply[..]
            }
        )
    };

    let after = match after {
        Ok(a) => a,
        Err(_) if !env.fx.s.is_dir() || !env.fx.project.is_dir() => {
            return Err(ctx(
                "the scratch root or the project directory itself was removed or replaced by the call".into(),
            ));
        }
        Err(e) => return Err(format!("infrastructure: {e}")),
    };

    probe.label(format!("op={:?}", call.op));
    probe.label(format!("outcome={:?}/{}", call.op, out.kind));
    probe.label(format!(
        "session={}",
        match call.session {
            Sess::Editor => "editor",
            Sess::Viewer => "viewer",
            Sess::Expired { .. } => "expired",
            Sess::AlmostExpired => "almost_expired",
            Sess::Unknown { .. } => "unknown_token",
        }
    ));
    if !call.write_enabled && call.op.is_mutating() {
        probe.label("write_disabled_mutating_call");
    }

    let may_mutate = call.op.is_mutating() && valid_editor && call.write_enabled;

    // (1) the gate: viewer / expired / unknown sessions and write-disabled mode cannot mutate
    // anything (project included). Read-only operations are held to the same rule when the
    // session is not a valid editor.
    if !valid_editor || (call.op.is_mutating() && !call.write_enabled) {
        let d = fixture::diff(before, &after, |_| true);
        if !d.is_empty() {
            return Err(ctx(format!(
                "a call that must not mutate anything changed the tree: {}",
                d.join("; ")
            )));
        }
        if out.ok && call.op.is_mutating() {
            return Err(ctx("a mutating call without a valid editor session / with write disabled reported success".into()));
        }
    }

    if call.op.is_picker() {
        probe.label("picker_call");
        return Ok(after);
    }

    // (2) nothing outside the project is created, modified or removed
    let d = fixture::diff(before, &after, |p| !fixture::is_project_path(p));
    if !d.is_empty() {
        return Err(ctx(format!("outside of the project changed: {}", d.join("; "))));
    }

    // (3) nothing outside (or hidden) is read: no canary text in the reply, none copied into
    // a visible project file
    if out.reply.to_ascii_lowercase().contains(fixture::CANARY) {
        return Err(ctx("reply contains canary text of a file outside the project / of a hidden entry".into()));
    }
    for (p, e) in &after {
        if fixture::is_project_path(p) && !fixture::is_hidden_project_path(p) {
            if let Entry::File { canary: true, .. } = e {
                if before.get(p) != Some(e) {
                    return Err(ctx(format!("canary text was copied into project file {p:?}")));
                }
            }
        }
    }

    // (4) every path a reply enumerates is a non-hidden entry of the project itself
    if !out.listed.is_empty() {
        let legit = fixture::legit_listing(&env.fx.project);
        let legit_before: BTreeSet<String> = before
            .keys()
            .filter_map(|p| p.strip_prefix("project/"))
            .flat_map(|p| [p.to_string(), p.replace('\\', "/")])
            .collect();
        for p in &out.listed {
            if p.split('/').any(|c| c.starts_with('.') && c != "." && c != "..") && !legit.contains(p) {
                return Err(ctx(format!("reply lists hidden entry {p:?}")));
            }
            if !legit.contains(p) && !(may_mutate && legit_before.contains(p)) {
                return Err(ctx(format!(
                    "reply lists {p:?}, which is not an entry of the project (enumerated through a symlink that leaves the project or leads to a hidden entry)"
                )));
            }
        }
    }

    // (5) hidden entries are never touched
    check_hidden(call, &out, before, &after).map_err(&ctx)?;

    // evidence
    let mut cls: Vec<&str> = paths::classes(&call.path);
    for extra in [&call.path2, &call.path3] {
        if !extra.is_empty() {
            for c in paths::classes(extra) {
                if !cls.contains(&c) {
                    cls.push(c);
                }
            }
        }
    }
    for c in &cls {
        probe.label(format!("class={c}"));
    }
    let adversarial = cls.iter().any(|c| {
        matches!(
            *c,
            "traversal" | "hidden" | "symlink" | "absolute" | "backslash" | "percent" | "unicode" | "nul" | "long"
        )
    });
    if adversarial && reached_fs(call, &out) {
        probe.label("adversarial_path_reached_fs");
        if out.ok {
            probe.label("adversarial_path_call_ok");
        }
        NONTRIVIAL.with(|n| *n.borrow_mut() = true);
    }
    if may_mutate && out.ok {
        probe.label("successful_mutation");
    }
    Ok(after)
}

thread_local! {
    static NONTRIVIAL: RefCell<bool> = const { RefCell::new(false) };
}

/// Which known-open shapes a case must avoid.
#[derive(Clone, Copy, Default)]
pub struct OpenFindings {
    pub f27: bool,
    pub f28: bool,
    pub f29: bool,
    pub f30: bool,
    pub f31: bool,
}

/// Exclude open known findings by construction: returns the case to run.
fn apply_exclusions(case: &PathCase, open: OpenFindings, probe: &mut Probe) -> PathCase {
    let mut c = case.clone();
    if case.raw {
        return c;
    }
    if open.f27 && c.links & (fixture::LINK_FILE | fixture::LINK_DANGLING) != 0 {
        c.links &= !(fixture::LINK_FILE | fixture::LINK_DANGLING);
        probe.excluded("F27: fixture without file symlinks that leave the project");
    }
    if open.f31 && c.links & fixture::LINK_TO_HIDDEN != 0 {
        c.links &= !fixture::LINK_TO_HIDDEN;
        probe.excluded("F31: fixture without the internal symlink to a hidden directory");
    }
    if open.f28
        && c.links & (fixture::LINK_DIR_REL | fixture::LINK_DIR_ABS | fixture::LINK_FILE) != 0
        && c.calls.iter().any(|k| k.op.is_listing())
    {
        c.links &= !(fixture::LINK_DIR_REL | fixture::LINK_DIR_ABS | fixture::LINK_FILE);
        probe.excluded("F28: listing/search/analysis call => fixture without symlinks that leave the project");
    }
    if open.f30 {
        let before = c.calls.len();
        let bs = |k: &Call| {
            matches!(k.op, Op::CreateFile | Op::CreateDir | Op::RenameEntry)
                && (k.path.contains('\\') || k.path2.contains('\\'))
        };
        if c.calls.iter().any(|k| k.op.is_listing()) {
            c.calls.retain(|k| !bs(k));
            if c.links & fixture::FILE_BACKSLASH_NAME != 0 {
                c.links &= !fixture::FILE_BACKSLASH_NAME;
                probe.excluded("F30: listing call => no backslash-named file in the fixture");
            }
        }
        if c.calls.len() != before {
            probe.excluded("F30: listing call => no creation of names containing a backslash");
        }
    }
    if open.f29 {
        let before = c.calls.len();
        c.calls.retain(|k| {
            !(k.op == Op::RenameEntry
                && (!matches!(k.session, Sess::Editor | Sess::AlmostExpired))
                && k.write_enabled)
        });
        if c.calls.len() != before {
            probe.excluded("F29: rename_entry by a non-editor session with write enabled");
        }
    }
    c
}

pub fn run_path_case(
    case: &PathCase,
    scratch: &Path,
    open: OpenFindings,
    probe: &mut Probe,
) -> Result<(), String> {
    let case = apply_exclusions(case, open, probe);
    // containment: validate the whole case before a single call runs
    validate_path_case(&case)?;
    let fx = Fixture::build(&scratch.join("S"), case.links)?;
    let mut env = Env::new(fx);
    NONTRIVIAL.with(|n| *n.borrow_mut() = false);
    let mut snap = fixture::snapshot(&env.fx.s).map_err(|e| format!("infrastructure: {e}"))?;
    probe.label(format!("fixture_links={:#09b}", case.links));
    let mut result = Ok(());
    for (i, call) in case.calls.iter().enumerate() {
        match check_call(&mut env, call, &snap, probe, i) {
            Ok(after) => snap = after,
            Err(e) => {
                result = Err(e);
                break;
            }
        }
        if call.op == Op::SetActiveProject {
            break;
        }
    }
    env.fx.remove();
    if result.is_ok() && NONTRIVIAL.with(|n| *n.borrow()) {
        let key = serde_json::to_vec(&case).unwrap_or_default();
        probe.nontrivial(&key);
        let first = case.calls.iter().find(|c| {
            !paths::classes(&c.path).is_empty() || !paths::classes(&c.path2).is_empty()
        });
        if let Some(c) = first {
            probe.sample(json!({"search": "paths", "links": case.links, "calls": case.calls.len(), "example_call": describe_call(c)}));
        }
    }
    result
}

/// Bounds the work proptest spends shrinking after the first failure of a search: a passing
/// shrink candidate of the concurrency search costs a full script (seconds), and the engine
/// allows 4096 shrink steps. Once the budget is used up every further candidate is answered
/// "passes" without running it, so shrinking stops at the smallest failing case seen so far
/// (which did fail when it ran). Recorded reproducers (`raw`) run in the replay tier, before the
/// generated cases, and never start the budget.
struct ShrinkBudget {
    failed: std::cell::Cell<bool>,
    left: std::cell::Cell<u32>,
}

impl ShrinkBudget {
    fn new(runs_after_first_failure: u32) -> Self {
        ShrinkBudget {
            failed: std::cell::Cell::new(false),
            left: std::cell::Cell::new(runs_after_first_failure),
        }
    }
    fn allow(&self) -> bool {
        if !self.failed.get() {
            return true;
        }
        if self.left.get() == 0 {
            return false;
        }
        self.left.set(self.left.get() - 1);
        true
    }
    fn seen(&self, r: Result<(), String>) -> Result<(), String> {
        if r.is_err() {
            self.failed.set(true);
        }
        r
    }
}

static MOAT: std::sync::OnceLock<guard::Moat> = std::sync::OnceLock::new();

pub fn moat() -> &'static guard::Moat {
    MOAT.get().expect("moat not built")
}

/// Every string of the case that would be handed to the API, with the guard's verdict.
pub fn validate_path_case(case: &PathCase) -> Result<(), String> {
    for c in &case.calls {
        for t in [&c.path, &c.path2, &c.path3] {
            guard::check_template(t).map_err(|why| format!("unsafe: {t:?}: {why}"))?;
        }
    }
    Ok(())
}

fn is_infra(e: &str) -> bool {
    e.starts_with("fixture:") || e.starts_with("infrastructure:") || e.starts_with("unsafe") || e.starts_with("moat:")
}

/// Containment set-up (see guard.rs). Returns the directory the fixtures are built in, or
/// None after having reported why not a single case may run.
fn contain(ctx: &mut RunCtx) -> Option<PathBuf> {
    // absolute locations first: the working directory is about to move into the moat
    let root = match crate::engine::verif_root().canonicalize() {
        Ok(r) => r,
        Err(e) => {
            ctx.inconclusive(format!("containment: cannot resolve the verification root: {e}"));
            return None;
        }
    };
    std::env::set_var("TPV_ROOT", &root);
    let _ = std::fs::create_dir_all(&ctx.out_dir);
    match ctx.out_dir.canonicalize() {
        Ok(o) => ctx.out_dir = o,
        Err(e) => {
            ctx.inconclusive(format!("containment: cannot resolve {}: {e}", ctx.out_dir.display()));
            return None;
        }
    }
    if let Some(p) = ctx.only_replay.clone() {
        // the replay file must stay readable after the working directory and the identity changed
        let copy = ctx.out_dir.join(format!("replay-input-{}.json", std::process::id()));
        match std::fs::read(&p).and_then(|b| std::fs::write(&copy, b)) {
            Ok(()) => {
                use std::os::unix::fs::PermissionsExt;
                let _ = std::fs::set_permissions(&copy, std::fs::Permissions::from_mode(0o644));
                ctx.only_replay = Some(copy);
            }
            Err(e) => {
                ctx.inconclusive(format!("containment: cannot copy replay file {}: {e}", p.display()));
                return None;
            }
        }
    }
    let top = ctx
        .out_dir
        .join(format!("scratch-{}-{}", ctx.worker, std::process::id()));
    let m = match guard::Moat::build(&top) {
        Ok(m) => m,
        Err(e) => {
            ctx.inconclusive(format!("containment: {e}"));
            return None;
        }
    };
    match guard::drop_privileges(&m.top, &ctx.out_dir) {
        Ok(true) => ctx.note("containment: started as root, dropped to uid/gid 65534 before the first web-IDE call; fixtures 8 levels deep in a scratch moat; every path string guarded"),
        Ok(false) => ctx.note("containment: not root, no privilege drop; relies on the scratch moat (fixtures 8 levels deep), the string guard and the working directory inside the moat"),
        Err(e) => {
            ctx.inconclusive(format!("containment: privilege drop failed, no case was run: {e}"));
            return None;
        }
    }
    // still able to work where we have to?
    for dir in [m.bottom.clone(), ctx.out_dir.clone()] {
        let probe = dir.join(format!(".c19-write-test-{}", std::process::id()));
        if let Err(e) = std::fs::write(&probe, b"x").and_then(|_| std::fs::remove_file(&probe)) {
            ctx.inconclusive(format!(
                "containment: cannot write in {} after the privilege drop ({e}); run from a location whose ancestors are world-searchable",
                dir.display()
            ));
            return None;
        }
    }
    if let Err(e) = std::env::set_current_dir(m.cwd()) {
        ctx.inconclusive(format!("containment: cannot move the working directory into the moat: {e}"));
        return None;
    }
    if let Err(e) = m.intact() {
        ctx.inconclusive(format!("containment: {e}"));
        return None;
    }
    let bottom = m.bottom.clone();
    if MOAT.set(m).is_err() {
        ctx.inconclusive("containment: moat initialised twice");
        return None;
    }
    Some(bottom)
}

fn run(ctx: &mut RunCtx) {
    let tier = ctx.tier;
    let Some(scratch) = contain(ctx) else {
        return;
    };
    // TPV_C19_DRYRUN=1: generate exactly the cases of this seed, log every string that WOULD be
    // handed to the API together with the guard's verdict, call nothing.
    let dry: Option<RefCell<std::fs::File>> = if std::env::var("TPV_C19_DRYRUN").is_ok() {
        std::fs::File::create(ctx.out_dir.join(format!("dryrun-{}.log", ctx.worker)))
            .ok()
            .map(RefCell::new)
    } else {
        None
    };
    let dry = &dry;
    let log = move |search: &str, t: &str| -> Result<(), String> {
        use std::io::Write;
        let verdict = guard::check_template(t);
        if let Some(f) = dry {
            let _ = writeln!(
                f.borrow_mut(),
                "{}",
                serde_json::to_string(&json!({"search": search, "template": t, "ok": verdict.is_ok()})).unwrap_or_default()
            );
        }
        verdict.map_err(|why| format!("unsafe: {t:?}: {why}"))
    };
    let open = OpenFindings {
        f27: ctx.is_open(KEY_F27),
        f28: ctx.is_open(KEY_F28),
        f29: ctx.is_open(KEY_F29),
        f30: ctx.is_open(KEY_F30),
        f31: ctx.is_open(KEY_F31),
    };
    let infra: RefCell<Vec<String>> = RefCell::new(Vec::new());

    // (A) path confinement and the session / write gate
    {
        let scratch = scratch.clone();
        let infra = &infra;
        let budget = ShrinkBudget::new(1500);
        ctx.search(
            "paths",
            tape_strategy(140).prop_map(|t| paths::case_from_tape(&t)),
            tier.pick(6_000, 300_000),
            move |case: &PathCase, probe: &mut Probe| {
                if !budget.allow() {
                    return Ok(());
                }
                if dry.is_some() {
                    for c in &case.calls {
                        for t in [&c.path, &c.path2, &c.path3] {
                            if let Err(e) = log("paths", t) {
                                infra.borrow_mut().push(e);
                            }
                        }
                    }
                    return Ok(());
                }
                match run_path_case(case, &scratch, open, probe) {
                    Err(e) if is_infra(&e) => {
                        infra.borrow_mut().push(e);
                        Ok(())
                    }
                    other if case.raw => other,
                    other => budget.seen(other),
                }
            },
        );
    }

    // (C) sequential histories against the reference model of the version rule
    {
        let scratch = scratch.clone();
        let infra = &infra;
        let budget = ShrinkBudget::new(1500);
        let exclude_f32 = ctx.is_open(KEY_F32);
        ctx.search(
            "history",
            tape_strategy(160).prop_map(|t| hist::case_from_tape(&t)),
            tier.pick(3_000, 100_000),
            move |case: &hist::HistCase, probe: &mut Probe| {
                if !budget.allow() {
                    return Ok(());
                }
                if dry.is_some() {
                    for t in hist::strings_of(case) {
                        if let Err(e) = log("history", &t) {
                            infra.borrow_mut().push(e);
                        }
                    }
                    return Ok(());
                }
                match hist::run_case(case, &scratch, exclude_f32, probe) {
                    Err(e) if is_infra(&e) => {
                        infra.borrow_mut().push(e);
                        Ok(())
                    }
                    other if case.raw => other,
                    other => budget.seen(other),
                }
            },
        );
    }

    // (B) concurrent writers
    {
        let scratch = scratch.clone();
        let infra = &infra;
        let budget = ShrinkBudget::new(48);
        ctx.search(
            "conc",
            tape_strategy(400).prop_map(move |t| conc::case_from_tape(&t, tier)),
            tier.pick(40, 2_000),
            move |case: &conc::ConcCase, probe: &mut Probe| {
                if !budget.allow() {
                    return Ok(());
                }
                if dry.is_some() {
                    if let Err(e) = log("conc", conc::FILE) {
                        infra.borrow_mut().push(e);
                    }
                    return Ok(());
                }
                match conc::run_case(case, &scratch, probe) {
                    Err(e) if is_infra(&e) => {
                        infra.borrow_mut().push(e);
                        Ok(())
                    }
                    other if case.raw => other,
                    other => budget.seen(other),
                }
            },
        );
    }

    let _ = std::env::set_current_dir(&ctx.out_dir);
    let _ = std::fs::remove_dir_all(&moat().top);
    if let Some(p) = &ctx.only_replay {
        if p.starts_with(&ctx.out_dir) {
            let _ = std::fs::remove_file(p);
        }
    }
    let mut infra = infra.into_inner();
    infra.sort();
    infra.dedup();
    if ctx.only_replay.is_some() && !infra.is_empty() {
        // the engine's single-file replay mode does not look at `inconclusive`: a refused
        // (unsafe) or unrunnable replay must not be reported as "held"
        for e in &infra {
            eprintln!("INCONCLUSIVE: replay not executed: {e}");
        }
        std::process::exit(2);
    }
    for e in infra.into_iter().take(3) {
        ctx.inconclusive(e);
    }
}
