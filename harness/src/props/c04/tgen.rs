//! Trace generators for C04 (deterministic functions of a choice tape, so that shrinking the
//! tape shrinks the trace; low tape words map to simple choices).

use serde::{Deserialize, Serialize};

use super::model::{Fam, Inp};
use crate::engine::tape::{Reader, Tape};

// ------------------------------------------------------------------------------------------
// value pools
// ------------------------------------------------------------------------------------------

const MAXT: i128 = i64::MAX as i128;

/// Preset times [ns]: typical first, then boundaries (0, negative, 1 ns, near i64::MAX).
fn draw_pt(r: &mut Reader) -> i128 {
    match r.weighted(&[6, 4, 3, 3, 2, 2, 2, 2, 2, 2, 1, 1, 1, 1, 1, 2, 2]) {
        0 => 10_000_000,             // 10 ms
        1 => 12,                     // 12 ns: small enough for 1 ns steps to matter
        2 => 100_000_000,            // 100 ms
        3 => 7,                      // 7 ns
        4 => 0,                      // zero
        5 => 1,                      // 1 ns
        6 => -1,                     // negative
        7 => MAXT,                   // i64::MAX
        8 => MAXT - 1,
        9 => 1_000_000_000,          // 1 s
        10 => i64::MIN as i128,      // most negative
        11 => -1_000_000,            // -1 ms
        12 => MAXT / 2,
        13 => MAXT / 2 + 1,
        14 => 2,
        15 => 1 + r.range_i64(0, 999) as i128,                      // 1..1000 ns
        _ => 1_000_000 + r.range_i64(0, 999_000_000) as i128,       // 1 ms .. 1 s
    }
}

/// A preset time near `base` (for "PT changes while timing").
fn draw_pt_near(r: &mut Reader, base: i128) -> i128 {
    let v = match r.pick(8) {
        0 => base / 2,
        1 => base.saturating_mul(2),
        2 => base + 1,
        3 => base - 1,
        4 => 0,
        5 => base + base / 4,
        6 => -base,
        _ => draw_pt(r),
    };
    v.clamp(i64::MIN as i128, MAXT)
}

/// Time since the previous call [ns], relative to the preset time `pt`.
fn draw_dt(r: &mut Reader, pt: i128, extreme: bool) -> i128 {
    let ptn = pt.max(0);
    let w_ext = u32::from(extreme);
    let v = match r.weighted(&[3, 4, 4, 2, 2, 2, 2, 2, 3, 2, 2, 2 * w_ext, w_ext, 1]) {
        0 => 0,
        1 => ptn / 4,
        2 => ptn / 2,
        3 => 1,
        4 => ptn / 3,
        5 => ptn - 1,
        6 => ptn,
        7 => ptn + 1,
        8 => r.range_i64(0, ptn.min(MAXT) as i64) as i128,
        9 => 1_000_000,
        10 => r.range_i64(0, 10) as i128,
        11 => *r.choose(&[MAXT, MAXT - 1, MAXT / 2, MAXT / 2 + 1, 1i128 << 62]),
        12 => r.range_i64(0, i64::MAX) as i128,
        _ => ptn.saturating_mul(2),
    };
    v.clamp(0, MAXT)
}

/// Preset values of a counter whose integer type has limits lo..=hi.
fn draw_pv(r: &mut Reader, lo: i128, hi: i128) -> i128 {
    let v = match r.weighted(&[5, 4, 3, 3, 2, 2, 3, 3, 2, 2, 2, 1]) {
        0 => 3,
        1 => 1,
        2 => 0,
        3 => 2,
        4 => 5,
        5 => -1,
        6 => hi,
        7 => lo,
        8 => hi - 1,
        9 => lo + 1,
        10 => r.range_i64(-3, 10) as i128,
        _ => {
            // anywhere in the type's range
            let span = (hi - lo) as u128;
            let w = r.u64() as u128;
            lo + ((w * (span / 2 + 1)) >> 63).min(span) as i128
        }
    };
    v.clamp(lo, hi)
}

// ------------------------------------------------------------------------------------------
// per-instance input profile
// ------------------------------------------------------------------------------------------

/// How the inputs of one instance evolve over a trace.
pub struct Profile {
    fam: Fam,
    lo: i128,
    hi: i128,
    /// preset time / preset value currently applied
    p: i128,
    p_base: i128,
    /// the preset may change during the trace
    p_volatile: bool,
    /// denominator of the probability that the primary input toggles at a call
    toggle_den: u32,
    toggle_num: u32,
    cur: Inp,
}

impl Profile {
    pub fn draw(r: &mut Reader, fam: Fam, lo: i128, hi: i128) -> Profile {
        let p = if fam.is_timer() {
            draw_pt(r)
        } else if fam.is_counter() {
            draw_pv(r, lo, hi)
        } else {
            0
        };
        let p_volatile = (fam.is_timer() || fam.is_counter()) && !r.chance(3, 4);
        // timers need IN to hold for a while; counters and edge detectors need edges
        let (toggle_num, toggle_den) = if fam.is_timer() {
            *r.choose(&[(1u32, 4u32), (1, 8), (1, 2), (1, 16)])
        } else {
            *r.choose(&[(3u32, 4u32), (1, 2), (1, 1), (1, 4)])
        };
        Profile {
            fam,
            lo,
            hi,
            p,
            p_base: p,
            p_volatile,
            toggle_num,
            toggle_den,
            cur: Inp {
                p,
                ..Inp::default()
            },
        }
    }

    pub fn preset(&self) -> i128 {
        self.p
    }

    /// Inputs of the next call.
    pub fn next(&mut self, r: &mut Reader) -> Inp {
        if r.chance(self.toggle_num, self.toggle_den) {
            self.cur.a = !self.cur.a;
        }
        match self.fam {
            Fam::Ton | Fam::Tof | Fam::Tp => {
                if self.p_volatile && r.chance(1, 6) {
                    self.p = draw_pt_near(r, self.p_base);
                }
            }
            Fam::Ctu => {
                self.cur.r = r.chance(1, 12);
                if self.p_volatile && r.chance(1, 5) {
                    self.p = draw_pv(r, self.lo, self.hi);
                }
            }
            Fam::Ctd => {
                self.cur.l = r.chance(1, 8);
                if self.p_volatile && r.chance(1, 4) {
                    self.p = draw_pv(r, self.lo, self.hi);
                }
            }
            Fam::Ctud => {
                if r.chance(1, 2) {
                    self.cur.b = !self.cur.b;
                }
                self.cur.r = r.chance(1, 14);
                self.cur.l = r.chance(1, 8);
                if self.p_volatile && r.chance(1, 4) {
                    self.p = draw_pv(r, self.lo, self.hi);
                }
            }
            Fam::RTrig | Fam::FTrig => {}
            Fam::Sr | Fam::Rs => {
                if r.chance(1, 3) {
                    self.cur.r = !self.cur.r;
                }
            }
        }
        self.cur.p = self.p;
        self.cur
    }
}

// ------------------------------------------------------------------------------------------
// driver 1: pure structs
// ------------------------------------------------------------------------------------------

#[derive(Clone, Debug, Serialize, Deserialize)]
pub struct PStep {
    pub i: Inp,
    /// time since the previous call [ns] (for the first call: time handed to the first step)
    pub dt: i64,
}

#[derive(Clone, Debug, Serialize, Deserialize)]
pub struct PureCase {
    pub fam: Fam,
    pub steps: Vec<PStep>,
}

pub const PURE_TAPE: usize = 8 + 60 * 6;

pub fn pure_from_tape(t: &Tape) -> PureCase {
    let mut r = Reader::new(t);
    // timers get half of the budget (they carry the timing diagrams)
    // (the tape over-represents the words 0 and u32::MAX, i.e. the first and the last
    // alternative: both ends are timers)
    const ORDER: [Fam; 10] = [
        Fam::Ton,
        Fam::Tof,
        Fam::Ctu,
        Fam::Ctd,
        Fam::Ctud,
        Fam::RTrig,
        Fam::FTrig,
        Fam::Sr,
        Fam::Rs,
        Fam::Tp,
    ];
    let fam = ORDER[r.weighted(&[4, 5, 3, 3, 4, 2, 2, 2, 2, 4])];
    let (lo, hi) = (i16::MIN as i128, i16::MAX as i128);
    let mut prof = Profile::draw(&mut r, fam, lo, hi);
    let extreme = !r.chance(3, 4);
    let n = 1 + r.pick(60);
    let mut steps = Vec::new();
    for _ in 0..n {
        if r.exhausted() && !steps.is_empty() {
            break;
        }
        let i = prof.next(&mut r);
        let dt = if fam.is_timer() {
            draw_dt(&mut r, prof.preset(), extreme) as i64
        } else {
            0
        };
        steps.push(PStep { i, dt });
    }
    PureCase { fam, steps }
}

// ------------------------------------------------------------------------------------------
// driver 2: ST programs through TestHarness
// ------------------------------------------------------------------------------------------

#[derive(Clone, Copy, Debug, PartialEq, Eq)]
pub enum ValTy {
    None,
    Time,
    LTime,
    Int,
    DInt,
    LInt,
    UDInt,
    ULInt,
}

impl ValTy {
    pub fn st_name(self) -> &'static str {
        match self {
            ValTy::None => "BOOL",
            ValTy::Time => "TIME",
            ValTy::LTime => "LTIME",
            ValTy::Int => "INT",
            ValTy::DInt => "DINT",
            ValTy::LInt => "LINT",
            ValTy::UDInt => "UDINT",
            ValTy::ULInt => "ULINT",
        }
    }
    pub fn limits(self) -> (i128, i128) {
        match self {
            ValTy::Int => (i16::MIN as i128, i16::MAX as i128),
            ValTy::DInt => (i32::MIN as i128, i32::MAX as i128),
            ValTy::LInt => (i64::MIN as i128, i64::MAX as i128),
            ValTy::UDInt => (0, u32::MAX as i128),
            ValTy::ULInt => (0, u64::MAX as i128),
            _ => (i64::MIN as i128, i64::MAX as i128),
        }
    }
}

pub struct FbType {
    pub name: &'static str,
    pub fam: Fam,
    pub val: ValTy,
    /// PV/CV declared ANY_INT: `inst.CV` cannot be read with a dotted access into an INT
    /// variable (E203), only bound with `CV => v`.
    pub any_int: bool,
}

const fn ft(name: &'static str, fam: Fam, val: ValTy, any_int: bool) -> FbType {
    FbType {
        name,
        fam,
        val,
        any_int,
    }
}

/// Every FB type name of the ten kinds that the runtime registers (registry.rs), except the
/// DIFU/DIFD aliases which the property does not name.
pub const FB_TYPES: &[FbType] = &[
    ft("TON", Fam::Ton, ValTy::Time, false),
    ft("TOF", Fam::Tof, ValTy::Time, false),
    ft("TON_LTIME", Fam::Ton, ValTy::LTime, false),
    ft("TOF_LTIME", Fam::Tof, ValTy::LTime, false),
    ft("TP_LTIME", Fam::Tp, ValTy::LTime, false),
    ft("CTU", Fam::Ctu, ValTy::Int, true),
    ft("CTD", Fam::Ctd, ValTy::Int, true),
    ft("CTUD", Fam::Ctud, ValTy::Int, true),
    ft("R_TRIG", Fam::RTrig, ValTy::None, false),
    ft("F_TRIG", Fam::FTrig, ValTy::None, false),
    ft("SR", Fam::Sr, ValTy::None, false),
    ft("RS", Fam::Rs, ValTy::None, false),
    ft("CTU_INT", Fam::Ctu, ValTy::Int, false),
    ft("CTD_INT", Fam::Ctd, ValTy::Int, false),
    ft("CTUD_INT", Fam::Ctud, ValTy::Int, false),
    ft("CTU_DINT", Fam::Ctu, ValTy::DInt, false),
    ft("CTD_DINT", Fam::Ctd, ValTy::DInt, false),
    ft("CTUD_DINT", Fam::Ctud, ValTy::DInt, false),
    ft("CTU_LINT", Fam::Ctu, ValTy::LInt, false),
    ft("CTD_LINT", Fam::Ctd, ValTy::LInt, false),
    ft("CTUD_LINT", Fam::Ctud, ValTy::LInt, false),
    ft("CTU_UDINT", Fam::Ctu, ValTy::UDInt, false),
    ft("CTD_UDINT", Fam::Ctd, ValTy::UDInt, false),
    ft("CTUD_UDINT", Fam::Ctud, ValTy::UDInt, false),
    ft("CTU_ULINT", Fam::Ctu, ValTy::ULInt, false),
    ft("CTD_ULINT", Fam::Ctd, ValTy::ULInt, false),
    ft("CTUD_ULINT", Fam::Ctud, ValTy::ULInt, false),
    ft("TP", Fam::Tp, ValTy::Time, false),
];

/// (the tape over-represents the first and the last alternative: TON and TP)
const FB_WEIGHTS: &[u32] = &[
    4, 6, 3, 3, 4, // timers
    3, 3, 4, // plain counters
    3, 3, 2, 2, // edges, bistables
    1, 1, 1, 1, 1, 1, 1, 1, 1, 1, 1, 1, 1, 1, 1, // typed counters
    4, // TP
];

pub fn fb_type(name: &str) -> Option<&'static FbType> {
    FB_TYPES.iter().find(|t| t.name == name)
}

/// Call-site guard over the two guard variables g0, g1 (0 = unconditional).
pub const N_CONDS: usize = 8;

pub fn cond_text(c: u8) -> Option<&'static str> {
    match c {
        0 => None,
        1 => Some("g0"),
        2 => Some("NOT g0"),
        3 => Some("g0 AND g1"),
        4 => Some("g0 OR g1"),
        5 => Some("g0 XOR g1"),
        6 => Some("g1"),
        _ => Some("NOT (g0 OR g1)"),
    }
}

pub fn cond_eval(c: u8, g0: bool, g1: bool) -> bool {
    match c {
        0 => true,
        1 => g0,
        2 => !g0,
        3 => g0 && g1,
        4 => g0 || g1,
        5 => g0 ^ g1,
        6 => g1,
        _ => !(g0 || g1),
    }
}

#[derive(Clone, Debug, Serialize, Deserialize)]
pub struct Site {
    pub inst: usize,
    pub cond: u8,
    /// take the primary input (IN/CU/CD/CLK/S/S1) from the alternate variable x<k>
    pub alt: bool,
    /// bind outputs with `=>` instead of reading them with dotted accesses after the call
    pub bind: bool,
}

#[derive(Clone, Debug, Serialize, Deserialize)]
pub struct Cycle {
    /// time advanced before this cycle [ns]
    pub dt: i64,
    pub g0: bool,
    pub g1: bool,
    /// inputs per instance
    pub inp: Vec<Inp>,
    /// alternate primary input per instance
    pub alt: Vec<bool>,
}

#[derive(Clone, Debug, Serialize, Deserialize)]
pub struct HCase {
    /// FB type name per instance
    pub insts: Vec<String>,
    /// per instance: the standard FB is a VAR of a user FUNCTION_BLOCK wrapper and the program
    /// holds instances of the wrapper (empty = none wrapped)
    #[serde(default)]
    pub wrapped: Vec<bool>,
    /// call sites in program order
    pub sites: Vec<Site>,
    pub cycles: Vec<Cycle>,
}

pub const HARNESS_TAPE: usize = 40 + 40 * 24;

pub fn harness_from_tape(t: &Tape) -> HCase {
    let mut r = Reader::new(t);
    let n_inst = 1 + r.weighted(&[2, 3, 3, 2]);
    let mut insts = Vec::new();
    let mut wrapped = Vec::new();
    let mut types: Vec<&'static FbType> = Vec::new();
    for k in 0..n_inst {
        // bias towards a second instance of the same type (independence of equal kinds)
        let ty = if k > 0 && r.chance(1, 3) {
            types[r.pick(k)]
        } else {
            &FB_TYPES[r.weighted(FB_WEIGHTS)]
        };
        types.push(ty);
        insts.push(ty.name.to_string());
        // (a zero tape word must give the plain shape: negate a high-probability draw)
        wrapped.push(!r.chance(4, 5));
    }
    let mut sites: Vec<Site> = Vec::new();
    for k in 0..n_inst {
        let n_sites = 1 + usize::from(!r.chance(3, 4));
        for s in 0..n_sites {
            let site = Site {
                inst: k,
                cond: r.weighted(&[8, 2, 1, 1, 1, 1, 1, 1]) as u8,
                alt: s > 0,
                bind: r.flag(),
            };
            let at = r.pick(sites.len() + 1);
            sites.insert(at, site);
        }
    }
    let mut profs: Vec<Profile> = types
        .iter()
        .map(|ty| {
            let (lo, hi) = ty.val.limits();
            Profile::draw(&mut r, ty.fam, lo, hi)
        })
        .collect();
    // the clock step is chosen relative to the preset of one timer (if there is one)
    let lead = types.iter().position(|t| t.fam.is_timer());
    let n = 1 + r.pick(40);
    let extreme = !r.chance(3, 4);
    let mut cycles = Vec::new();
    let mut now: i128 = 0;
    let (mut g0, mut g1) = (true, false);
    let mut alt = vec![false; n_inst];
    for _ in 0..n {
        if r.exhausted() && !cycles.is_empty() {
            break;
        }
        if r.chance(1, 3) {
            g0 = !g0;
        }
        if r.chance(1, 3) {
            g1 = !g1;
        }
        let inp: Vec<Inp> = profs.iter_mut().map(|p| p.next(&mut r)).collect();
        for a in alt.iter_mut() {
            if r.flag() {
                *a = !*a;
            }
        }
        let rel = match lead {
            Some(k) => {
                // sometimes follow another timer's preset
                let timers: Vec<usize> = (0..n_inst).filter(|i| types[*i].fam.is_timer()).collect();
                if timers.len() > 1 && r.chance(1, 3) {
                    profs[timers[r.pick(timers.len())]].preset()
                } else {
                    profs[k].preset()
                }
            }
            None => 1_000_000,
        };
        // the runtime clock is an i64 nanosecond count: keep the total representable
        let dt = draw_dt(&mut r, rel, extreme).min(MAXT - now);
        now += dt;
        cycles.push(Cycle {
            dt: dt as i64,
            g0,
            g1,
            inp,
            alt: alt.clone(),
        });
    }
    HCase {
        insts,
        wrapped,
        sites,
        cycles,
    }
}
