//! IEC 61131-3 model of the standard function blocks (Ed.3 6.6.3.5, Tables 43-46, Fig. 15),
//! written from the standard and the C04 property text - not from the runtime's source.
//!
//! Sampling convention (property text): the time between two calls of an instance is
//! attributed to the input value seen at the later call, i.e. the input sampled at call i is
//! deemed to have held over (t_{i-1}, t_i].
//!
//! What is demanded per call (`Model::call`):
//! * strict: Q of TON/TOF/TP, Q/CV of CTU/CTD, QU/QD/CV of CTUD, Q of R_TRIG/F_TRIG, Q1 of SR/RS;
//! * ET: always `0 <= ET <= max(PT,0)`; `ET == accumulated time` while the timer is timing
//!   (hence non-decreasing while timing); `ET == 0` in the reset state the standard, the
//!   repository's spec and every reading agree on (TON with IN=FALSE, TOF with IN=TRUE, a
//!   TOF/TP that never started); `ET == PT` for an expired TON whose IN is still TRUE.
//!   The value of ET after a TOF/TP has expired and is idle is NOT asserted beyond the range.
//! * PT changed while an episode is running: the episode is "tainted" - only the range and
//!   "ET does not decrease while the block still reports timing" are asserted until the
//!   episode ends (TON: IN falls; TOF: IN rises; TP: the block reports Q=FALSE).

use serde::{Deserialize, Serialize};

#[derive(Clone, Copy, Debug, PartialEq, Eq, PartialOrd, Ord, Serialize, Deserialize)]
pub enum Fam {
    Ton,
    Tof,
    Tp,
    Ctu,
    Ctd,
    Ctud,
    RTrig,
    FTrig,
    Sr,
    Rs,
}

impl Fam {
    pub const ALL: [Fam; 10] = [
        Fam::Ton,
        Fam::Tof,
        Fam::Tp,
        Fam::Ctu,
        Fam::Ctd,
        Fam::Ctud,
        Fam::RTrig,
        Fam::FTrig,
        Fam::Sr,
        Fam::Rs,
    ];
    pub fn is_timer(self) -> bool {
        matches!(self, Fam::Ton | Fam::Tof | Fam::Tp)
    }
    pub fn is_counter(self) -> bool {
        matches!(self, Fam::Ctu | Fam::Ctd | Fam::Ctud)
    }
    pub fn name(self) -> &'static str {
        match self {
            Fam::Ton => "TON",
            Fam::Tof => "TOF",
            Fam::Tp => "TP",
            Fam::Ctu => "CTU",
            Fam::Ctd => "CTD",
            Fam::Ctud => "CTUD",
            Fam::RTrig => "R_TRIG",
            Fam::FTrig => "F_TRIG",
            Fam::Sr => "SR",
            Fam::Rs => "RS",
        }
    }
}

/// Inputs of one call. Timers: a=IN, p=PT [ns]. CTU: a=CU, r=R, p=PV. CTD: a=CD, l=LD, p=PV.
/// CTUD: a=CU, b=CD, r=R, l=LD, p=PV. R_TRIG/F_TRIG: a=CLK. SR: a=S1, r=R. RS: a=S, r=R1.
#[derive(Clone, Copy, Debug, Default, PartialEq, Eq, Serialize, Deserialize)]
pub struct Inp {
    pub a: bool,
    #[serde(default)]
    pub b: bool,
    #[serde(default)]
    pub r: bool,
    #[serde(default)]
    pub l: bool,
    #[serde(default)]
    pub p: i128,
}

/// Outputs of one call. Timers: q=Q, v=ET [ns]. CTU/CTD: q=Q, v=CV. CTUD: q=QU, q2=QD, v=CV.
/// Edge detectors: q=Q. Bistables: q=Q1.
#[derive(Clone, Copy, Debug, Default, PartialEq, Eq)]
pub struct Out {
    pub q: bool,
    pub q2: bool,
    pub v: i128,
}

pub struct Model {
    pub fam: Fam,
    /// counter type limits (PVmin, PVmax = limits of the counter's integer type)
    lo: i128,
    hi: i128,
    // timers
    prev_in: bool,
    running: bool,
    expired: bool,
    tainted: bool,
    ever: bool,
    acc: i128,
    pt0: i128,
    mono_prev: Option<i128>,
    // counters
    cv: i128,
    prev_cu: bool,
    prev_cd: bool,
    // edge detectors / bistables
    m: bool,
    q: bool,
    // observation memory
    pub calls: u32,
    pub last_out: Out,
    pub transitions: u32,
    pub events: Vec<&'static str>,
}

fn ev(events: &mut Vec<&'static str>, e: &'static str) {
    if !events.contains(&e) {
        events.push(e);
    }
}

impl Model {
    pub fn new(fam: Fam, lo: i128, hi: i128) -> Model {
        Model {
            fam,
            lo,
            hi,
            prev_in: false,
            running: false,
            expired: false,
            tainted: false,
            ever: false,
            acc: 0,
            pt0: 0,
            mono_prev: None,
            cv: 0,
            prev_cu: false,
            prev_cd: false,
            m: false,
            q: false,
            calls: 0,
            last_out: Out::default(),
            transitions: 0,
            events: Vec::new(),
        }
    }

    /// One call of the instance with inputs `inp`, `dt` ns after its previous call, whose
    /// observed outputs were `out`. Err = the outputs are not what IEC 61131-3 defines.
    pub fn call(&mut self, inp: &Inp, dt: i128, out: &Out) -> Result<(), String> {
        debug_assert!(dt >= 0);
        let res = match self.fam {
            Fam::Ton => self.ton(inp, dt, out),
            Fam::Tof => self.tof(inp, dt, out),
            Fam::Tp => self.tp(inp, dt, out),
            Fam::Ctu | Fam::Ctd | Fam::Ctud => self.counter(inp, out),
            Fam::RTrig => {
                let q = inp.a && !self.m;
                self.m = inp.a;
                if q {
                    ev(&mut self.events, "edge_fired");
                }
                expect_bool("Q", q, out.q)
            }
            Fam::FTrig => {
                let q = !inp.a && !self.m;
                self.m = !inp.a;
                if q {
                    ev(&mut self.events, "edge_fired");
                }
                expect_bool("Q", q, out.q)
            }
            Fam::Sr => {
                self.q = inp.a || (!inp.r && self.q);
                if inp.a && inp.r {
                    ev(&mut self.events, "set_and_reset");
                }
                expect_bool("Q1", self.q, out.q)
            }
            Fam::Rs => {
                self.q = !inp.r && (inp.a || self.q);
                if inp.a && inp.r {
                    ev(&mut self.events, "set_and_reset");
                }
                expect_bool("Q1", self.q, out.q)
            }
        };
        if out.q != self.last_out.q || out.q2 != self.last_out.q2 {
            self.transitions += 1;
        }
        self.calls += 1;
        self.last_out = *out;
        res
    }

    fn et_range(pt: i128, out: &Out) -> Result<(), String> {
        let ptn = pt.max(0);
        if out.v < 0 || out.v > ptn {
            return Err(format!(
                "ET = {} ns is outside 0..=max(PT,0) = 0..={} ns",
                out.v, ptn
            ));
        }
        Ok(())
    }

    fn tainted_mono(&mut self, timing_observed: bool, out: &Out) -> Result<(), String> {
        let prev = self.mono_prev;
        self.mono_prev = if timing_observed { Some(out.v) } else { None };
        if let (true, Some(p)) = (timing_observed, prev) {
            if out.v < p {
                return Err(format!(
                    "ET decreased from {p} ns to {} ns while the block reports that it is still timing (PT was changed during the episode)",
                    out.v
                ));
            }
        }
        Ok(())
    }

    fn ton(&mut self, inp: &Inp, dt: i128, out: &Out) -> Result<(), String> {
        let ptn = inp.p.max(0);
        Self::et_range(inp.p, out)?;
        if !inp.a {
            self.running = false;
            self.tainted = false;
            self.acc = 0;
            self.mono_prev = None;
            expect_bool("Q (IN is FALSE)", false, out.q)?;
            return expect_val("ET (IN is FALSE)", 0, out.v);
        }
        if !self.running {
            self.running = true;
            self.tainted = false;
            self.acc = 0;
            self.pt0 = ptn;
            self.mono_prev = None;
        } else if ptn != self.pt0 && !self.tainted {
            self.tainted = true;
            ev(&mut self.events, "pt_changed_mid_timing");
        }
        if dt == 0 {
            ev(&mut self.events, "dt0_while_timing");
        }
        self.acc += dt;
        if self.tainted {
            return self.tainted_mono(!out.q, out);
        }
        if self.acc >= ptn {
            if self.acc == ptn && dt > 0 {
                ev(&mut self.events, "lands_exactly_on_pt");
            }
            expect_bool(
                &format!("Q (IN TRUE for an accumulated {} ns >= PT {} ns)", self.acc, ptn),
                true,
                out.q,
            )?;
            expect_val("ET (expired, IN still TRUE)", ptn, out.v)
        } else {
            ev(&mut self.events, "timing");
            expect_bool(
                &format!("Q (IN TRUE for an accumulated {} ns < PT {} ns)", self.acc, ptn),
                false,
                out.q,
            )?;
            expect_val("ET while timing (= accumulated time)", self.acc, out.v)
        }
    }

    fn tof(&mut self, inp: &Inp, dt: i128, out: &Out) -> Result<(), String> {
        let ptn = inp.p.max(0);
        Self::et_range(inp.p, out)?;
        if inp.a {
            self.prev_in = true;
            self.running = false;
            self.tainted = false;
            self.expired = false;
            self.mono_prev = None;
            expect_bool("Q (IN is TRUE)", true, out.q)?;
            return expect_val("ET (IN is TRUE)", 0, out.v);
        }
        if self.prev_in {
            // IN fell at this call: the off-delay starts, the interval counts already
            self.running = true;
            self.expired = false;
            self.tainted = false;
            self.acc = 0;
            self.pt0 = ptn;
            self.mono_prev = None;
        } else if self.running && !self.expired && ptn != self.pt0 && !self.tainted {
            self.tainted = true;
            ev(&mut self.events, "pt_changed_mid_timing");
        }
        self.prev_in = false;
        if !self.running {
            expect_bool("Q (IN has never been TRUE)", false, out.q)?;
            return expect_val("ET (never started)", 0, out.v);
        }
        if self.expired {
            return expect_bool("Q (off-delay already expired, IN still FALSE)", false, out.q);
        }
        if dt == 0 {
            ev(&mut self.events, "dt0_while_timing");
        }
        self.acc += dt;
        if self.tainted {
            return self.tainted_mono(out.q, out);
        }
        if self.acc >= ptn {
            self.expired = true;
            if self.acc == ptn && dt > 0 {
                ev(&mut self.events, "lands_exactly_on_pt");
            }
            expect_bool(
                &format!("Q ({} ns accumulated since IN fell >= PT {} ns)", self.acc, ptn),
                false,
                out.q,
            )
        } else {
            ev(&mut self.events, "timing");
            expect_bool(
                &format!("Q ({} ns accumulated since IN fell < PT {} ns)", self.acc, ptn),
                true,
                out.q,
            )?;
            expect_val("ET while timing (= accumulated time)", self.acc, out.v)
        }
    }

    fn tp(&mut self, inp: &Inp, dt: i128, out: &Out) -> Result<(), String> {
        let ptn = inp.p.max(0);
        Self::et_range(inp.p, out)?;
        let rising = inp.a && !self.prev_in;
        let falling = !inp.a && self.prev_in;
        self.prev_in = inp.a;
        if !self.running && rising {
            self.running = true;
            self.tainted = false;
            self.acc = 0;
            self.pt0 = ptn;
            self.mono_prev = None;
        } else if self.running {
            if rising {
                ev(&mut self.events, "tp_rising_edge_during_pulse");
            }
            if falling {
                ev(&mut self.events, "tp_in_falls_during_pulse");
            }
            if ptn != self.pt0 && !self.tainted {
                self.tainted = true;
                ev(&mut self.events, "pt_changed_mid_timing");
            }
        }
        if !self.running {
            expect_bool("Q (no pulse running)", false, out.q)?;
            if !self.ever {
                return expect_val("ET (no pulse yet)", 0, out.v);
            }
            return Ok(());
        }
        if dt == 0 {
            ev(&mut self.events, "dt0_while_timing");
        }
        self.acc += dt;
        if self.tainted {
            let r = self.tainted_mono(out.q, out);
            if !out.q {
                // the block reports the pulse over: resynchronise
                self.running = false;
                self.tainted = false;
                self.ever = true;
                self.mono_prev = None;
            }
            return r;
        }
        if self.acc >= ptn {
            self.running = false;
            self.ever = true;
            if self.acc == ptn && dt > 0 {
                ev(&mut self.events, "lands_exactly_on_pt");
            }
            expect_bool(
                &format!("Q (pulse has run an accumulated {} ns >= PT {} ns)", self.acc, ptn),
                false,
                out.q,
            )
        } else {
            ev(&mut self.events, "timing");
            expect_bool(
                &format!("Q (pulse has run an accumulated {} ns < PT {} ns)", self.acc, ptn),
                true,
                out.q,
            )?;
            expect_val("ET while the pulse runs (= accumulated time)", self.acc, out.v)
        }
    }

    fn counter(&mut self, inp: &Inp, out: &Out) -> Result<(), String> {
        let pv = inp.p;
        match self.fam {
            Fam::Ctu => {
                let rising = inp.a && !self.prev_cu;
                self.prev_cu = inp.a;
                if inp.r {
                    self.cv = 0;
                } else if rising {
                    if self.cv < self.hi {
                        self.cv += 1;
                    } else {
                        ev(&mut self.events, "saturated_high");
                    }
                }
                expect_val("CV", self.cv, out.v)?;
                expect_bool("Q (CV >= PV)", self.cv >= pv, out.q)
            }
            Fam::Ctd => {
                let rising = inp.a && !self.prev_cd;
                self.prev_cd = inp.a;
                if inp.l {
                    self.cv = pv;
                } else if rising {
                    if self.cv > self.lo {
                        self.cv -= 1;
                    } else {
                        ev(&mut self.events, "saturated_low");
                    }
                }
                expect_val("CV", self.cv, out.v)?;
                expect_bool("Q (CV <= 0)", self.cv <= 0, out.q)
            }
            _ => {
                let rcu = inp.a && !self.prev_cu;
                let rcd = inp.b && !self.prev_cd;
                self.prev_cu = inp.a;
                self.prev_cd = inp.b;
                if inp.r {
                    self.cv = 0;
                } else if inp.l {
                    self.cv = pv;
                } else if rcu && rcd {
                    ev(&mut self.events, "both_edges");
                } else if rcu {
                    if self.cv < self.hi {
                        self.cv += 1;
                    } else {
                        ev(&mut self.events, "saturated_high");
                    }
                } else if rcd {
                    if self.cv > self.lo {
                        self.cv -= 1;
                    } else {
                        ev(&mut self.events, "saturated_low");
                    }
                }
                expect_val("CV", self.cv, out.v)?;
                expect_bool("QU (CV >= PV)", self.cv >= pv, out.q)?;
                expect_bool("QD (CV <= 0)", self.cv <= 0, out.q2)
            }
        }
    }
}

fn expect_bool(what: &str, want: bool, got: bool) -> Result<(), String> {
    if want == got {
        Ok(())
    } else {
        Err(format!("{what}: IEC model says {want}, the block returned {got}"))
    }
}

fn expect_val(what: &str, want: i128, got: i128) -> Result<(), String> {
    if want == got {
        Ok(())
    } else {
        Err(format!("{what}: IEC model says {want}, the block returned {got}"))
    }
}
