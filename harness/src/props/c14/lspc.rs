//! Minimal LSP stdio client shared by C14 and C15: drives the real `trust-lsp` binary
//! (a bin-only crate) with Content-Length framed JSON-RPC.
//!
//! Strictly sequential use: one message is sent, its answer is awaited, then the next.
//! Server->client requests (`client/registerCapability`, `workspace/configuration`, ...)
//! are answered immediately so that no server handler stays blocked; notifications are
//! recorded (`publishDiagnostics` per URI, latest wins).
//!
//! Outcomes are three-valued: `Missing` (binary not built: inconclusive), `Infra`
//! (timeout or I/O trouble while the process is alive: inconclusive) and `Crashed` (the
//! server process is gone: a property violation for the caller to report).

use std::cell::{Cell, RefCell};
use std::collections::BTreeMap;
use std::io::{BufRead, BufReader, Write};
use std::path::PathBuf;
use std::process::{Child, ChildStdin, Command, Stdio};
use std::sync::mpsc::{channel, Receiver, RecvTimeoutError};
use std::time::{Duration, Instant};

use serde_json::{json, Value as J};

use crate::engine::verif_root;

#[derive(Clone, Debug)]
pub enum LspError {
    /// The server binary does not exist / cannot be started.
    Missing(String),
    /// Timeout or I/O problem while the server process is still alive.
    Infra(String),
    /// The server process died (exit status + tail of its stderr).
    Crashed(String),
}

impl std::fmt::Display for LspError {
    fn fmt(&self, f: &mut std::fmt::Formatter<'_>) -> std::fmt::Result {
        match self {
            LspError::Missing(s) => write!(f, "trust-lsp binary missing: {s}"),
            LspError::Infra(s) => write!(f, "LSP infrastructure: {s}"),
            LspError::Crashed(s) => write!(f, "server crashed: {s}"),
        }
    }
}

/// Path of the server binary: `TPV_LSP_BIN`, else `<root>/harness/target-repo/debug/trust-lsp`.
pub fn lsp_bin() -> PathBuf {
    match std::env::var("TPV_LSP_BIN") {
        Ok(p) if !p.trim().is_empty() => PathBuf::from(p),
        _ => verif_root().join("harness/target-repo/debug/trust-lsp"),
    }
}

pub fn request_timeout() -> Duration {
    let s = std::env::var("TPV_LSP_TIMEOUT_S")
        .ok()
        .and_then(|s| s.trim().parse::<u64>().ok())
        .unwrap_or(240);
    Duration::from_secs(s.max(1))
}

#[derive(Clone, Debug)]
pub struct StartOpts {
    /// Workspace root (`rootUri`), None = no workspace.
    pub root_uri: Option<String>,
    /// Client capabilities (empty object = push diagnostics).
    pub capabilities: J,
    pub initialization_options: Option<J>,
    /// Where the server's stderr (tracing log, panic message) goes.
    pub stderr_log: PathBuf,
    /// `workspaceFolders` (each may hold a trust-lsp.toml); empty = just `root_uri`.
    pub workspace_folders: Vec<String>,
    /// Wait after `initialized` until the server reports the end of its background
    /// workspace scan ("Indexed N workspace ST files" - sent only when at least one .st
    /// file was indexed, so the workspace must contain one). The per-folder configuration
    /// (vendor profile) is loaded by that scan.
    pub wait_for_index: bool,
    /// Scratch directory created for this server (removed by `Pool::shutdown`).
    pub scratch: Option<PathBuf>,
}

impl StartOpts {
    /// Options for a server with a private scratch workspace folder that holds one
    /// comment-only `seed.st`. The folder exists only to make the end of the server's
    /// start-up observable: after `initialized` the server spawns a background task
    /// (workspace scan, then a re-publish of the diagnostics of every open document) on
    /// another thread. If a document were already open then, that task would publish
    /// extra diagnostics for it and - worse - start "semantic requests" concurrently with
    /// the main thread, which makes a diagnostics computation that is in flight return a
    /// truncated result (the server's cooperative cancellation). With an indexed file the
    /// scan ends with an "Indexed 1 workspace ST files" log message, which `start` waits
    /// for before any document is opened.
    pub fn plain(tag: &str) -> StartOpts {
        let dir = verif_root().join("out").join("lsp-logs");
        let _ = std::fs::create_dir_all(&dir);
        let scratch = std::env::temp_dir().join(format!("tpv-lsp-{}-{tag}", std::process::id()));
        let ws = scratch.join("ws");
        let _ = std::fs::create_dir_all(&ws);
        let ws = std::fs::canonicalize(&ws).unwrap_or(ws);
        let _ = std::fs::write(ws.join("seed.st"), "(* seed *)\n");
        // no on-disk index cache for the scratch workspace (it would be rewritten on every
        // watcher event)
        let _ = std::fs::write(ws.join("trust-lsp.toml"), "[indexing]\ncache = false\n");
        let root = format!("file://{}", ws.display());
        StartOpts {
            root_uri: Some(root.clone()),
            // Push diagnostics (no pull capability). `semanticTokens.refreshSupport` makes
            // the server end its start-up background task with a
            // `workspace/semanticTokens/refresh` request - the only observable sign that
            // the task (which runs on another thread and would truncate diagnostics that
            // the main thread computes at the same time) is over; `start` waits for it.
            capabilities: json!({"workspace": {"semanticTokens": {"refreshSupport": true}}}),
            initialization_options: None,
            stderr_log: dir.join(format!("{tag}-{}.log", std::process::id())),
            workspace_folders: vec![root],
            wait_for_index: true,
            scratch: Some(scratch),
        }
    }
}

pub struct Server {
    child: Child,
    stdin: Option<ChildStdin>,
    rx: Receiver<J>,
    reader: Option<std::thread::JoinHandle<()>>,
    next_id: i64,
    seq: u64,
    /// uri -> (number of publishDiagnostics received, params of the latest one)
    pub published: BTreeMap<String, (u64, J)>,
    pub server_requests: u64,
    pub other_notifications: u64,
    /// "Workspace update" log messages seen (end marker of didChangeWatchedFiles handling)
    pub workspace_updates: u64,
    /// "Indexed N workspace ST files" log messages seen (end of the workspace scan)
    pub index_reports: u64,
    /// `workspace/semanticTokens/refresh` requests seen (last act of the start-up task)
    pub token_refresh_requests: u64,
    stderr_log: PathBuf,
    pub capabilities: J,
}

fn read_frame<R: BufRead>(r: &mut R) -> Option<J> {
    let mut len: Option<usize> = None;
    loop {
        let mut line = String::new();
        let n = r.read_line(&mut line).ok()?;
        if n == 0 {
            return None;
        }
        let t = line.trim_end_matches(['\r', '\n']);
        if t.is_empty() {
            break;
        }
        if let Some((k, v)) = t.split_once(':') {
            if k.eq_ignore_ascii_case("content-length") {
                len = v.trim().parse().ok();
            }
        }
    }
    let len = len?;
    let mut buf = vec![0u8; len];
    r.read_exact(&mut buf).ok()?;
    // A frame that is not JSON is handed on as a marker so the caller can report it.
    Some(serde_json::from_slice(&buf).unwrap_or_else(|e| json!({"$unparsable": e.to_string()})))
}

impl Server {
    pub fn start(opts: &StartOpts) -> Result<Server, LspError> {
        let bin = lsp_bin();
        if !bin.is_file() {
            return Err(LspError::Missing(bin.display().to_string()));
        }
        let stderr = std::fs::File::create(&opts.stderr_log)
            .map(Stdio::from)
            .unwrap_or_else(|_| Stdio::null());
        let mut cmd = Command::new(&bin);
        cmd.stdin(Stdio::piped())
            .stdout(Stdio::piped())
            .stderr(stderr)
            .env("RUST_BACKTRACE", "0")
            .env("RUST_LOG", "salsa=error,trust_lsp=warn,tower_lsp=warn,trust_hir=warn,trust_ide=warn")
            .env("NO_COLOR", "1");
        unsafe {
            use std::os::unix::process::CommandExt;
            cmd.pre_exec(|| {
                // die with the worker (no orphan servers after a watchdog kill)
                libc::prctl(libc::PR_SET_PDEATHSIG, libc::SIGKILL);
                Ok(())
            });
        }
        let mut child = cmd
            .spawn()
            .map_err(|e| LspError::Missing(format!("{}: {e}", bin.display())))?;
        let stdin = child.stdin.take();
        let stdout = child.stdout.take().expect("piped stdout");
        let (tx, rx) = channel::<J>();
        let reader = std::thread::Builder::new()
            .name("lsp-reader".into())
            .spawn(move || {
                let mut r = BufReader::new(stdout);
                while let Some(msg) = read_frame(&mut r) {
                    if tx.send(msg).is_err() {
                        break;
                    }
                }
            })
            .expect("spawn reader");
        let mut s = Server {
            child,
            stdin,
            rx,
            reader: Some(reader),
            next_id: 1,
            seq: 0,
            published: BTreeMap::new(),
            server_requests: 0,
            other_notifications: 0,
            workspace_updates: 0,
            index_reports: 0,
            token_refresh_requests: 0,
            stderr_log: opts.stderr_log.clone(),
            capabilities: J::Null,
        };
        let mut params = json!({
            "processId": J::Null,
            "clientInfo": {"name": "tpverif"},
            "rootUri": opts.root_uri,
            "capabilities": opts.capabilities,
        });
        if !opts.workspace_folders.is_empty() {
            let folders: Vec<J> = opts
                .workspace_folders
                .iter()
                .enumerate()
                .map(|(i, u)| json!({"uri": u, "name": format!("ws{i}")}))
                .collect();
            params["workspaceFolders"] = J::Array(folders);
        } else if let Some(root) = &opts.root_uri {
            params["workspaceFolders"] = json!([{"uri": root, "name": "ws"}]);
        }
        if let Some(io) = &opts.initialization_options {
            params["initializationOptions"] = io.clone();
        }
        let init = s.request("initialize", params)?;
        s.capabilities = init.get("capabilities").cloned().unwrap_or(J::Null);
        s.notify("initialized", json!({}))?;
        if opts.wait_for_index {
            let deadline = Instant::now() + request_timeout();
            while s.index_reports == 0 {
                let left = deadline.saturating_duration_since(Instant::now());
                match s.rx.recv_timeout(left) {
                    Ok(msg) => {
                        s.absorb(msg)?;
                    }
                    Err(RecvTimeoutError::Timeout) => {
                        return Err(s.gone_or("the server did not report the end of its workspace scan".into()));
                    }
                    Err(RecvTimeoutError::Disconnected) => {
                        return Err(s.gone_or("server closed its stdout during start-up".into()));
                    }
                }
            }
            // After that message the task re-publishes the diagnostics of open documents (none
            // yet) and, if the client supports it, asks the client to refresh semantic tokens:
            // that request is its last act.
            let announces_refresh = opts
                .capabilities
                .pointer("/workspace/semanticTokens/refreshSupport")
                .and_then(J::as_bool)
                .unwrap_or(false);
            while announces_refresh && s.token_refresh_requests == 0 {
                let left = deadline.saturating_duration_since(Instant::now());
                match s.rx.recv_timeout(left) {
                    Ok(msg) => {
                        s.absorb(msg)?;
                    }
                    Err(RecvTimeoutError::Timeout) => {
                        return Err(s.gone_or("the server's start-up task did not end with a semantic-tokens refresh request".into()));
                    }
                    Err(RecvTimeoutError::Disconnected) => {
                        return Err(s.gone_or("server closed its stdout during start-up".into()));
                    }
                }
            }
            for _ in 0..2 {
                s.doc_request("textDocument/foldingRange", "file:///tpv-barrier/none.st")?;
            }
        }
        Ok(s)
    }

    fn stderr_tail(&self) -> String {
        let text = std::fs::read(&self.stderr_log).unwrap_or_default();
        let start = text.len().saturating_sub(1500);
        let tail = String::from_utf8_lossy(&text[start..]).to_string();
        // keep the panic line if there is one
        match tail.find("panicked at") {
            Some(i) => tail[i..].chars().take(600).collect(),
            None => tail.chars().rev().take(400).collect::<Vec<_>>().into_iter().rev().collect(),
        }
    }

    /// Some(description) if the process is gone.
    pub fn dead(&mut self) -> Option<String> {
        match self.child.try_wait() {
            Ok(Some(status)) => Some(format!("{status}; stderr tail: {}", self.stderr_tail())),
            Ok(None) => None,
            Err(e) => Some(format!("try_wait failed: {e}")),
        }
    }

    /// A panic on the server's main thread does not end the process: the tokio runtime
    /// waits for its blocked stdin reader while shutting down, so the process lingers
    /// without answering. The panic message in the stderr log is the evidence of the crash.
    fn panicked(&self) -> Option<String> {
        let text = std::fs::read(&self.stderr_log).ok()?;
        let text = String::from_utf8_lossy(&text);
        let i = text.find("panicked at")?;
        Some(text[i..].chars().take(500).collect())
    }

    fn gone_or(&mut self, infra: String) -> LspError {
        // give a dying process a moment to be reaped
        for _ in 0..50 {
            if let Some(d) = self.dead() {
                return LspError::Crashed(d);
            }
            if let Some(p) = self.panicked() {
                return LspError::Crashed(format!("server thread {p}"));
            }
            std::thread::sleep(Duration::from_millis(10));
        }
        LspError::Infra(infra)
    }

    fn send(&mut self, msg: &J) -> Result<(), LspError> {
        let body = serde_json::to_vec(msg).expect("serialisable");
        let head = format!("Content-Length: {}\r\n\r\n", body.len());
        let res = match self.stdin.as_mut() {
            Some(w) => w
                .write_all(head.as_bytes())
                .and_then(|_| w.write_all(&body))
                .and_then(|_| w.flush()),
            None => Err(std::io::Error::other("stdin closed")),
        };
        match res {
            Ok(()) => Ok(()),
            Err(e) => Err(self.gone_or(format!("write to server failed: {e}"))),
        }
    }

    pub fn notify(&mut self, method: &str, params: J) -> Result<(), LspError> {
        self.send(&json!({"jsonrpc": "2.0", "method": method, "params": params}))
    }

    /// Handle one incoming message that is not the awaited response.
    fn absorb(&mut self, msg: J) -> Result<Option<J>, LspError> {
        if msg.get("$unparsable").is_some() {
            return Err(LspError::Infra(format!("server sent a frame that is not JSON: {msg}")));
        }
        let has_method = msg.get("method").and_then(J::as_str).map(str::to_string);
        match (has_method, msg.get("id").cloned()) {
            (Some(method), Some(id)) => {
                // server -> client request: answer at once
                self.server_requests += 1;
                if method == "workspace/semanticTokens/refresh" {
                    self.token_refresh_requests += 1;
                }
                let result = if method == "workspace/configuration" {
                    let n = msg
                        .pointer("/params/items")
                        .and_then(J::as_array)
                        .map(|a| a.len())
                        .unwrap_or(0);
                    J::Array(vec![J::Null; n])
                } else {
                    J::Null
                };
                self.send(&json!({"jsonrpc": "2.0", "id": id, "result": result}))?;
                Ok(None)
            }
            (Some(method), None) => {
                if method == "textDocument/publishDiagnostics" {
                    if let Some(uri) = msg.pointer("/params/uri").and_then(J::as_str) {
                        self.seq += 1;
                        let params = msg.get("params").cloned().unwrap_or(J::Null);
                        let n = self.published.get(uri).map(|(n, _)| *n).unwrap_or(0);
                        self.published.insert(uri.to_string(), (n + 1, params));
                    }
                } else {
                    if method == "window/logMessage" {
                        let m = msg.pointer("/params/message").and_then(J::as_str).unwrap_or("");
                        if m.starts_with("Workspace update") {
                            self.workspace_updates += 1;
                        }
                        if m.starts_with("Indexed ") {
                            self.index_reports += 1;
                        }
                    }
                    self.other_notifications += 1;
                }
                Ok(None)
            }
            (None, _) => Ok(Some(msg)),
        }
    }

    /// Send a request and wait for its response. `Ok(result)`; a JSON-RPC error response
    /// is returned as `{"$error": {...}}` (callers compare or report it).
    pub fn request(&mut self, method: &str, params: J) -> Result<J, LspError> {
        let id = self.next_id;
        self.next_id += 1;
        self.send(&json!({"jsonrpc": "2.0", "id": id, "method": method, "params": params}))?;
        let timeout = request_timeout();
        let deadline = Instant::now() + timeout;
        loop {
            let left = deadline.saturating_duration_since(Instant::now());
            // wake up now and then to notice a server that panicked but lingers
            let slice = left.min(Duration::from_millis(400));
            match self.rx.recv_timeout(slice) {
                Err(RecvTimeoutError::Timeout) if !left.is_zero() && slice < left => {
                    if let Some(p) = self.panicked() {
                        return Err(LspError::Crashed(format!("server thread {p}")));
                    }
                }
                Ok(msg) => {
                    if let Some(resp) = self.absorb(msg)? {
                        if resp.get("id").and_then(J::as_i64) == Some(id) {
                            if let Some(err) = resp.get("error") {
                                return Ok(json!({"$error": err}));
                            }
                            return Ok(resp.get("result").cloned().unwrap_or(J::Null));
                        }
                        // response to something else (stale id): ignore
                    }
                }
                Err(RecvTimeoutError::Timeout) => {
                    return Err(self.gone_or(format!(
                        "no response to {method} within {} s (server alive)",
                        timeout.as_secs()
                    )));
                }
                Err(RecvTimeoutError::Disconnected) => {
                    return Err(self.gone_or(format!("server closed its stdout during {method}")));
                }
            }
        }
    }

    /// Absorb whatever has already arrived (non-blocking).
    pub fn drain(&mut self) -> Result<(), LspError> {
        while let Ok(msg) = self.rx.try_recv() {
            self.absorb(msg)?;
        }
        Ok(())
    }

    /// Wait until at least `count` publishDiagnostics notifications for `uri` have arrived
    /// and return the latest. The server publishes exactly one per didOpen and per applied
    /// didChange, in order, but writes them to the wire independently of responses.
    /// `Ok(None)` = fewer arrived within `wait` (e.g. the server rejected a change).
    pub fn wait_publish(&mut self, uri: &str, count: u64, wait: Duration) -> Result<Option<J>, LspError> {
        let deadline = Instant::now() + wait;
        loop {
            if let Some((n, p)) = self.published.get(uri) {
                if *n >= count {
                    return Ok(Some(p.clone()));
                }
            }
            let left = deadline.saturating_duration_since(Instant::now());
            if left.is_zero() {
                return Ok(None);
            }
            match self.rx.recv_timeout(left) {
                Ok(msg) => {
                    self.absorb(msg)?;
                }
                Err(RecvTimeoutError::Timeout) => return Ok(None),
                Err(RecvTimeoutError::Disconnected) => {
                    return Err(self.gone_or("server closed its stdout".into()));
                }
            }
        }
    }

    pub fn publish_seq(&self) -> u64 {
        self.seq
    }

    // ---- document helpers -------------------------------------------------------

    pub fn did_open(&mut self, uri: &str, version: i64, text: &str) -> Result<(), LspError> {
        self.notify(
            "textDocument/didOpen",
            json!({"textDocument": {"uri": uri, "languageId": "structured-text", "version": version, "text": text}}),
        )
    }

    /// `changes` = LSP `TextDocumentContentChangeEvent`s.
    pub fn did_change(&mut self, uri: &str, version: i64, changes: J) -> Result<(), LspError> {
        self.notify(
            "textDocument/didChange",
            json!({"textDocument": {"uri": uri, "version": version}, "contentChanges": changes}),
        )
    }

    /// `workspace/didChangeWatchedFiles` with the given (uri, type) events
    /// (1 = Created, 2 = Changed, 3 = Deleted).
    pub fn watched(&mut self, events: &[(&str, u8)]) -> Result<(), LspError> {
        let changes: Vec<J> = events.iter().map(|(u, t)| json!({"uri": u, "type": t})).collect();
        self.notify("workspace/didChangeWatchedFiles", json!({"changes": changes}))
    }

    /// One round trip. The server starts its handlers in arrival order and every handler
    /// used here changes the server's state before its first await, so when the answer
    /// arrives all earlier notifications have taken effect.
    pub fn barrier(&mut self) -> Result<(), LspError> {
        self.doc_request("textDocument/foldingRange", "file:///tpv-barrier/none.st")?;
        Ok(())
    }

    /// Close the document and report its file as deleted, so that nothing of it stays in the
    /// server's project (a closed document otherwise remains indexed: its declarations would
    /// clash with the next document's, and every leftover file slows each analysis down).
    /// (The deletion handler ends by re-publishing the diagnostics of whatever is open at
    /// that moment; published diagnostics are not judged, so that is harmless.)
    pub fn close_and_forget(&mut self, uri: &str) -> Result<(), LspError> {
        self.notify("textDocument/didClose", json!({"textDocument": {"uri": uri}}))?;
        self.watched(&[(uri, 3)])?;
        self.barrier()
    }

    pub fn forget_published(&mut self, uri: &str) {
        self.published.remove(uri);
    }

    pub fn doc_request(&mut self, method: &str, uri: &str) -> Result<J, LspError> {
        self.request(method, json!({"textDocument": {"uri": uri}}))
    }

    pub fn set_configuration(&mut self, settings: J) -> Result<(), LspError> {
        self.notify("workspace/didChangeConfiguration", json!({"settings": settings}))
    }

    pub fn stop(mut self) {
        self.stop_inner();
    }

    fn stop_inner(&mut self) {
        if self.dead().is_none() {
            // polite shutdown with a short grace, then kill
            let id = self.next_id;
            self.next_id += 1;
            let _ = self.send(&json!({"jsonrpc": "2.0", "id": id, "method": "shutdown", "params": J::Null}));
            let _ = self.rx.recv_timeout(Duration::from_millis(300));
            let _ = self.notify("exit", J::Null);
        }
        self.stdin = None; // EOF on the server's stdin
        for _ in 0..30 {
            if matches!(self.child.try_wait(), Ok(Some(_))) {
                break;
            }
            std::thread::sleep(Duration::from_millis(10));
        }
        let _ = self.child.kill();
        let _ = self.child.wait();
        if let Some(h) = self.reader.take() {
            let _ = h.join();
        }
    }
}

impl Drop for Server {
    fn drop(&mut self) {
        self.stop_inner();
    }
}

/// One reusable server per worker. `with` hands out the live server, starting or
/// restarting it as needed. After an infrastructure failure the pool is poisoned:
/// `infra()` is Some and callers skip the remaining cases (inconclusive, exit 2).
pub struct Pool {
    opts: StartOpts,
    server: RefCell<Option<Server>>,
    infra: RefCell<Option<String>>,
    pub starts: Cell<u32>,
    pub uses: Cell<u64>,
    /// Restart the server after this many uses (bounds whatever state it accumulates).
    pub recycle_after: u64,
    /// Server crashes seen. Every crash is reported as a violation by the caller; after
    /// `crash_budget` of them (shrinking a crashing case restarts the server for every
    /// candidate) the pool stops restarting and the remaining cases are skipped.
    pub crashes: Cell<u32>,
    pub crash_budget: u32,
}

impl Pool {
    pub fn new(opts: StartOpts) -> Pool {
        Pool {
            opts,
            server: RefCell::new(None),
            infra: RefCell::new(None),
            starts: Cell::new(0),
            uses: Cell::new(0),
            recycle_after: 400,
            crashes: Cell::new(0),
            crash_budget: 60,
        }
    }

    pub fn infra(&self) -> Option<String> {
        self.infra.borrow().clone()
    }

    pub fn poison(&self, why: String) {
        let mut i = self.infra.borrow_mut();
        if i.is_none() {
            *i = Some(why);
        }
    }

    /// Run `f` with the server. `Err(Crashed)` drops the server (a fresh one is started
    /// next time); `Err(Infra|Missing)` poisons the pool.
    pub fn with<R>(&self, f: impl FnOnce(&mut Server) -> Result<R, LspError>) -> Result<R, LspError> {
        if let Some(why) = self.infra() {
            return Err(LspError::Infra(why));
        }
        let mut slot = self.server.borrow_mut();
        if self.uses.get() >= self.recycle_after {
            *slot = None;
            self.uses.set(0);
        }
        if let Some(s) = slot.as_mut() {
            if s.dead().is_some() {
                *slot = None;
            }
        }
        if slot.is_none() {
            match Server::start(&self.opts) {
                Ok(s) => {
                    *slot = Some(s);
                    self.starts.set(self.starts.get() + 1);
                    self.uses.set(0);
                }
                Err(e) => {
                    // A server that cannot even be started is infrastructure trouble
                    // (never a property violation).
                    let why = format!("cannot start trust-lsp: {e}");
                    drop(slot);
                    self.poison(why.clone());
                    return Err(match e {
                        LspError::Missing(m) => LspError::Missing(m),
                        _ => LspError::Infra(why),
                    });
                }
            }
        }
        self.uses.set(self.uses.get() + 1);
        let res = f(slot.as_mut().expect("server present"));
        match &res {
            Ok(_) => {}
            Err(LspError::Crashed(_)) => {
                *slot = None;
                self.crashes.set(self.crashes.get() + 1);
                if self.crashes.get() >= self.crash_budget {
                    drop(slot);
                    self.poison(format!(
                        "the server crashed {} times in this worker (each reported as a violation); not restarting it again",
                        self.crashes.get()
                    ));
                }
            }
            Err(e @ LspError::Infra(_)) | Err(e @ LspError::Missing(_)) => {
                *slot = None;
                drop(slot);
                self.poison(e.to_string());
            }
        }
        res
    }

    /// The scratch workspace folder announced to the server (`StartOpts::plain`).
    pub fn workspace_dir(&self) -> Option<PathBuf> {
        let ws = self.opts.scratch.as_ref()?.join("ws");
        Some(std::fs::canonicalize(&ws).unwrap_or(ws))
    }

    pub fn shutdown(&self) {
        *self.server.borrow_mut() = None;
        if let Some(d) = &self.opts.scratch {
            let _ = std::fs::remove_dir_all(d);
        }
    }
}

/// Turn an LSP outcome inside a property closure into the closure's result:
/// crash = violation (Err), infrastructure = skip (Ok(None)), else the value.
pub fn settle<R>(res: Result<R, LspError>) -> Result<Option<R>, String> {
    match res {
        Ok(v) => Ok(Some(v)),
        Err(LspError::Crashed(m)) => Err(format!("server crashed: {m}")),
        Err(LspError::Infra(_)) | Err(LspError::Missing(_)) => Ok(None),
    }
}

// ---- text model helpers (LSP positions: line, UTF-16 column) ---------------------------

/// Byte offsets at which lines start ('\n' ends a line; a preceding '\r' belongs to the
/// line terminator).
pub fn line_starts(text: &str) -> Vec<usize> {
    let mut v = vec![0usize];
    for (i, b) in text.bytes().enumerate() {
        if b == b'\n' {
            v.push(i + 1);
        }
    }
    v
}

/// End of the content of the line starting at `start` (before "\n" / "\r\n").
pub fn line_content_end(text: &str, start: usize) -> usize {
    let bytes = text.as_bytes();
    let mut end = match text[start..].find('\n') {
        Some(i) => start + i,
        None => text.len(),
    };
    if end > start && end < text.len() && bytes[end - 1] == b'\r' {
        end -= 1;
    }
    end
}

/// Reference conversion byte offset -> LSP position (UTF-16 columns).
pub fn offset_to_position(text: &str, offset: usize) -> (u32, u32) {
    let starts = line_starts(text);
    let line = match starts.binary_search(&offset) {
        Ok(i) => i,
        Err(i) => i - 1,
    };
    let col: usize = text[starts[line]..offset].chars().map(char::len_utf16).sum();
    (line as u32, col as u32)
}

/// Reference conversion LSP position -> byte offset: columns are UTF-16 code units, a
/// column beyond the line's content clamps to the end of the content (before the line
/// terminator), a column inside a surrogate pair rounds down. None = line does not exist.
pub fn position_to_offset(text: &str, line: u32, character: u32) -> Option<usize> {
    let starts = line_starts(text);
    let start = *starts.get(line as usize)?;
    let end = line_content_end(text, start);
    let mut col = 0u32;
    for (i, c) in text[start..end].char_indices() {
        let w = c.len_utf16() as u32;
        if col + w > character {
            return Some(start + i);
        }
        col += w;
    }
    Some(end)
}

pub fn utf16_len(s: &str) -> usize {
    s.chars().map(char::len_utf16).sum()
}

/// Strip URIs of the given documents from a JSON answer ("equal modulo URI").
pub fn scrub_uri(v: &J, uri: &str) -> J {
    match v {
        J::String(s) if s.contains(uri) => J::String(s.replace(uri, "$URI")),
        J::Array(a) => J::Array(a.iter().map(|x| scrub_uri(x, uri)).collect()),
        J::Object(o) => J::Object(o.iter().map(|(k, x)| (k.clone(), scrub_uri(x, uri))).collect()),
        other => other.clone(),
    }
}
