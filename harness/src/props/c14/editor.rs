//! The answer state an editor keeps between requests (C14, round 4): semantic tokens with
//! `resultId` (full, then `full/delta` whose edits the editor applies to its own array;
//! `range` answers), pulled diagnostics with `previousResultId` (`unchanged` reports let the
//! editor keep its items), `workspace/diagnostic` with `previousResultIds`. For each the
//! client-side reconstructed state must equal the fresh, stateless answer for the same
//! text. And the push channel: after the server has gone quiet the last
//! `publishDiagnostics` for the document must equal the pulled diagnostics.

use std::collections::BTreeMap;
use std::time::{Duration, Instant};

use serde_json::{json, Value as J};

use super::lspc::{offset_to_position, position_to_offset, LspError, Server};

/// Known finding: `semanticTokens/range` encodes its first token relative to the start of
/// the requested range; LSP (and every client) decodes it relative to line 0, column 0.
pub const RANGE_ORIGIN_KEY: &str = "C14-semantic-tokens-range-relative-origin";

#[derive(Default)]
pub struct EditorState {
    /// semantic tokens: (resultId, data) as the editor holds them
    pub tokens: Option<(String, Vec<u64>)>,
    /// document diagnostics: (resultId, items)
    pub diagnostics: Option<(String, J)>,
    /// workspace diagnostics: uri -> (resultId, items)
    pub workspace: BTreeMap<String, (String, J)>,
    /// first failure of a stateful channel (reported by the caller as a violation)
    pub failure: Option<String>,
    /// the range answer follows the server's own convention only (known finding)
    pub range_origin_relative: bool,
    pub labels: Vec<String>,
}

fn data_of(v: &J) -> Option<Vec<u64>> {
    v.get("data")?.as_array().map(|a| a.iter().map(|x| x.as_u64().unwrap_or(u64::MAX)).collect())
}

impl EditorState {
    fn fail(&mut self, msg: String) {
        if self.failure.is_none() {
            self.failure = Some(msg);
        }
    }

    fn label(&mut self, l: &str) {
        if !self.labels.iter().any(|x| x == l) {
            self.labels.push(l.to_string());
        }
    }

    /// Ask for tokens the way an editor does: full the first time, then delta with the
    /// previous resultId; the returned edits are applied to the editor's own array.
    pub fn tokens_incremental(&mut self, s: &mut Server, uri: &str) -> Result<(), LspError> {
        let Some((prev_id, prev)) = self.tokens.clone() else {
            let full = s.doc_request("textDocument/semanticTokens/full", uri)?;
            self.adopt_full(&full);
            self.label("tokens:full(first)");
            return Ok(());
        };
        let ans = s.request(
            "textDocument/semanticTokens/full/delta",
            json!({"textDocument": {"uri": uri}, "previousResultId": prev_id}),
        )?;
        if ans.is_null() {
            self.tokens = None;
            self.label("tokens:delta->null");
            return Ok(());
        }
        let id = ans.get("resultId").and_then(J::as_str).unwrap_or("").to_string();
        if let Some(edits) = ans.get("edits").and_then(J::as_array) {
            // all edits refer to the previous array: apply from the back
            let mut list: Vec<(usize, usize, Vec<u64>)> = Vec::new();
            for e in edits {
                let start = e.get("start").and_then(J::as_u64).unwrap_or(u64::MAX) as usize;
                let del = e.get("deleteCount").and_then(J::as_u64).unwrap_or(u64::MAX) as usize;
                let data = data_of(e).unwrap_or_default();
                list.push((start, del, data));
            }
            list.sort_by_key(|e| std::cmp::Reverse(e.0));
            let mut cur = prev;
            for (start, del, data) in list {
                if start > cur.len() || start.saturating_add(del) > cur.len() {
                    self.fail(format!(
                        "semanticTokens/full/delta edit (start {start}, deleteCount {del}) does not fit the editor's array of {} numbers",
                        cur.len()
                    ));
                    self.tokens = None;
                    return Ok(());
                }
                cur.splice(start..start + del, data);
            }
            self.label(if edits.is_empty() { "tokens:delta(no-edit)" } else { "tokens:delta(edit)" });
            self.tokens = Some((id, cur));
        } else if let Some(data) = data_of(&ans) {
            self.label("tokens:delta->full");
            self.tokens = Some((id, data));
        } else {
            self.tokens = None;
        }
        Ok(())
    }

    fn adopt_full(&mut self, full: &J) {
        match (full.get("resultId").and_then(J::as_str), data_of(full)) {
            (Some(id), Some(data)) => self.tokens = Some((id.to_string(), data)),
            _ => self.tokens = None,
        }
    }

    /// The editor's array against a fresh `semanticTokens/full` for the same text; the
    /// fresh answer (and its resultId) is what the editor holds afterwards.
    pub fn tokens_verify(&mut self, s: &mut Server, uri: &str, when: &str) -> Result<J, LspError> {
        let full = s.doc_request("textDocument/semanticTokens/full", uri)?;
        if let (Some((_, mine)), Some(fresh)) = (&self.tokens, data_of(&full)) {
            if *mine != fresh {
                let at = mine.iter().zip(fresh.iter()).position(|(a, b)| a != b).unwrap_or(mine.len().min(fresh.len()));
                let msg = format!(
                    "semantic tokens the editor reconstructed from full + full/delta answers differ from semanticTokens/full for the same text ({when}): {} vs {} numbers, first difference at index {at} (token {}): editor ...{:?} vs server ...{:?}",
                    mine.len(),
                    fresh.len(),
                    at / 5,
                    &mine[at.min(mine.len())..(at + 10).min(mine.len())],
                    &fresh[at.min(fresh.len())..(at + 10).min(fresh.len())]
                );
                self.fail(msg);
            } else {
                self.label("tokens:reconstructed=full");
            }
        }
        self.adopt_full(&full);
        Ok(full)
    }

    /// `semanticTokens/range` against the corresponding slice of the full answer.
    /// `text` is the editor's buffer; the range is given in (line, UTF-16 column).
    pub fn tokens_range(
        &mut self,
        s: &mut Server,
        uri: &str,
        text: &str,
        full: &J,
        range: ((u32, u32), (u32, u32)),
    ) -> Result<(), LspError> {
        let Some(full) = data_of(full) else { return Ok(()) };
        let ((sl, sc), (el, ec)) = range;
        let ans = s.request(
            "textDocument/semanticTokens/range",
            json!({"textDocument": {"uri": uri},
                   "range": {"start": {"line": sl, "character": sc}, "end": {"line": el, "character": ec}}}),
        )?;
        let (Some(so), Some(eo)) = (position_to_offset(text, sl, sc), position_to_offset(text, el, ec)) else {
            return Ok(());
        };
        let got = data_of(&ans).unwrap_or_default();
        // tokens of the full answer that start inside [so, eo)
        let mut abs: Vec<(u32, u32, [u64; 3])> = Vec::new();
        let (mut line, mut col) = (0u64, 0u64);
        for t in full.chunks(5) {
            if t.len() < 5 {
                break;
            }
            if t[0] > 0 {
                line += t[0];
                col = t[1];
            } else {
                col += t[1];
            }
            let Some(off) = position_to_offset(text, line as u32, col as u32) else { continue };
            if eo > so && off >= so && off < eo {
                abs.push((line as u32, col as u32, [t[2], t[3], t[4]]));
            }
        }
        let encode = |origin: (u32, u32)| -> Vec<u64> {
            let mut out = Vec::new();
            let (mut pl, mut pc) = origin;
            for (l, c, rest) in &abs {
                let dl = l - pl;
                let dc = if dl == 0 { c - pc } else { *c };
                out.extend_from_slice(&[dl as u64, dc as u64, rest[0], rest[1], rest[2]]);
                pl = *l;
                pc = *c;
            }
            out
        };
        let absolute = encode((0, 0));
        let origin = offset_to_position(text, so);
        // (tokens before the origin on its line cannot be in the slice, so the subtraction
        // above cannot underflow)
        let relative = encode(origin);
        if got == absolute {
            self.label(if abs.is_empty() { "tokens:range=slice(empty)" } else { "tokens:range=slice" });
        } else if got == relative {
            self.range_origin_relative = true;
            self.label("tokens:range=slice-relative-to-range-start(known)");
        } else {
            self.fail(format!(
                "semanticTokens/range {sl}:{sc}-{el}:{ec} is not the slice of semanticTokens/full that starts in the range: got {} numbers {:?}..., the slice is {} numbers {:?}... (relative to the range start: {:?}...)",
                got.len(),
                &got[..got.len().min(10)],
                absolute.len(),
                &absolute[..absolute.len().min(10)],
                &relative[..relative.len().min(10)]
            ));
        }
        Ok(())
    }

    /// Pull diagnostics the way an editor does: with the previous resultId; an `unchanged`
    /// report means the editor keeps its items.
    pub fn diagnostics_incremental(&mut self, s: &mut Server, uri: &str) -> Result<(), LspError> {
        let mut params = json!({"textDocument": {"uri": uri}});
        if let Some((id, _)) = &self.diagnostics {
            params["previousResultId"] = json!(id);
        }
        let ans = s.request("textDocument/diagnostic", params)?;
        let id = ans.get("resultId").and_then(J::as_str).unwrap_or("").to_string();
        match ans.get("kind").and_then(J::as_str) {
            Some("unchanged") => {
                if let Some((_, items)) = self.diagnostics.take() {
                    self.diagnostics = Some((id, items));
                    self.label("diagnostic:unchanged");
                } else {
                    self.fail("textDocument/diagnostic answered `unchanged` to a request without previousResultId".into());
                }
            }
            Some("full") => {
                self.diagnostics = Some((id, ans.get("items").cloned().unwrap_or(J::Null)));
                self.label("diagnostic:full");
            }
            _ => self.diagnostics = None,
        }
        Ok(())
    }

    /// The editor's items against a fresh pull without previousResultId.
    pub fn diagnostics_verify(&mut self, s: &mut Server, uri: &str, when: &str) -> Result<J, LspError> {
        let fresh = s.doc_request("textDocument/diagnostic", uri)?;
        let items = fresh.get("items").cloned().unwrap_or(J::Null);
        if fresh.get("kind").and_then(J::as_str) != Some("full") && !fresh.is_null() {
            self.fail(format!("textDocument/diagnostic without previousResultId did not answer a full report ({when})"));
        }
        if let Some((_, mine)) = &self.diagnostics {
            if *mine != items {
                self.fail(format!(
                    "diagnostics the editor kept through `unchanged` reports differ from a fresh textDocument/diagnostic for the same text ({when}): editor has {} items, server {}",
                    mine.as_array().map(|a| a.len()).unwrap_or(0),
                    items.as_array().map(|a| a.len()).unwrap_or(0)
                ));
            } else {
                self.label("diagnostic:kept=fresh");
            }
        }
        if let Some(id) = fresh.get("resultId").and_then(J::as_str) {
            self.diagnostics = Some((id.to_string(), items));
        }
        Ok(fresh)
    }

    /// `workspace/diagnostic` with the previous result ids; afterwards the editor's entry for
    /// the document must equal a fresh document pull.
    pub fn workspace_diagnostics(&mut self, s: &mut Server, uri: &str, when: &str) -> Result<(), LspError> {
        let prev: Vec<J> = self.workspace.iter().map(|(u, (id, _))| json!({"uri": u, "value": id})).collect();
        let ans = s.request("workspace/diagnostic", json!({"previousResultIds": prev}))?;
        let Some(items) = ans.get("items").and_then(J::as_array) else {
            return Ok(());
        };
        let mut seen = Vec::new();
        for rep in items {
            let Some(u) = rep.get("uri").and_then(J::as_str) else { continue };
            seen.push(u.to_string());
            let id = rep.get("resultId").and_then(J::as_str).unwrap_or("").to_string();
            match rep.get("kind").and_then(J::as_str) {
                Some("unchanged") => match self.workspace.remove(u) {
                    Some((_, old)) => {
                        self.workspace.insert(u.to_string(), (id, old));
                        self.label("workspace-diagnostic:unchanged");
                    }
                    None => self.fail(format!(
                        "workspace/diagnostic answered `unchanged` for {u}, for which the editor sent no previous result id ({when})"
                    )),
                },
                _ => {
                    self.workspace.insert(u.to_string(), (id, rep.get("items").cloned().unwrap_or(J::Null)));
                }
            }
        }
        self.workspace.retain(|u, _| seen.contains(u));
        let fresh = s.doc_request("textDocument/diagnostic", uri)?;
        let fresh_items = fresh.get("items").cloned().unwrap_or(J::Null);
        match self.workspace.get(uri) {
            Some((_, mine)) if *mine != fresh_items => self.fail(format!(
                "the document's entry in the editor's workspace/diagnostic state differs from a fresh textDocument/diagnostic ({when}): {} vs {} items",
                mine.as_array().map(|a| a.len()).unwrap_or(0),
                fresh_items.as_array().map(|a| a.len()).unwrap_or(0)
            )),
            Some(_) => self.label("workspace-diagnostic:entry=fresh"),
            None => self.label("workspace-diagnostic:no-entry-for-document"),
        }
        Ok(())
    }
}

/// Outcome of the push oracle.
pub enum Push {
    /// the last publish equals the pulled diagnostics
    Match,
    /// the server went quiet and its last publish differs
    Mismatch(J),
    /// nothing was ever published for the document
    Nothing,
}

/// The push channel, judged soundly. Precondition: every notification of the session has
/// been processed (the caller has received the answer to a later request), so the
/// server's state is final: every publish the server computes from now on - and the one
/// its last state-changing handler computed - reflects that state, and publishes reach
/// the wire in the order they were computed. So: wait until a publish arrives that
/// equals the pulled diagnostics for the final state (normally it is already there). Only
/// when the server has been quiet for `quiet` (no further publish for the document) and
/// its last publish still differs is that a mismatch. Late publishes cannot turn a match
/// into a mismatch: they are computed from the same final state.
pub fn judge_push(s: &mut Server, uri: &str, pulled_items: &J, quiet: Duration, max: Duration) -> Result<Push, LspError> {
    let started = Instant::now();
    loop {
        s.drain()?;
        let (n, latest) = match s.published.get(uri) {
            Some((n, p)) => (*n, p.get("diagnostics").cloned().unwrap_or(J::Null)),
            None => (0, J::Null),
        };
        if n > 0 && latest == *pulled_items {
            return Ok(Push::Match);
        }
        if started.elapsed() > max || s.wait_publish(uri, n + 1, quiet)?.is_none() {
            return Ok(if n == 0 { Push::Nothing } else { Push::Mismatch(latest) });
        }
    }
}
