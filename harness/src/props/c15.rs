//! C15 - formatting never changes the program and is idempotent.
//!
//! Texts (corpus .st files from /repo, generated programs, mutated programs, mixed
//! comment/pragma/string lines, CRLF, tabs, long lines, unterminated tokens, non-ASCII) x
//! formatting configurations (request options, client settings, vendor profile of a scratch
//! workspace's trust-lsp.toml) x line ranges / on-type positions are sent to the real
//! `trust-lsp` binary (`formatting`, `rangeFormatting`, `onTypeFormatting`) and, for the web
//! IDE's own formatter, to `WebIdeState::format_source`. Oracle via `trust_syntax::lex`:
//! the formatted text has the same sequence of non-trivia tokens (keywords compared
//! case-insensitively) and the same comments, pragmas and string literals in the same
//! order; formatting the formatted text changes nothing; range / on-type edits are in
//! bounds, do not overlap and applying them preserves the token sequence.

use std::cell::{Cell, RefCell};
use std::path::PathBuf;

use proptest::prelude::*;
use serde::{Deserialize, Serialize};
use serde_json::{json, Value as J};
use trust_syntax::lexer::{lex, TokenKind};

use super::c14::lspc::{
    self, line_starts, offset_to_position, settle, LspError, Pool, Server,
    StartOpts,
};
use super::c14::{clip, exact_offset, pos_of};
use crate::engine::tape::{tape_strategy, Reader, Tape};
use crate::engine::{Probe, PropertyInfo, RunCtx};

pub fn info() -> PropertyInfo {
    PropertyInfo {
        id: "C15",
        level: "exploration",
        rule: "case = source text (corpus file from /repo, generated program, or either after 1-5 mutations: joined/split lines, inserted comments/pragmas/strings, removed/added blanks, token delete/duplicate/swap/replace, CRLF/mixed endings, tabs, long argument lists, unterminated tokens, stray non-ASCII) x formatting configuration (tabSize/insertSpaces, client settings indentWidth/insertSpaces/keywordCase/spacingStyle/endKeywordStyle/alignVarDecls/alignAssignments/maxLineLength, vendor profile from a scratch workspace trust-lsp.toml) x up to 2 line ranges and 2 on-type positions, through textDocument/formatting, rangeFormatting, onTypeFormatting of the real trust-lsp binary, plus WebIdeState::format_source on the same texts; non-trivial = formatting changed the text (document), or a range/on-type request returned a non-empty edit; distinct by SHA-256 of (text, configuration, request)",
        assumptions: &[
            "token sequences are compared with trust_syntax::lex (the toolchain's own lexer): non-trivia tokens by kind and text, keyword text case-insensitively; comments and pragmas are compared after collapsing whitespace runs (re-indenting the continuation lines of a block comment is layout, not content); string literals exactly",
            "line terminators LF and CRLF (the formatter normalises a mixed document to CRLF; that is layout)",
            "texts up to 12 KB; formatter configuration reaches the server through workspace/didChangeConfiguration (section trust-lsp/stLsp/trust_lsp . format|formatting) and trust-lsp.toml [project] vendor_profile - initializationOptions are not read by the server",
        ],
        workers_quick: 8,
        workers_thorough: 8,
        address_space_limit: 0,
        watchdog_quick_s: 900,
        watchdog_thorough_s: 7200,
        run,
    }
}

/// Helper subcommands (child processes of this check); None = not mine.
pub fn helper(_args: &[String]) -> Option<i32> {
    None
}

// ---- case ------------------------------------------------------------------------------

#[derive(Clone, Debug, Default, Serialize, Deserialize, PartialEq, Eq)]
pub struct Settings {
    /// name of the root section: 0 = "trust-lsp", 1 = "stLsp", 2 = "trust_lsp"
    pub section: u8,
    /// false = "format", true = "formatting"
    pub alt_key: bool,
    /// snake_case aliases instead of camelCase
    pub snake: bool,
    pub indent_width: Option<u32>,
    pub insert_spaces: Option<bool>,
    pub keyword_case: Option<String>,
    pub align_var_decls: Option<bool>,
    pub align_assignments: Option<bool>,
    pub max_line_length: Option<u32>,
    pub spacing_style: Option<String>,
    pub end_keyword_style: Option<String>,
}

pub const PROFILES: &[&str] = &["", "codesys", "siemens", "beckhoff", "twincat", "mitsubishi", "gxworks3", "other"];

#[derive(Clone, Debug, Serialize, Deserialize, PartialEq, Eq)]
pub struct Cfg {
    pub tab_size: u32,
    pub insert_spaces: bool,
    pub settings: Option<Settings>,
    /// index into PROFILES (0 = workspace without trust-lsp.toml)
    pub profile: u8,
}

#[derive(Clone, Debug, Serialize, Deserialize, PartialEq, Eq)]
pub struct Case {
    pub text: String,
    pub cfg: Cfg,
    /// (start line, start character, end line, end character)
    pub ranges: Vec<(u32, u32, u32, u32)>,
    /// (line, character, typed character)
    pub ontype: Vec<(u32, u32, String)>,
    /// generator class (label only)
    #[serde(default)]
    pub class: String,
}

impl Settings {
    fn to_json(&self) -> J {
        let key = |camel: &str, snake: &str| if self.snake { snake.to_string() } else { camel.to_string() };
        let mut f = serde_json::Map::new();
        if let Some(v) = self.indent_width {
            f.insert(key("indentWidth", "indent_width"), json!(v));
        }
        if let Some(v) = self.insert_spaces {
            f.insert(key("insertSpaces", "insert_spaces"), json!(v));
        }
        if let Some(v) = &self.keyword_case {
            f.insert(key("keywordCase", "keyword_case"), json!(v));
        }
        if let Some(v) = self.align_var_decls {
            f.insert(key("alignVarDecls", "align_var_decls"), json!(v));
        }
        if let Some(v) = self.align_assignments {
            f.insert(key("alignAssignments", "align_assignments"), json!(v));
        }
        if let Some(v) = self.max_line_length {
            f.insert(key("maxLineLength", "max_line_length"), json!(v));
        }
        if let Some(v) = &self.spacing_style {
            f.insert(key("spacingStyle", "spacing_style"), json!(v));
        }
        if let Some(v) = &self.end_keyword_style {
            f.insert(key("endKeywordStyle", "end_keyword_style"), json!(v));
        }
        let section = ["trust-lsp", "stLsp", "trust_lsp"][self.section as usize % 3];
        let fkey = if self.alt_key { "formatting" } else { "format" };
        json!({ section: { fkey: J::Object(f) } })
    }
}

// ---- generators ------------------------------------------------------------------------------

fn gen_cfg(r: &mut Reader) -> Cfg {
    let tab_size = *r.choose(&[4u32, 2, 1, 8]);
    let insert_spaces = !r.chance(1, 4) || r.exhausted();
    let settings = if r.weighted(&[1, 3]) == 1 {
        let opt_bool = |r: &mut Reader| match r.pick(3) {
            0 => None,
            1 => Some(true),
            _ => Some(false),
        };
        Some(Settings {
            section: r.weighted(&[6, 1, 1]) as u8,
            alt_key: r.weighted(&[5, 1]) == 1,
            snake: r.weighted(&[4, 1]) == 1,
            indent_width: *r.choose(&[None, Some(4), Some(2), Some(1), Some(8), Some(0)]),
            insert_spaces: opt_bool(r),
            keyword_case: r
                .choose(&[None, Some("upper"), Some("lower"), Some("preserve"), Some("UPPER")])
                .map(str::to_string),
            align_var_decls: opt_bool(r),
            align_assignments: opt_bool(r),
            max_line_length: *r.choose(&[None, Some(40), Some(20), Some(80), Some(30), Some(120), Some(0), Some(20)]),
            spacing_style: r
                .choose(&[None, Some("compact"), Some("spaced"), Some("tight")])
                .map(str::to_string),
            end_keyword_style: r
                .choose(&[None, Some("indented"), Some("aligned"), Some("indent")])
                .map(str::to_string),
        })
    } else {
        None
    };
    let profile = r.weighted(&[6, 2, 3, 1, 1, 1, 1, 1]) as u8;
    Cfg { tab_size, insert_spaces, settings, profile }
}

const DECLS: &[&str] = &[
    "x : INT;",
    "y:INT:=5;",
    "longer_name : REAL := 1.5;",
    "b , c : BOOL;",
    "a : ARRAY[0..3] OF INT;",
    "arr2 : ARRAY [ 1 .. 2 , 0..1 ] OF REAL := [1.0, 2.0, 3.0, 4.0];",
    "s : STRING[10] := 'a b  c';",
    "w : WSTRING := \"x, y\";",
    "t : TIME := T#5s;",
    "d : DATE := D#2024-01-02;",
    "i AT %IX0.0 : BOOL;",
    "p : POINTER TO INT;",
    "r : REF_TO INT;",
    "e : (Red, Green) := Red;",
    "sub : INT (0..100);",
    "k : INT := -1;",
    "h : WORD := 16#FF;",
    "fb : TON;",
    "x1 : INT; // comment",
    "(* c *) z : INT;",
    "{attr} q : INT;",
    "m : ARRAY[0..1] OF STRING := ['a,b', 'c'];",
];

const STMTS: &[&str] = &[
    "x:=x+1;",
    "x := -x;",
    "x := x - -1;",
    "x := a[1] + a [ 2 ];",
    "y := x ** 2;",
    "b := NOT b AND (x > 1) OR c;",
    "b := x <= 3 AND x >= 1 AND x <> 2;",
    "p^ := 1;",
    "x := p^;",
    "fb(IN := b, PT := T#1s);",
    "fb ( IN:=b , PT:=T#1s , Q=>c );",
    "x := F(1, 2, 3, 4, 5, 6, 7, 8, 9, 10, 11, 12, 13, 14, 15, 16, 17, 18, 19, 20);",
    "x := MAX(x, y, 3); y := MIN(1,2);",
    "s := 'it$'s, ok';",
    "s := CONCAT('a,b', 'c;d', 'e := f');",
    "x := INT#5 + INT#16#7F;",
    "t := T#1h2m + TIME#5ms;",
    "IF x>1 THEN y:=1; ELSIF x=2 THEN y:=2; ELSE y:=3; END_IF;",
    "IF b THEN\nx := 1;\nELSIF c THEN\nx := 2;\nELSE\nx := 3;\nEND_IF;",
    "CASE x OF 1: y:=1; 2,3: y:=2; 4..6: y:=3; ELSE y:=0; END_CASE;",
    "CASE x OF\n1:\ny := 1;\n2, 3:\ny := 2;\nELSE\ny := 0;\nEND_CASE;",
    "FOR x := 1 TO 10 BY 2 DO\ny := y + x;\nEND_FOR;",
    "WHILE x < 3 DO\nx := x + 1;\nEND_WHILE;",
    "REPEAT\nx := x - 1;\nUNTIL x <= 0\nEND_REPEAT;",
    "x := 1; // trailing",
    "(* lead *) x := 2;",
    "x := (* mid *) 3;",
    "{pragma} x := 4;",
    "x := 1; (* multi\n   line *) y := 2;",
    ";",
    "RETURN;",
    "x := y MOD 3;",
    "x := %IW4;",
    "b := %IX0.0;",
    "x := 1_000;",
    "r1 := 1.5e-3;",
    "x := a[x+1];",
    "THIS^.x := 1;",
    "x := fb.ET;",
    "lng := SomeFunctionName(first_argument := 1, second_argument := 2, third_argument := 3, fourth := 4);",
    "x := 1; y := 2; z := 3;",
    "long_target_name := 1;\nx := 2;\nyy := 3;",
    "x := SEL(b, 'a, b', \"c, d\");",
    "x := F(a, (* c, d *) b, c);",
    "x := F(a, b, // c\nc);",
    "e := E#Red;",
    "x := y / 2 * 3 - 4 + 5;",
    "b := x = 1 OR x <> 2 XOR c & b;",
    "x := LIMIT(0, x, 100);",
    "y := MUX(x, 1, 2, 3, 4);",
    "fb(IN := x > 1, PT := T#100ms, Q => b, ET => t);",
    "a[1] := MAX(a[0], a[2], a[3]);",
    "x := F(G(1, 2), H(3, 4), a[1], -5);",
];

/// Statements that `maxLineLength` wraps (a comma, no comment / string / pragma).
const WRAPPABLE: &[&str] = &[
    "x := LIMIT(0, x, 100);",
    "fb(IN := x > 1, PT := T#100ms, Q => b, ET => t);",
    "x := F(1, 2, 3, 4, 5, 6, 7, 8, 9, 10, 11, 12, 13, 14, 15, 16, 17, 18, 19, 20);",
    "lng := SomeFunctionName(first_argument := 1, second_argument := 2, third_argument := 3, fourth := 4);",
    "IF b THEN x := MAX(x, y, 3); END_IF;",
    "CASE x OF 1, 2: y := MIN(1, 2); END_CASE;",
];

fn gen_program(r: &mut Reader) -> String {
    let mut s = String::new();
    let pous = 1 + r.pick(2);
    for p in 0..pous {
        match r.weighted(&[5, 2, 2, 1]) {
            0 | 1 => {
                let (kw, end) = if r.flag() {
                    ("FUNCTION_BLOCK", "END_FUNCTION_BLOCK")
                } else {
                    ("PROGRAM", "END_PROGRAM")
                };
                s.push_str(&format!("{kw} P{p}\n"));
                for _ in 0..1 + r.pick(2) {
                    s.push_str(*r.choose(&["VAR\n", "VAR_INPUT\n", "VAR CONSTANT\n", "VAR_TEMP\n", "VAR RETAIN\n"]));
                    for _ in 0..1 + r.pick(5) {
                        s.push_str(*r.choose(DECLS));
                        s.push('\n');
                    }
                    s.push_str("END_VAR\n");
                }
                for _ in 0..1 + r.pick(8) {
                    if r.weighted(&[3, 1, 1]) == 1 {
                        s.push_str(*r.choose(WRAPPABLE));
                    } else {
                        s.push_str(*r.choose(STMTS));
                    }
                    s.push('\n');
                }
                s.push_str(end);
                s.push('\n');
            }
            2 => {
                s.push_str(&format!("FUNCTION F{p} : INT\nVAR_INPUT\n"));
                s.push_str(*r.choose(DECLS));
                s.push_str("\nEND_VAR\n");
                for _ in 0..1 + r.pick(3) {
                    s.push_str(*r.choose(STMTS));
                    s.push('\n');
                }
                s.push_str(&format!("F{p} := 1;\nEND_FUNCTION\n"));
            }
            _ => {
                s.push_str(*r.choose(&[
                    "TYPE E : (A, B, C); END_TYPE\n",
                    "TYPE\nS : STRUCT\nf : INT;\ng:REAL:=1.0;\nEND_STRUCT;\nEND_TYPE\n",
                    "TYPE T1 : ARRAY[0..1] OF INT; END_TYPE\n",
                    "CONFIGURATION C\nRESOURCE R ON PLC\nTASK T(INTERVAL := T#10ms, PRIORITY := 1);\nPROGRAM I WITH T : P0;\nEND_RESOURCE\nEND_CONFIGURATION\n",
                    "NAMESPACE N\nFUNCTION G : INT\nG := 1;\nEND_FUNCTION\nEND_NAMESPACE\n",
                    "INTERFACE I1\nMETHOD M : INT\nEND_METHOD\nEND_INTERFACE\n",
                ]));
            }
        }
    }
    s
}

fn floor_boundary(s: &str, mut i: usize) -> usize {
    if i > s.len() {
        i = s.len();
    }
    while !s.is_char_boundary(i) {
        i -= 1;
    }
    i
}

fn tokens_of(text: &str) -> Vec<(TokenKind, usize, usize)> {
    lex(text)
        .into_iter()
        .map(|t| (t.kind, usize::from(t.range.start()), usize::from(t.range.end())))
        .collect()
}

const INSERTS: &[&str] = &[
    " (* c *) ", " // c\n", " {p} ", " 'a, b' ", "(* a\n b *)", " (* x := 1; *) ", "{ multi\n line }", " \"w\" ",
    " /* c */ ", " (* nested (* c *) *) ", "// only\n",
];
const BREAKERS: &[&str] = &["'", "\"", "(*", "{", "*)", "}", "$", "\u{a0}", "\u{e9}", "\u{1F600}", "\u{c}", "#", "..", "%", "/*"];

fn mutate(text: &mut String, r: &mut Reader, labels: &mut Vec<&'static str>) {
    let c = super::c12::corpus();
    let toks = tokens_of(text);
    if toks.is_empty() {
        return;
    }
    match r.pick(14) {
        0 => {
            // join two lines (several statements per line)
            let nl: Vec<usize> = text.match_indices('\n').map(|(i, _)| i).collect();
            if !nl.is_empty() {
                let i = nl[r.pick(nl.len())];
                let s = if i > 0 && text.as_bytes()[i - 1] == b'\r' { i - 1 } else { i };
                text.replace_range(s..i + 1, " ");
                labels.push("mut:join-lines");
            }
        }
        1 => {
            // split a line at a token boundary
            let (_, s, _) = toks[r.pick(toks.len())];
            text.insert(s, '\n');
            labels.push("mut:split-line");
        }
        2 => {
            // insert a comment / pragma / string at a token boundary
            let (_, s, _) = toks[r.pick(toks.len())];
            text.insert_str(s, *r.choose(INSERTS));
            labels.push("mut:insert-trivia");
        }
        3 => {
            // remove the blank between two tokens when that does not change the lexing
            let ws: Vec<&(TokenKind, usize, usize)> = toks
                .iter()
                .filter(|t| t.0 == TokenKind::Whitespace && !text[t.1..t.2].contains('\n'))
                .collect();
            if !ws.is_empty() {
                let before = signature(text);
                let &(_, s, e) = ws[r.pick(ws.len())];
                let mut cand = text.clone();
                cand.replace_range(s..e, "");
                if signature(&cand) == before {
                    *text = cand;
                    labels.push("mut:tighten");
                }
            }
        }
        4 => {
            // widen blanks / trailing blanks / tabs
            let (_, s, _) = toks[r.pick(toks.len())];
            text.insert_str(s, *r.choose(&["  ", "\t", "   \t ", " "]));
            labels.push("mut:blanks");
        }
        5 => {
            let (_, s, e) = toks[r.pick(toks.len())];
            text.replace_range(s..e, "");
            labels.push("mut:delete-token");
        }
        6 => {
            let (_, s, e) = toks[r.pick(toks.len())];
            let t = text[s..e].to_string();
            text.insert_str(e, &t);
            labels.push("mut:duplicate-token");
        }
        7 => {
            let a = toks[r.pick(toks.len())];
            let b = toks[r.pick(toks.len())];
            let (a, b) = if a.1 <= b.1 { (a, b) } else { (b, a) };
            if a.2 <= b.1 {
                let ta = text[a.1..a.2].to_string();
                let tb = text[b.1..b.2].to_string();
                text.replace_range(b.1..b.2, &ta);
                text.replace_range(a.1..a.2, &tb);
                labels.push("mut:swap-tokens");
            }
        }
        8 => {
            let (_, s, e) = toks[r.pick(toks.len())];
            let v = &c.vocab[r.pick(c.vocab.len())];
            text.replace_range(s..e, v);
            labels.push("mut:replace-token");
        }
        9 => {
            // unterminated token / stray character
            let (_, s, _) = toks[r.pick(toks.len())];
            text.insert_str(s, *r.choose(BREAKERS));
            labels.push("mut:breaker");
        }
        10 => {
            // line endings
            let unix = text.replace("\r\n", "\n");
            if r.flag() {
                *text = unix.replace('\n', "\r\n");
                labels.push("mut:crlf");
            } else {
                let mut out = String::new();
                for l in unix.split_inclusive('\n') {
                    if l.ends_with('\n') && r.flag() {
                        out.push_str(&l[..l.len() - 1]);
                        out.push_str("\r\n");
                    } else {
                        out.push_str(l);
                    }
                }
                *text = out;
                labels.push("mut:mixed-eol");
            }
        }
        11 => {
            // splice a slice of another corpus file
            let other = &c.files[r.pick(c.files.len())];
            let s = floor_boundary(other, r.pick(other.len() + 1));
            let e = floor_boundary(other, (s + r.pick(300)).min(other.len()));
            let at = floor_boundary(text, r.pick(text.len() + 1));
            text.insert_str(at, &other[s..e.max(s)]);
            labels.push("mut:splice");
        }
        12 => {
            let at = floor_boundary(text, r.pick(text.len() + 1));
            text.truncate(at);
            labels.push("mut:truncate");
        }
        _ => {
            // drop the final newline / add blank lines
            if text.ends_with('\n') && r.flag() {
                text.pop();
                if text.ends_with('\r') {
                    text.pop();
                }
                labels.push("mut:no-final-newline");
            } else {
                let (_, s, _) = toks[r.pick(toks.len())];
                text.insert_str(s, "\n\n");
                labels.push("mut:blank-lines");
            }
        }
    }
}

// ---- VAR-block generator ------------------------------------------------------------------------
//
// Declarations are where the formatter's text-based passes (colon alignment, `:=`
// alignment) meet the most token kinds that contain their trigger characters: wide and
// narrow strings with `:`, `:=`, `;`, comment openers and braces; TOD / DT / TIME literals;
// AT addresses; typed literals; comments with colons; and initialisers spread over several
// lines, whose continuation lines have no type colon of their own but sit inside an
// alignment group.

const VAR_NAMES: &[&str] = &[
    "a", "x", "ok", "cnt", "state", "label", "timeout", "start_time", "very_long_variable_name",
    "i1", "msgTable", "q", "shift_plan_for_the_week", "b2", "Mode",
];

const WIDE_STRINGS: &[&str] = &[
    "\"st: run\"", "\"a := b;\"", "\"(* no comment *)\"", "\"// neither\"", "\"{ brace: 1 }\"",
    "\"x : INT := 5; y\"", "\":\"", "\"06:00:00\"", "\"a,b : c\"", "\"\"",
];

const NARROW_STRINGS: &[&str] = &["'x: y := z'", "'a; (* b *)'", "':'", "'// c {d}'", "''", "'it$'s: ok'"];

const TIME_LITERALS: &[&str] = &[
    "TOD#06:00:00", "TIME_OF_DAY#23:59:59", "LTOD#15:36:55.36", "DT#2024-01-02-03:04:05",
    "DATE_AND_TIME#2024-01-02-03:04:05", "LDT#2024-01-02-03:04:05.123", "T#1h2m3s", "TIME#5ms",
    "LTIME#5ns", "D#2024-01-02", "tod#01:02:03",
];

fn var_name(r: &mut Reader) -> String {
    let base = *r.choose(VAR_NAMES);
    if r.flag() {
        base.to_string()
    } else {
        format!("{base}{}", r.pick(10))
    }
}

/// `:` with the blanks the author happened to type.
fn colon(r: &mut Reader) -> &'static str {
    *r.choose(&[" : ", ":", ": ", " :", "  :  ", "\t: "])
}

fn assign(r: &mut Reader) -> &'static str {
    *r.choose(&[" := ", ":=", ":= ", " :=", "  :=  "])
}

fn decl_comment(r: &mut Reader) -> &'static str {
    *r.choose(&[
        "", "", "", " // note: colon", " (* a: b := c *)", " // x := 1;", " (* unit: \"ms\" *)", " {attr: 1}",
    ])
}

/// One declaration item: one or several lines.
fn var_item(r: &mut Reader, out: &mut Vec<String>) {
    let n = var_name(r);
    let c = colon(r);
    let a = assign(r);
    let tail = decl_comment(r);
    match r.pick(24) {
        0 => out.push(format!("{n}{c}INT;{tail}")),
        1 => out.push(format!("{n}{c}WSTRING{a}{};{tail}", r.choose(WIDE_STRINGS))),
        2 => out.push(format!("{n}{c}WSTRING[20]{a}{};{tail}", r.choose(WIDE_STRINGS))),
        3 => out.push(format!("{n}{c}STRING{a}{};{tail}", r.choose(NARROW_STRINGS))),
        4 => out.push(format!("{n}{c}TOD{a}{};{tail}", r.choose(TIME_LITERALS))),
        5 => out.push(format!("{n}{c}DT{a}{};{tail}", r.choose(TIME_LITERALS))),
        6 => out.push(format!("{n} AT %IX0.{}{c}BOOL;{tail}", r.pick(8))),
        7 => out.push(format!("{n} AT %QW4{c}WORD{a}16#FF;{tail}")),
        8 => out.push(format!("{n}{c}INT{a}INT#5;{tail}")),
        9 => out.push(format!("{n}{c}DINT{a}DINT#16#7F;{tail}")),
        10 => out.push(format!("{n}, {}{c}BOOL;{tail}", var_name(r))),
        11 => out.push(format!("{n}{c}ARRAY[0..3] OF INT{a}[1, 2, 3, 4];{tail}")),
        12 => out.push(format!("{n}{c}(Red, Green){a}Red;{tail}")),
        13 => out.push(format!("{n}{c}INT (0..100);{tail}")),
        14 => out.push(format!("{n}{c}{};{tail}", r.choose(&["POINTER TO INT", "REF_TO INT", "TON", "REAL := 1.5e-3"]))),
        15 => out.push(format!(
            "{n}{c}FB_Type(a{a}1, b{a}{}, c{a}{});{tail}",
            r.choose(WIDE_STRINGS),
            r.choose(TIME_LITERALS)
        )),
        16 => {
            // array of wide strings spread over lines
            out.push(format!("{n}{c}ARRAY[0..3] OF WSTRING{a}["));
            for _ in 0..1 + r.pick(3) {
                out.push(format!("{}, {},{tail}", r.choose(WIDE_STRINGS), r.choose(WIDE_STRINGS)));
            }
            out.push(format!("{}", r.choose(WIDE_STRINGS)));
            out.push("];".to_string());
        }
        17 => {
            // array of time literals, continued
            out.push(format!("{n}{c}ARRAY[0..2] OF TOD{a}[{},", r.choose(TIME_LITERALS)));
            out.push(format!("{},{tail}", r.choose(TIME_LITERALS)));
            out.push(format!("{}];", r.choose(TIME_LITERALS)));
        }
        18 => {
            // struct initialiser
            out.push(format!("{n}{c}ShiftPlan{a}("));
            out.push(format!("start{a}{},{tail}", r.choose(TIME_LITERALS)));
            out.push(format!("label{a}{},", r.choose(WIDE_STRINGS)));
            out.push(format!("n{a}INT#5);"));
        }
        19 => {
            // expression continued on the next lines
            out.push(format!("{n}{c}INT{a}1 +"));
            out.push(format!("2 * INT#3 +{tail}"));
            out.push(format!("LEN({});", r.choose(WIDE_STRINGS)));
        }
        20 => {
            // declaration split before its colon / its initialiser
            out.push(n);
            out.push(format!("{}INT", c.trim_start()));
            out.push(format!("{}5;{tail}", a.trim_start()));
        }
        21 => out.push(r.choose(&["// group: two", "(* block: comment *)", "", "{region: vars}", "(* a", "   b: c *)"]).to_string()),
        22 => out.push(format!("{n}{c}ARRAY[1..2, 0..1] OF DT{a}[{}, {}];{tail}", r.choose(TIME_LITERALS), r.choose(TIME_LITERALS))),
        _ => out.push(format!("{n}{c}WSTRING{a}{}; {}{c}TOD{a}{};{tail}", r.choose(WIDE_STRINGS), var_name(r), r.choose(TIME_LITERALS))),
    }
}

fn gen_var_program(r: &mut Reader) -> String {
    let mut lines: Vec<String> = Vec::new();
    let (open, close) = *r.choose(&[
        ("PROGRAM Main", "END_PROGRAM"),
        ("FUNCTION_BLOCK FB_Vars", "END_FUNCTION_BLOCK"),
        ("FUNCTION F : INT", "END_FUNCTION"),
        ("CONFIGURATION C", "END_CONFIGURATION"),
        ("TYPE ShiftPlan : STRUCT", "END_STRUCT END_TYPE"),
    ]);
    lines.push(open.to_string());
    let is_struct = open.starts_with("TYPE");
    let blocks = if is_struct { 1 } else { 1 + r.pick(3) };
    for _ in 0..blocks {
        if !is_struct {
            lines.push(
                r.choose(&[
                    "VAR", "VAR_INPUT", "VAR_OUTPUT", "VAR_IN_OUT", "VAR_TEMP", "VAR CONSTANT", "VAR RETAIN",
                    "VAR_GLOBAL", "VAR_EXTERNAL", "VAR_STAT", "VAR // locals: many", "VAR_GLOBAL CONSTANT",
                ])
                .to_string(),
            );
        }
        for _ in 0..2 + r.pick(6) {
            var_item(r, &mut lines);
        }
        if !is_struct {
            lines.push("END_VAR".to_string());
        }
    }
    if !is_struct && !open.starts_with("CONFIGURATION") {
        for _ in 0..r.pick(4) {
            lines.push(r.choose(STMTS).to_string());
        }
    }
    lines.push(close.to_string());
    // the author's indentation
    let indent = *r.choose(&["", "    ", "  ", "\t", " "]);
    let mut s = String::new();
    for l in lines {
        for part in l.split('\n') {
            if !part.is_empty() && !part.starts_with("END_") && !part.starts_with("VAR") && r.weighted(&[1, 3]) == 1 {
                s.push_str(indent);
            }
            s.push_str(part);
            s.push('\n');
        }
    }
    s
}

/// Ingredient labels (any class): what the text-based passes can trip over.
fn ingredient_labels(text: &str, probe: &mut Probe) {
    let sig_toks = lex(text);
    let mut wide_colon = false;
    let mut narrow_colon = false;
    let mut time_colon = false;
    let mut comment_colon = false;
    for t in &sig_toks {
        let s = &text[usize::from(t.range.start())..usize::from(t.range.end())];
        if !s.contains(':') {
            continue;
        }
        match t.kind {
            TokenKind::WideStringLiteral => wide_colon = true,
            TokenKind::StringLiteral => narrow_colon = true,
            TokenKind::LineComment | TokenKind::BlockComment | TokenKind::Pragma => comment_colon = true,
            TokenKind::Colon | TokenKind::Assign | TokenKind::Error => {}
            _ => time_colon = true,
        }
    }
    for (flag, label) in [
        (wide_colon, "has:wide-string-with-colon"),
        (narrow_colon, "has:string-with-colon"),
        (time_colon, "has:literal-with-colon(TOD/DT)"),
        (comment_colon, "has:comment-with-colon"),
        (text.contains(" AT %"), "has:at-address"),
        (text.contains("INT#"), "has:typed-literal"),
        (text.contains("[\n") || text.contains("[\r\n"), "has:multi-line-array-initialiser"),
        (text.contains("(\n") || text.contains("(\r\n"), "has:multi-line-struct-initialiser"),
        (text.contains("+\n") || text.contains("+\r\n"), "has:continued-expression"),
    ] {
        if flag {
            probe.label(label);
        }
    }
}

/// Case of the `webide` search: older replay files hold the bare text.
#[derive(Clone, Debug, Serialize, Deserialize)]
#[serde(untagged)]
pub enum WebCase {
    Text(String),
    Classed { class: String, text: String },
}

fn gen_case(tape: &Tape) -> Case {
    let c = super::c12::corpus();
    let mut r = Reader::new(tape);
    let cfg = gen_cfg(&mut r);
    let mut labels: Vec<&'static str> = Vec::new();
    let (mut text, class) = match r.weighted(&[3, 3, 2, 4]) {
        0 => (gen_program(&mut r), "generated"),
        3 => (gen_var_program(&mut r), "varblock"),
        1 => {
            let mut pick = None;
            for _ in 0..6 {
                let f = &c.files[r.pick(c.files.len())];
                if f.len() <= 8_000 {
                    pick = Some(f.clone());
                    break;
                }
            }
            (pick.unwrap_or_else(|| gen_program(&mut r)), "corpus")
        }
        _ => {
            let mode = r.weighted(&[5, 3, 2]);
            (super::c14::gen_text(&mut r, mode), "unicode-fragments")
        }
    };
    let n_mut = r.weighted(&[3, 3, 2, 1, 1, 1]);
    for _ in 0..n_mut {
        mutate(&mut text, &mut r, &mut labels);
        if text.len() > 12_000 {
            let at = floor_boundary(&text, 12_000);
            text.truncate(at);
        }
    }
    // no lone CR (LF and CRLF documents only)
    if text.replace("\r\n", "").contains('\r') {
        text = text.replace("\r\n", "\n").replace('\r', "").replace('\n', "\r\n");
    }
    let lines = line_starts(&text).len() as u32;
    let mut ranges = Vec::new();
    for _ in 0..r.weighted(&[1, 3, 2]) {
        let sl = r.pick(lines as usize) as u32;
        let el = match r.weighted(&[4, 3, 2, 1]) {
            0 => sl,
            1 => (sl + 1 + r.pick(3) as u32).min(lines.saturating_sub(1)).max(sl),
            2 => lines.saturating_sub(1).max(sl),
            _ => sl + r.pick(4) as u32, // may lie beyond the document
        };
        let sc = if r.flag() { 0 } else { r.pick(12) as u32 };
        let ec = match r.pick(3) {
            0 => 0,
            1 => r.pick(40) as u32,
            _ => 10_000,
        };
        ranges.push((sl, sc, el, ec));
    }
    let mut ontype = Vec::new();
    let semis: Vec<usize> = text.match_indices(';').map(|(i, _)| i + 1).collect();
    for _ in 0..r.weighted(&[1, 3, 2]) {
        if !semis.is_empty() && r.flag() {
            let off = semis[r.pick(semis.len())];
            let (l, ch) = offset_to_position(&text, off);
            ontype.push((l, ch, ";".to_string()));
        } else {
            let l = r.pick(lines as usize) as u32;
            ontype.push((l, 0, "\n".to_string()));
        }
    }
    let mut class = class.to_string();
    if !labels.is_empty() {
        class.push_str("+mutated");
    }
    Case { text, cfg, ranges, ontype, class }
}

// ---- oracle -------------------------------------------------------------------------------------

#[derive(Debug, Clone)]
pub struct Sig {
    /// non-trivia token texts (keyword text upper-cased). The kind is not compared: the
    /// property speaks of token text, and the lexer reports the text `D#` with different
    /// kinds depending on what follows it.
    pub toks: Vec<String>,
    /// comments, pragmas (whitespace collapsed) and string literals (exact), in order
    pub marks: Vec<(TokenKind, String)>,
    /// the text has Error tokens (label only; not compared)
    pub has_error: bool,
}

impl PartialEq for Sig {
    fn eq(&self, other: &Sig) -> bool {
        self.toks == other.toks && self.marks == other.marks
    }
}

fn collapse_ws(s: &str) -> String {
    s.split_whitespace().collect::<Vec<_>>().join(" ")
}

pub fn signature(text: &str) -> Sig {
    let mut toks = Vec::new();
    let mut marks = Vec::new();
    let mut has_error = false;
    for t in lex(text) {
        let s = &text[usize::from(t.range.start())..usize::from(t.range.end())];
        match t.kind {
            TokenKind::Whitespace => {}
            TokenKind::LineComment | TokenKind::BlockComment | TokenKind::Pragma => {
                marks.push((t.kind, collapse_ws(s)));
            }
            // An unterminated comment, pragma or string is one Error token that runs to the
            // end of the line or file; blanks inside it are layout like blanks inside a comment.
            // (Only the lexer's own white space: a no-break space is an Error token itself.)
            TokenKind::Error => {
                has_error = true;
                toks.push(s.split([' ', '\t', '\r', '\n']).filter(|p| !p.is_empty()).collect::<Vec<_>>().join(" "))
            }
            k => {
                if matches!(k, TokenKind::StringLiteral | TokenKind::WideStringLiteral) {
                    marks.push((k, s.to_string()));
                }
                let text = if k.is_keyword() { s.to_ascii_uppercase() } else { s.to_string() };
                toks.push(text);
            }
        }
    }
    Sig { toks, marks, has_error }
}

fn sig_diff(a: &Sig, b: &Sig) -> String {
    fn first<T: PartialEq + std::fmt::Debug>(what: &str, x: &[T], y: &[T]) -> Option<String> {
        if x == y {
            return None;
        }
        let i = x.iter().zip(y.iter()).position(|(p, q)| p != q).unwrap_or(x.len().min(y.len()));
        let ctx = |v: &[T]| {
            let lo = i.saturating_sub(3);
            let hi = (i + 3).min(v.len());
            format!("{:?}", &v[lo..hi])
        };
        Some(format!(
            "{what} differ at index {i} (original has {}, result has {}): original ...{} vs result ...{}",
            x.len(),
            y.len(),
            clip(&ctx(x), 260),
            clip(&ctx(y), 260)
        ))
    }
    first("non-trivia tokens", &a.toks, &b.toks)
        .or_else(|| first("comments/pragmas/string literals", &a.marks, &b.marks))
        .unwrap_or_default()
}

/// Check the edits (in bounds, ordered, non-overlapping) and apply them.
fn apply_edits(text: &str, edits: &J, what: &str) -> Result<(String, bool), String> {
    if edits.is_null() {
        return Ok((text.to_string(), false));
    }
    if let Some(e) = edits.get("$error") {
        return Err(format!("{what} answered with a JSON-RPC error: {e}"));
    }
    let Some(list) = edits.as_array() else {
        return Err(format!("{what} answered with something that is not an edit list: {}", clip(&edits.to_string(), 200)));
    };
    let mut spans: Vec<(usize, usize, &str)> = Vec::new();
    for e in list {
        let st = e.pointer("/range/start").and_then(pos_of);
        let en = e.pointer("/range/end").and_then(pos_of);
        let new_text = e.get("newText").and_then(J::as_str);
        let (Some(st), Some(en), Some(new_text)) = (st, en, new_text) else {
            return Err(format!("{what}: malformed TextEdit {}", clip(&e.to_string(), 200)));
        };
        let so = exact_offset(text, st.0, st.1);
        let eo = exact_offset(text, en.0, en.1);
        let (Some(so), Some(eo)) = (so, eo) else {
            return Err(format!(
                "{what}: edit range {}:{}-{}:{} is out of bounds of the document ({} lines)",
                st.0,
                st.1,
                en.0,
                en.1,
                line_starts(text).len()
            ));
        };
        if so > eo {
            return Err(format!("{what}: edit range {}:{}-{}:{} ends before it starts", st.0, st.1, en.0, en.1));
        }
        spans.push((so, eo, new_text));
    }
    spans.sort_by_key(|s| (s.0, s.1));
    for w in spans.windows(2) {
        if w[0].1 > w[1].0 {
            return Err(format!("{what}: edits overlap ({}..{} and {}..{})", w[0].0, w[0].1, w[1].0, w[1].1));
        }
    }
    let mut out = text.to_string();
    let mut changed = false;
    for (s, e, t) in spans.into_iter().rev() {
        if &out[s..e] != t {
            changed = true;
        }
        out.replace_range(s..e, t);
    }
    Ok((out, changed))
}

const F20_KEY: &str = "F20-range-format-line-index";
const WRAP_KEY: &str = "F20b-wrapped-output-not-stable";
const LEXKIND_KEY: &str = "C15-lexer-kind-unstable";

// ---- server side ------------------------------------------------------------------------------------

struct Env {
    pool: Pool,
    scratch: PathBuf,
    worker: usize,
    counter: Cell<u64>,
    f20_open: bool,
    wrap_open: bool,
    lexkind_open: bool,
    web: RefCell<Option<(trust_runtime::web::ide::WebIdeState, String, u32)>>,
}

fn profile_dir(scratch: &std::path::Path, i: usize) -> PathBuf {
    scratch.join(format!("p{i}"))
}

fn prepare_scratch(scratch: &std::path::Path) -> std::io::Result<Vec<String>> {
    let mut roots = Vec::new();
    for (i, p) in PROFILES.iter().enumerate() {
        let d = profile_dir(scratch, i);
        std::fs::create_dir_all(&d)?;
        if !p.is_empty() {
            std::fs::write(d.join("trust-lsp.toml"), format!("[project]\nvendor_profile = \"{p}\"\n"))?;
        }
        roots.push(format!("file://{}", d.display()));
    }
    // one indexed file, so that the server reports the end of its workspace scan
    std::fs::write(profile_dir(scratch, PROFILES.len() - 1).join("seed.st"), "(* seed *)\n")?;
    Ok(roots)
}

struct Obs {
    full: J,
    ranges: Vec<J>,
    ontype: Vec<J>,
    /// formatting of the formatted text (None when the first answer could not be applied)
    again: Option<J>,
}

fn options(cfg: &Cfg) -> J {
    json!({"tabSize": cfg.tab_size, "insertSpaces": cfg.insert_spaces})
}

fn observe(s: &mut Server, uri: &str, case: &Case) -> Result<Obs, LspError> {
    let settings = case.cfg.settings.as_ref().map(Settings::to_json).unwrap_or(J::Null);
    s.set_configuration(settings)?;
    s.did_open(uri, 1, &case.text)?;
    let opts = options(&case.cfg);
    let full = s.request("textDocument/formatting", json!({"textDocument": {"uri": uri}, "options": opts}))?;
    let mut ranges = Vec::new();
    for (sl, sc, el, ec) in &case.ranges {
        ranges.push(s.request(
            "textDocument/rangeFormatting",
            json!({"textDocument": {"uri": uri}, "options": opts,
                   "range": {"start": {"line": sl, "character": sc}, "end": {"line": el, "character": ec}}}),
        )?);
    }
    let mut ontype = Vec::new();
    for (l, ch, typed) in &case.ontype {
        ontype.push(s.request(
            "textDocument/onTypeFormatting",
            json!({"textDocument": {"uri": uri}, "options": opts,
                   "position": {"line": l, "character": ch}, "ch": typed}),
        )?);
    }
    let again = match apply_edits(&case.text, &full, "formatting") {
        Ok((formatted, _)) => {
            s.did_change(uri, 2, json!([{"text": formatted}]))?;
            Some(s.request("textDocument/formatting", json!({"textDocument": {"uri": uri}, "options": opts}))?)
        }
        Err(_) => None,
    };
    s.did_change(uri, 3, json!([{"text": ""}]))?;
    s.notify("textDocument/didClose", json!({"textDocument": {"uri": uri}}))?;
    Ok(Obs { full, ranges, ontype, again })
}

fn start_opts(tag: &str, roots: &[String]) -> StartOpts {
    let mut o = StartOpts::plain(tag);
    if let Some(d) = o.scratch.take() {
        let _ = std::fs::remove_dir_all(d); // C15 brings its own workspace folders
    }
    o.root_uri = roots.first().cloned();
    o.workspace_folders = roots.to_vec();
    // pull diagnostics: the server then analyses nothing on didOpen/didChange
    o.capabilities = json!({"workspace": {"diagnostic": {"refreshSupport": true}}});
    o.wait_for_index = true;
    o
}

fn describe_cfg(cfg: &Cfg) -> String {
    format!(
        "options tabSize={} insertSpaces={}, settings {}, vendor profile {:?}",
        cfg.tab_size,
        cfg.insert_spaces,
        cfg.settings.as_ref().map(|s| s.to_json().to_string()).unwrap_or_else(|| "none".into()),
        PROFILES[cfg.profile as usize % PROFILES.len()]
    )
}

fn check_lsp(case: &Case, probe: &mut Probe, env: &Env) -> Result<(), String> {
    let text = &case.text;
    if text.replace("\r\n", "").contains('\r') {
        probe.label("skipped:lone-cr");
        return Ok(());
    }
    let pi = case.cfg.profile as usize % PROFILES.len();
    let k = env.counter.get();
    env.counter.set(k + 1);
    let uri = format!("file://{}/doc{}.st", profile_dir(&env.scratch, pi).display(), k % 4);
    let was_ok = env.pool.infra().is_none();
    let Some(obs) = settle(env.pool.with(|s| observe(s, &uri, case)))? else {
        probe.label("skipped:infrastructure");
        if was_ok {
            // keep the case that was running when the infrastructure failed (diagnosis)
            let path = crate::engine::verif_root().join("out/C15").join(format!("infra-case-w{}.json", env.worker));
            let rec = json!({"property": "C15", "search": "lsp", "expect": "pass", "message": env.pool.infra(), "case": case});
            let _ = std::fs::write(path, serde_json::to_string_pretty(&rec).unwrap_or_default());
        }
        return Ok(());
    };

    probe.label(format!("class={}", case.class));
    ingredient_labels(text, probe);
    probe.label(format!("profile={}", if PROFILES[pi].is_empty() { "none" } else { PROFILES[pi] }));
    if let Some(s) = &case.cfg.settings {
        if let Some(v) = &s.spacing_style {
            probe.label(format!("cfg:spacing={v}"));
        }
        if let Some(v) = &s.keyword_case {
            probe.label(format!("cfg:keywordCase={}", v.to_ascii_lowercase()));
        }
        if let Some(v) = s.max_line_length {
            probe.label(format!("cfg:maxLineLength={v}"));
        }
        if let Some(v) = &s.end_keyword_style {
            probe.label(format!("cfg:endKeyword={v}"));
        }
        if s.align_var_decls == Some(false) {
            probe.label("cfg:alignVarDecls=off");
        }
        if s.align_assignments == Some(false) {
            probe.label("cfg:alignAssignments=off");
        }
    } else {
        probe.label("cfg:no-client-settings");
    }
    if !case.cfg.insert_spaces {
        probe.label("cfg:tabs");
    }
    if text.contains("\r\n") {
        probe.label("text:crlf");
    }
    let sig = signature(text);
    if sig.has_error {
        probe.label("text:has-error-tokens");
    }
    let ctx = |what: &str| format!("{what} with {}", describe_cfg(&case.cfg));
    let mut key = serde_json::to_vec(&(text, &case.cfg)).unwrap_or_default();

    // whole document
    let (formatted, changed) = apply_edits(text, &obs.full, "formatting")?;
    let fsig = signature(&formatted);
    if fsig != sig {
        return Err(format!("{}: {}", ctx("formatting changed the program"), sig_diff(&sig, &fsig)));
    }
    if changed {
        probe.label("formatting:changed");
        probe.nontrivial(&key);
        probe.sample(json!({"class": case.class, "config": describe_cfg(&case.cfg), "text": clip(text, 200), "formatted": clip(&formatted, 200)}));
    } else {
        probe.label("formatting:unchanged");
    }
    let line_count_changed = line_starts(&formatted).len() != line_starts(text).len();
    if line_count_changed {
        probe.label("formatting:line-count-changed");
    }
    // idempotence
    if let Some(again) = &obs.again {
        let (twice, changed_again) = apply_edits(&formatted, again, "formatting (second pass)")?;
        let kinds = |t: &str| lex(t).into_iter().filter(|k| k.kind != TokenKind::Whitespace).map(|k| k.kind).collect::<Vec<_>>();
        if changed_again && env.lexkind_open && kinds(text) != kinds(&formatted) {
            // open finding: the lexer gives the same token text another kind once the blanks
            // around it change, and the formatter's spacing rules go by kind
            probe.known(LEXKIND_KEY);
            probe.excluded("C15-lexer-kind-unstable: idempotence where re-spacing changed a token's kind but not its text");
        } else if changed_again && line_count_changed && env.wrap_open {
            // open finding: the wrapped continuation lines are re-indented / re-aligned /
            // re-split by the next pass
            probe.known(WRAP_KEY);
            probe.excluded("F20b: idempotence of a document that formatting wrapped (line count changed)");
        } else if changed_again {
            let at = formatted.bytes().zip(twice.bytes()).position(|(a, b)| a != b).unwrap_or(formatted.len().min(twice.len()));
            let lo = floor_boundary(&formatted, at.saturating_sub(40));
            return Err(format!(
                "{}: first pass ...{:?}, second pass ...{:?}",
                ctx("formatting is not idempotent"),
                clip(&formatted[lo..], 120),
                clip(twice.get(lo..).unwrap_or(""), 120)
            ));
        }
    }
    if line_count_changed && env.f20_open && (!case.ranges.is_empty() || !case.ontype.is_empty()) {
        probe.excluded("F20: range/on-type formatting of a document whose line count formatting changes");
        return Ok(());
    }
    // ranges
    for (i, ans) in obs.ranges.iter().enumerate() {
        let what = format!("rangeFormatting {:?}", case.ranges[i]);
        let (applied, changed) = apply_edits(text, ans, &what)?;
        let asig = signature(&applied);
        if asig != sig {
            return Err(format!("{}: {}", ctx(&format!("{what} changed the program")), sig_diff(&sig, &asig)));
        }
        if changed {
            probe.label("range:edit");
            key.extend_from_slice(format!("{:?}", case.ranges[i]).as_bytes());
            probe.nontrivial(&key);
        } else {
            probe.label("range:no-edit");
        }
    }
    for (i, ans) in obs.ontype.iter().enumerate() {
        let what = format!("onTypeFormatting {:?}", case.ontype[i]);
        let (applied, changed) = apply_edits(text, ans, &what)?;
        let asig = signature(&applied);
        if asig != sig {
            return Err(format!("{}: {}", ctx(&format!("{what} changed the program")), sig_diff(&sig, &asig)));
        }
        if changed {
            probe.label("ontype:edit");
            key.extend_from_slice(format!("{:?}", case.ontype[i]).as_bytes());
            probe.nontrivial(&key);
        } else {
            probe.label("ontype:no-edit");
        }
    }
    Ok(())
}

// ---- web IDE formatter ---------------------------------------------------------------------------------

fn check_web(case: &WebCase, probe: &mut Probe, env: &Env) -> Result<(), String> {
    use trust_runtime::web::ide::{IdeRole, WebIdeState};
    let text = match case {
        WebCase::Text(t) => t,
        WebCase::Classed { class, text } => {
            probe.label(format!("web:class={class}"));
            text
        }
    };
    if text.replace("\r\n", "").contains('\r') {
        probe.label("skipped:lone-cr");
        return Ok(());
    }
    let mut slot = env.web.borrow_mut();
    // sessions expire after 15 minutes of real time: renew well before that
    if slot.as_ref().map(|s| s.2 >= 2000).unwrap_or(true) {
        let root = env.scratch.join("webide");
        let _ = std::fs::create_dir_all(&root);
        let _ = std::fs::write(root.join("main.st"), "PROGRAM Main\nEND_PROGRAM\n");
        let state = WebIdeState::new(Some(root));
        match state.create_session(IdeRole::Editor) {
            Ok(sess) => *slot = Some((state, sess.token, 0)),
            Err(e) => {
                probe.label("skipped:web-session");
                let _ = e;
                return Ok(());
            }
        }
    }
    let (state, token, uses) = slot.as_mut().expect("web state");
    *uses += 1;
    let fmt = |content: &str| state.format_source(token, "main.st", Some(content.to_string()));
    let first = match fmt(text) {
        Ok(r) => r,
        Err(e) => {
            probe.label(format!("web:error:{:?}", e.kind()));
            return Ok(());
        }
    };
    let sig = signature(text);
    let fsig = signature(&first.content);
    if fsig != sig {
        return Err(format!("WebIdeState::format_source changed the program: {}", sig_diff(&sig, &fsig)));
    }
    if first.changed != (first.content != *text) {
        return Err("WebIdeState::format_source: `changed` flag disagrees with the content".into());
    }
    if first.content != *text {
        probe.label("web:changed");
        probe.nontrivial(text.as_bytes());
    } else {
        probe.label("web:unchanged");
    }
    match fmt(&first.content) {
        Ok(second) => {
            if second.content != first.content {
                let a = &first.content;
                let b = &second.content;
                let at = a.bytes().zip(b.bytes()).position(|(x, y)| x != y).unwrap_or(a.len().min(b.len()));
                let lo = floor_boundary(a, at.saturating_sub(40));
                return Err(format!(
                    "WebIdeState::format_source is not idempotent: first pass ...{:?}, second pass ...{:?}",
                    clip(&a[lo..], 120),
                    clip(b.get(lo..).unwrap_or(""), 120)
                ));
            }
        }
        Err(e) => {
            probe.label(format!("web:error-second:{:?}", e.kind()));
        }
    }
    Ok(())
}

fn run(ctx: &mut RunCtx) {
    let tier = ctx.tier;
    if !lspc::lsp_bin().is_file() {
        ctx.inconclusive(format!(
            "trust-lsp binary not found at {} (build it: cd /repo && CARGO_TARGET_DIR=/verif/harness/target-repo cargo build --offline -p trust-lsp --bin trust-lsp)",
            lspc::lsp_bin().display()
        ));
        return;
    }
    let scratch = std::env::temp_dir().join(format!("tpv-c15-{}-w{}", std::process::id(), ctx.worker));
    let _ = std::fs::remove_dir_all(&scratch);
    let roots = match prepare_scratch(&scratch) {
        Ok(r) => r,
        Err(e) => {
            ctx.inconclusive(format!("cannot prepare scratch workspace {}: {e}", scratch.display()));
            return;
        }
    };
    let env = Env {
        pool: Pool::new(start_opts(&format!("c15-w{}", ctx.worker), &roots)),
        scratch: scratch.clone(),
        worker: ctx.worker,
        counter: Cell::new(0),
        f20_open: ctx.is_open(F20_KEY),
        wrap_open: ctx.is_open(WRAP_KEY),
        lexkind_open: ctx.is_open(LEXKIND_KEY),
        web: RefCell::new(None),
    };

    // the vendor profiles must be in force before anything is judged
    {
        let probe_case = Case {
            text: "PROGRAM P\nx := 1;\nEND_PROGRAM\n".into(),
            cfg: Cfg { tab_size: 4, insert_spaces: true, settings: None, profile: 2 },
            ranges: vec![],
            ontype: vec![],
            class: "probe".into(),
        };
        let uri = format!("file://{}/probe.st", profile_dir(&scratch, 2).display());
        match env.pool.with(|s| observe(s, &uri, &probe_case)) {
            Ok(obs) => {
                let ok = apply_edits(&probe_case.text, &obs.full, "formatting")
                    .map(|(t, _)| t.to_ascii_lowercase().contains("x:=1;"))
                    .unwrap_or(false);
                if !ok {
                    ctx.inconclusive("the scratch workspace's vendor profile (siemens: compact spacing) is not in force in the server; configuration did not load".to_string());
                    env.pool.shutdown();
                    let _ = std::fs::remove_dir_all(&scratch);
                    return;
                }
            }
            Err(LspError::Crashed(m)) => {
                ctx.violation("lsp", &serde_json::to_value(&probe_case).unwrap_or(J::Null), &format!("server crashed on the configuration probe: {m}"));
            }
            Err(e) => {
                ctx.inconclusive(format!("configuration probe failed: {e}"));
                env.pool.shutdown();
                let _ = std::fs::remove_dir_all(&scratch);
                return;
            }
        }
    }

    ctx.search(
        "lsp",
        tape_strategy(400).prop_map(|t| gen_case(&t)),
        tier.pick(10_000, 200_000),
        |case: &Case, probe| check_lsp(case, probe, &env),
    );
    ctx.search(
        "webide",
        tape_strategy(300).prop_map(|t| {
            let c = gen_case(&t);
            WebCase::Classed { class: c.class, text: c.text }
        }),
        tier.pick(10_000, 200_000),
        |case: &WebCase, probe| check_web(case, probe, &env),
    );

    if let Some(why) = env.pool.infra() {
        ctx.inconclusive(format!("LSP infrastructure failure, remaining cases skipped: {why}"));
    }
    env.pool.shutdown();
    *env.web.borrow_mut() = None;
    let _ = std::fs::remove_dir_all(&scratch);
}
