//! C16 - rename preserves program meaning and is reversible.
//!
//! Generator (`c16/gen.rs`): multi-file error-free projects (types, functions, function
//! blocks with methods, namespaces, CONFIGURATION with VAR_GLOBAL, programs with
//! VAR_EXTERNAL) with overlapping name pools and a model of every identifier occurrence.
//! A case = project + one identifier token (uniform over all identifier tokens) + a new
//! name (fresh / outer / inner / global / other-existing / case variant / keyword /
//! invalid / standard function) + an input trace.
//! Oracle (`c16/core.rs`): rename refuses, or its edits are in bounds, on char boundaries,
//! disjoint, each one identifier token equal to the old name; a fresh Database reports the
//! same diagnostics up to the name; both projects compile and produce the same states over
//! the trace modulo the name; renaming back restores the sources byte for byte.

use proptest::prelude::*;
use serde::{Deserialize, Serialize};
use serde_json::json;

use crate::engine::tape::{tape_strategy, Reader, Tape};
use crate::engine::{catch, Probe, PropertyInfo, RunCtx};

#[path = "c16/core.rs"]
pub mod core;
#[path = "c16/gen.rs"]
pub mod gen;

pub fn info() -> PropertyInfo {
    PropertyInfo {
        id: "C16",
        level: "exploration",
        rule: "case = generated 1-3 file project (types, functions, function blocks with methods, namespaces whose blocks are spread over the files, standard function calls, CONFIGURATION with VAR_GLOBAL, programs with VAR_EXTERNAL; overlapping name pools; about a third of the projects are TEMPLATE CLONES: files 1.. start with a copy of the library region of file 0 in which only the top-level names are replaced by equal-length names, so every nested declaration and use sits at the same byte offset in all files, optionally with one padding comment that shifts the offsets behind it, with shared functions called at identical ranges from all copies and 0-40 dummy declarations at the end of each file; error-free by a fresh Database and compilable by TestHarness::from_sources, else discarded and counted) + identifier token chosen uniformly over all identifier tokens of the project (in ~9 % of the cases uniformly over the tokens of namespace members, in ~23 % - clone projects - over the tokens of nested symbols and of symbols with occurrences at one range in two files) + new name from {fresh, outer-scope, inner-scope, global, other existing, case variant, keyword, invalid, standard function, name used in a file that has no occurrence of the symbol} + 3-5 cycle input trace on %IW0/%IW2/%IX4.0; non-trivial = the project was error-free AND (the symbol has >= 2 occurrences, or occurrences in >= 2 files, or the new name already exists in the project); distinct by SHA-256 of sources + position + new name",
        assumptions: &[
            "behaviour = the complete variable storage (globals, program and FB instances, structs, enums) after initialisation and after every cycle of a 3-5 cycle trace, plus the cycle errors; function/method locals are observed only through the values they flow into",
            "behaviour is not compared (diagnostics, compilability and rename-back still are) for projects whose references deliberately differ in case from the declaration, for case-only renames, and when the error-free original already faults with Undefined* at run time: open runtime findings (F4 family, recorded for C01) make the runtime's name lookup depend on spelling",
            "generator steers around three open runtime findings (counted as excluded): FB instance names are distinct from FUNCTION names; half of the FUNCTIONs wanted inside a namespace are declared outside, projects with the other half are judged by diagnostics, compilability and rename-back only; renames to the name of a configuration element are not judged",
            "all scalar data is INT with typed literals and exact-type assignments (finding F8); no arrays, pointers, properties, interfaces/inheritance, actions, USING directives",
            "a refusal is always accepted (the property allows it); rename-back must be accepted and restore the text byte for byte",
        ],
        workers_quick: 8,
        workers_thorough: 16,
        address_space_limit: 0,
        watchdog_quick_s: 900,
        watchdog_thorough_s: 7200,
        run,
    }
}

#[derive(Clone, Debug, Serialize, Deserialize)]
pub struct Case {
    pub files: Vec<String>,
    pub file: usize,
    /// byte offset inside the chosen identifier token
    pub offset: usize,
    /// spelling of the chosen token
    pub old_name: String,
    /// spelling of the symbol's declaration (what rename-back restores); == old_name when unknown
    pub decl_name: String,
    pub new_name: String,
    pub name_class: String,
    pub trace: Vec<(i16, i16, bool)>,
    /// model facts (labels and known-finding shapes)
    pub kind: String,
    pub role: String,
    pub roles: Vec<String>,
    pub n_occ: usize,
    pub n_files: usize,
    pub new_name_exists: bool,
    pub case_variants: bool,
    /// names of configuration elements (configuration, resource, task, program instances)
    #[serde(default)]
    pub config_names: Vec<String>,
    /// names of FUNCTIONs and of FB instances (runtime finding: instance call vs function name)
    #[serde(default)]
    pub function_names: Vec<String>,
    #[serde(default)]
    pub instance_names: Vec<String>,
    /// shapes the generator steered around while building the project
    #[serde(default)]
    pub gen_excluded: Vec<String>,
    /// for a member of a function block: the block's name; for a function block: its members
    #[serde(default)]
    pub owner_name: String,
    #[serde(default)]
    pub member_names: Vec<String>,
    /// the new name is used (as an identifier token) in a file that has no occurrence of the
    /// chosen symbol: a capture there is invisible to a check that only looks at edited files
    #[serde(default)]
    pub new_name_used_in_other_file: bool,
    /// the project declares a FUNCTION inside a NAMESPACE (open runtime finding)
    #[serde(default)]
    pub ns_functions: bool,
    /// namespace member renamed to a name used inside a namespace block of a file that has
    /// no occurrence of the member
    #[serde(default)]
    pub ns_reopened_use: bool,
    /// the chosen symbol is declared in a namespace / and another file without an occurrence
    /// of it re-opens a namespace block
    #[serde(default)]
    pub in_namespace: bool,
    #[serde(default)]
    pub ns_reopened_elsewhere: bool,
    /// the position was drawn among the tokens of namespace members only
    #[serde(default)]
    pub position_biased: bool,
    /// template-clone project / position drawn among nested symbols / padding / dummies
    #[serde(default)]
    pub clone_mode: bool,
    #[serde(default)]
    pub position_nested: bool,
    #[serde(default)]
    pub clone_padded: bool,
    #[serde(default)]
    pub dummy_decls: usize,
    /// the symbol has occurrences at one and the same byte range in two files
    #[serde(default)]
    pub same_range_two_files: bool,
    /// the project uses alias-qualified enum literals, which the runtime compiler rejects
    #[serde(default)]
    pub analysis_only: bool,
    /// occurrences of the chosen symbol according to the generator's model (file, start, end)
    #[serde(default)]
    pub model_occs: Vec<(usize, usize, usize)>,
}

/// Identifier tokens that stand inside a NAMESPACE ... END_NAMESPACE block of `text`.
fn idents_inside_namespace_blocks(text: &str) -> Vec<String> {
    let mut inside = false;
    let mut after_kw = false;
    let mut out: Vec<String> = Vec::new();
    for t in trust_syntax::lexer::lex(text) {
        if t.kind.is_trivia() {
            continue;
        }
        let s = &text[usize::from(t.range.start())..usize::from(t.range.end())];
        if s.eq_ignore_ascii_case("NAMESPACE") {
            inside = true;
            after_kw = true;
            continue;
        }
        if s.eq_ignore_ascii_case("END_NAMESPACE") {
            inside = false;
        } else if inside && !after_kw && t.kind == trust_syntax::lexer::TokenKind::Ident {
            out.push(s.to_string());
        }
        after_kw = false;
    }
    out
}

pub fn case_from_tape(tape: &Tape) -> Case {
    let mut r = Reader::new(tape);
    // selectors first, so that a short tape still chooses position and name freely
    let sel_tok = r.word();
    let sel_mode = r.word();
    let sel_inner = r.word();
    let class = r.weighted(&[3, 2, 2, 3, 2, 2, 1, 1, 3, 7, 2]);
    let sel_group = r.word();
    let sel_name = r.word();
    let ncycles = 3 + r.pick(3);
    let trace: Vec<(i16, i16, bool)> = (0..ncycles).map(|_| (r.pick(10) as i16, r.pick(10) as i16, r.flag())).collect();
    let pick_w = |w: u32, n: usize| -> usize { if n <= 1 { 0 } else { ((w as u64 * n as u64) >> 32) as usize } };
    let p = gen::generate(&mut r);
    // every identifier token (Ident tokens and the name part of `Type#` prefixes)
    let mut toks: Vec<(usize, usize, usize)> = Vec::new();
    for (fi, f) in p.files.iter().enumerate() {
        let mut t = core::ident_tokens(f);
        t.extend(core::prefix_tokens(f));
        t.sort();
        for (s, e) in t {
            toks.push((fi, s, e));
        }
    }
    if toks.is_empty() {
        toks.push((0, 0, 0));
    }
    // Position: uniform over all identifier tokens; in about a quarter of the projects that
    // have namespace members, uniform over the tokens of those members instead (they are a
    // few tokens among ~150, and the cross-file capture class needs them as targets).
    let ns_member_toks: Vec<(usize, usize, usize)> = p
        .occs
        .iter()
        .filter(|o| p.scopes[p.syms[o.sym].scope].kind == "namespace")
        .map(|o| (o.file, o.start, o.end))
        .collect();
    let biased = sel_mode >= 0xC000_0000 && !ns_member_toks.is_empty();
    // template-clone projects: in more than half of the cases the position is drawn among
    // the tokens of nested symbols (members, methods, their parameters and locals, function
    // parameters and locals, struct fields, enum values) - the symbols whose declarations
    // sit at the same offsets in several files
    const NESTED: &[&str] = &[
        "method", "method_input", "method_local", "func_input", "func_local", "fb_input", "fb_output", "fb_var",
        "field", "enum_value",
    ];
    let nested_toks: Vec<(usize, usize, usize)> = if p.clone_mode {
        // ... plus the symbols that have occurrences at one and the same range in two files
        // (shared functions called from the cloned bodies)
        let same_range_syms: Vec<usize> = p
            .occs
            .iter()
            .filter(|o| {
                p.occs.iter().any(|q| q.sym == o.sym && q.file != o.file && q.start == o.start && q.end == o.end)
            })
            .map(|o| o.sym)
            .collect();
        // a quarter of the clone cases draw among those symbols only
        let same_range_toks: Vec<(usize, usize, usize)> = p
            .occs
            .iter()
            .filter(|o| same_range_syms.contains(&o.sym))
            .map(|o| (o.file, o.start, o.end))
            .collect();
        if sel_mode >= 0xB000_0000 && !same_range_toks.is_empty() {
            same_range_toks
        } else {
            p.occs
                .iter()
                .filter(|o| NESTED.contains(&p.syms[o.sym].kind.as_str()) || same_range_syms.contains(&o.sym))
                .map(|o| (o.file, o.start, o.end))
                .collect()
        }
    } else {
        Vec::new()
    };

    let nested_biased = p.clone_mode && sel_mode >= 0x5000_0000 && !nested_toks.is_empty();
    let (file, s, e) = if nested_biased {
        nested_toks[pick_w(sel_tok, nested_toks.len())]
    } else if biased {
        ns_member_toks[pick_w(sel_tok, ns_member_toks.len())]
    } else {
        toks[pick_w(sel_tok, toks.len())]
    };
    let biased = biased && !nested_biased;
    let old_name = p.files[file].get(s..e).unwrap_or("").to_string();
    let inner = if e > s { pick_w(sel_inner, e - s) } else { 0 };
    let occ = p.occs.iter().find(|o| o.file == file && o.start == s && o.end == e);
    let same_range_two_files = occ.is_some_and(|o| {
        p.occs.iter().any(|a| {
            a.sym == o.sym
                && p.occs.iter().any(|q| q.sym == a.sym && q.file != a.file && q.start == a.start && q.end == a.end)
        })
    });
    let (kind, role, decl_name, scope, sym) = match occ {
        Some(o) => (
            p.syms[o.sym].kind.clone(),
            o.role.clone(),
            p.syms[o.sym].name.clone(),
            Some(p.syms[o.sym].scope),
            Some(o.sym),
        ),
        None => ("unmodelled".to_string(), "unmodelled".to_string(), old_name.clone(), None, None),
    };
    let sym_occs: Vec<&gen::Occ> = match sym {
        Some(sy) => p.occs.iter().filter(|o| o.sym == sy).collect(),
        None => Vec::new(),
    };
    let mut roles: Vec<String> = sym_occs.iter().map(|o| o.role.clone()).collect();
    roles.sort();
    roles.dedup();
    let mut fileset: Vec<usize> = sym_occs.iter().map(|o| o.file).collect();
    fileset.sort();
    fileset.dedup();

    let files_with_symbol: Vec<usize> = if fileset.is_empty() { vec![file] } else { fileset.clone() };
    let in_namespace = scope.map(|sc| p.scopes[sc].kind == "namespace").unwrap_or(false);
    // new name
    let names_in = |scopes: &[usize]| -> Vec<String> {
        let mut v: Vec<String> = Vec::new();
        for sc in scopes {
            for (_, id) in &p.scopes[*sc].names {
                let n = p.syms[*id].name.clone();
                if !n.eq_ignore_ascii_case(&decl_name) && !v.contains(&n) {
                    v.push(n);
                }
            }
        }
        v
    };
    let ch = |v: &[String]| -> String { v[pick_w(sel_name, v.len())].clone() };
    let chs = |v: &[&str]| -> String { v[pick_w(sel_name, v.len())].to_string() };
    // a namespace member is rarely the chosen token; when it is, the "name used in a
    // re-opened block of the namespace in another file" class is taken three times out of four
    let class = if in_namespace && class != 9 && sel_group >= 0x4000_0000 {
        let reopened = p.files.iter().enumerate().any(|(fi, f)| {
            !files_with_symbol.contains(&fi) && !idents_inside_namespace_blocks(f).is_empty()
        });
        if reopened { 9 } else { class }
    } else {
        class
    };
    let (mut name_class, mut new_name): (&str, String) = match class {
        0 => ("fresh", chs(gen::FRESH)),
        1 => {
            let v = scope.map(|s| names_in(&p.ancestors(s))).unwrap_or_default();
            if v.is_empty() { ("fresh", "zz9".to_string()) } else { ("outer", ch(&v)) }
        }
        2 => {
            let v = scope.map(|s| names_in(&p.descendants(s))).unwrap_or_default();
            if v.is_empty() { ("fresh", "zz9".to_string()) } else { ("inner", ch(&v)) }
        }
        3 => {
            // global-level names and VAR_GLOBALs
            let gl: Vec<usize> = (0..p.scopes.len())
                .filter(|s| matches!(p.scopes[*s].kind, "global" | "configuration" | "namespace"))
                .collect();
            let v = names_in(&gl);
            if v.is_empty() { ("fresh", "zz9".to_string()) } else { ("global", ch(&v)) }
        }
        4 => {
            let all: Vec<usize> = (0..p.scopes.len()).collect();
            let v = names_in(&all);
            if v.is_empty() { ("fresh", "zz9".to_string()) } else { ("existing", ch(&v)) }
        }
        5 => {
            let up = decl_name.to_ascii_uppercase();
            let v = if up != decl_name { up } else { decl_name.to_ascii_lowercase() };
            if v == decl_name { ("fresh", "zz9".to_string()) } else { ("case", v) }
        }
        6 => ("keyword", chs(gen::KEYWORDS)),
        7 => ("invalid", chs(gen::INVALID)),
        8 => ("stdfn", chs(gen::STDFN)),
        9 => {
            // a name that is used in a file which has no occurrence of the chosen symbol;
            // half of the time one that no scope of that file binds closer than the global
            // level (standard functions, global-level project names): the capture candidates
            let mut v: Vec<String> = Vec::new();
            let mut strong: Vec<String> = Vec::new();
            let top_names: Vec<&str> = p
                .syms
                .iter()
                .filter(|s| matches!(p.scopes[s.scope].kind, "global" | "namespace"))
                .map(|s| s.name.as_str())
                .collect();
            for (fi, f) in p.files.iter().enumerate() {
                if files_with_symbol.contains(&fi) {
                    continue;
                }
                for (s, e) in core::ident_tokens(f) {
                    let n = &f[s..e];
                    if n.eq_ignore_ascii_case(&decl_name) {
                        continue;
                    }
                    if !v.iter().any(|x| x.eq_ignore_ascii_case(n)) {
                        v.push(n.to_string());
                    }
                    let is_std = ["ABS", "MAX", "MIN", "LIMIT"].iter().any(|k| k.eq_ignore_ascii_case(n));
                    if (is_std || top_names.iter().any(|t| t.eq_ignore_ascii_case(n)))
                        && !strong.iter().any(|x| x.eq_ignore_ascii_case(n))
                    {
                        strong.push(n.to_string());
                    }
                }
            }
            // for a namespace member: names used inside namespace blocks of those files
            let mut strong_ns: Vec<String> = Vec::new();
            if in_namespace {
                for (fi, f) in p.files.iter().enumerate() {
                    if files_with_symbol.contains(&fi) {
                        continue;
                    }
                    for n in idents_inside_namespace_blocks(f) {
                        if strong.iter().any(|x| x.eq_ignore_ascii_case(&n)) && !strong_ns.iter().any(|x| x.eq_ignore_ascii_case(&n)) {
                            strong_ns.push(n);
                        }
                    }
                }
            }
            if !strong_ns.is_empty() && sel_group >= 0x4000_0000 {
                v = strong_ns;
            } else if !strong.is_empty() && sel_group >= 0x8000_0000 {
                v = strong;
            }
            if v.is_empty() { ("fresh", "zz9".to_string()) } else { ("other_file", ch(&v)) }
        }
        _ => ("fresh", chs(gen::FRESH)),
    };
    if new_name == decl_name && name_class != "case" {
        name_class = "fresh";
        new_name = "zz9".to_string();
    }
    let new_name_used_in_other_file = p.files.iter().enumerate().any(|(fi, f)| {
        !files_with_symbol.contains(&fi)
            && core::ident_tokens(f).iter().any(|(s, e)| f[*s..*e].eq_ignore_ascii_case(&new_name))
    });
    // the demo shape of seeded change C16-b: the symbol is declared in a namespace, and
    // another file re-opens a namespace block in which the new name is used
    let ns_reopened_use = in_namespace
        && p.files.iter().enumerate().any(|(fi, f)| {
            !files_with_symbol.contains(&fi)
                && idents_inside_namespace_blocks(f).iter().any(|n| n.eq_ignore_ascii_case(&new_name))
        });
    let new_name_exists = p.syms.iter().any(|s| s.name.eq_ignore_ascii_case(&new_name) && !s.name.eq_ignore_ascii_case(&decl_name));

    Case {
        files: p.files.clone(),
        file,
        offset: s + inner,
        old_name,
        decl_name,
        new_name,
        name_class: name_class.to_string(),
        trace,
        kind,
        role,
        roles,
        n_occ: sym_occs.len(),
        n_files: fileset.len(),
        new_name_exists,
        case_variants: p.case_variants,
        config_names: p
            .syms
            .iter()
            .filter(|s| matches!(s.kind.as_str(), "configuration" | "resource" | "task" | "program_instance"))
            .map(|s| s.name.clone())
            .collect(),
        function_names: p.syms.iter().filter(|s| s.kind == "function").map(|s| s.name.clone()).collect(),
        instance_names: p.syms.iter().filter(|s| s.kind == "fb_instance").map(|s| s.name.clone()).collect(),
        new_name_used_in_other_file,
        ns_reopened_use,
        position_biased: biased,
        clone_mode: p.clone_mode,
        position_nested: nested_biased,
        clone_padded: p.clone_padded,
        dummy_decls: p.dummy_decls,
        same_range_two_files,
        analysis_only: p.alias_literals > 0,
        model_occs: sym_occs.iter().map(|o| (o.file, o.start, o.end)).collect(),
        in_namespace,
        ns_reopened_elsewhere: in_namespace
            && p.files.iter().enumerate().any(|(fi, f)| {
                !files_with_symbol.contains(&fi) && !idents_inside_namespace_blocks(f).is_empty()
            }),
        ns_functions: p.ns_functions > 0,
        owner_name: scope
            .and_then(|sc| p.fb_scopes.iter().find(|(s, _)| *s == sc))
            .map(|(_, fb)| p.syms[*fb].name.clone())
            .unwrap_or_default(),
        member_names: sym
            .and_then(|sy| p.fb_scopes.iter().find(|(_, fb)| *fb == sy))
            .map(|(sc, _)| p.scopes[*sc].names.iter().map(|(_, id)| p.syms[*id].name.clone()).collect())
            .unwrap_or_default(),
        gen_excluded: {
            let mut v = Vec::new();
            if p.avoided_instance_names > 0 {
                v.push("C16-runtime-instance-call-runs-function-of-same-name".to_string());
            }
            if p.avoided_ns_functions > 0 {
                v.push("C16-runtime-namespaced-function-result-write".to_string());
            }
            v
        },
    }
}

/// Shapes of open known findings a case falls into (by the model), in priority order.
/// Each key is the key of an entry in known_findings.d/C16.json; the exclusion is active
/// only while that entry is open.
pub fn shapes(c: &Case) -> Vec<&'static str> {
    let mut v = Vec::new();
    let has = |r: &str| c.roles.iter().any(|x| x == r);
    if has("named_arg") {
        v.push("C16-named-argument-not-a-reference");
    }
    if c.kind == "enum_type" && has("enum_qual") {
        v.push("C16-enum-qualifier-not-a-reference");
    }
    if c.kind == "enum_value" {
        v.push("C16-enum-value-literal-not-a-reference");
    }
    if c.kind == "program" && has("program_type_ref") {
        v.push("C16-configuration-program-type-not-a-reference");
    }
    if c.kind == "task" && has("task_ref") {
        v.push("C16-configuration-task-not-a-reference");
    }
    if c.kind == "namespace" {
        v.push("C16-namespace-rename");
    }
    if has("ns_call") || has("ns_type_ref") {
        v.push("C16-namespace-qualified-use-not-a-reference");
    }
    let is_in = |list: &[String]| list.iter().any(|n| n.eq_ignore_ascii_case(&c.new_name));
    if (c.kind == "function" && is_in(&c.instance_names))
        || (c.kind == "fb_instance"
            && (is_in(&c.function_names)
                || c.name_class == "stdfn"
                || gen::STDFN.iter().any(|n| n.eq_ignore_ascii_case(&c.new_name))))
    {
        v.push("C16-runtime-instance-call-runs-function-of-same-name");
    }
    if matches!(c.kind.as_str(), "global_var" | "fb" | "function" | "program" | "struct_type" | "enum_type" | "enum_value")
        && c.config_names.iter().any(|n| n.eq_ignore_ascii_case(&c.new_name)) {
        v.push("C16-new-name-of-configuration-element");
    }
    v
}

fn truncate(s: &str, n: usize) -> String {
    if s.len() <= n {
        return s.to_string();
    }
    let mut end = n;
    while !s.is_char_boundary(end) {
        end -= 1;
    }
    format!("{}...[{} bytes]", &s[..end], s.len())
}

pub fn check_case(c: &Case, probe: &mut Probe, open: &dyn Fn(&str) -> bool) -> Result<(), String> {
    if c.files.is_empty() || c.file >= c.files.len() || c.offset > c.files[c.file].len() {
        probe.label("discard=malformed_case");
        return Ok(());
    }
    let d0 = core::diagnostics(&c.files);
    if core::has_errors(&d0) {
        probe.label("discard=not_error_free");
        if let Some(d) = d0.iter().find(|d| d.severity == "error") {
            probe.label(format!("discard_code={}", d.code));
        }
        return Ok(());
    }
    // Projects with enum literals qualified through an alias (`Shade#Red`) are accepted by
    // the analysis but not by the runtime compiler ("invalid typed literal", recorded for
    // C01/C02): they are judged without execution - diagnostics, rename-back, and, standing
    // in for the behaviour clause, completeness of the edit set against the generator's
    // occurrence model.
    let r0 = match if c.analysis_only {
        Ok(core::Run { states: Vec::new(), errors: Vec::new() })
    } else {
        core::execute(&c.files, &c.trace)
    } {
        Ok(r) => r,
        Err(e) => {
            probe.label("discard=not_compilable");
            probe.label(format!("discard_compile={}", truncate(e.lines().next().unwrap_or(""), 60)));
            return Ok(());
        }
    };
    for g in &c.gen_excluded {
        probe.excluded(format!("{g} (generator re-drew a name)"));
    }
    probe.label(format!("files={}", c.files.len()));
    probe.label(format!("kind={}", c.kind));
    probe.label(format!("role={}", c.role));
    probe.label(format!("newname={}", c.name_class));
    probe.label(if c.n_occ >= 2 { "occurrences>=2" } else { "occurrences<2" });
    if c.n_files >= 2 {
        probe.label("cross_file");
    }
    if c.new_name_exists {
        probe.label("newname_exists_elsewhere");
    }
    if c.case_variants {
        probe.label("project_has_case_variant_references");
    }
    if c.new_name_used_in_other_file {
        probe.label("newname_used_in_file_without_the_symbol");
    }
    if c.ns_functions {
        probe.label("project_has_namespaced_function");
    }
    probe.label(if c.position_nested {
        "position=uniform_over_nested_symbol_tokens_of_clone_project"
    } else if c.position_biased {
        "position=uniform_over_namespace_member_tokens"
    } else {
        "position=uniform_over_all_tokens"
    });
    if c.clone_mode {
        probe.label("project=template_clones");
        probe.label(format!("template_clones:files={}", c.files.len()));
        if c.clone_padded {
            probe.label("template_clones:padding_shifts_some_offsets");
        }
    }
    if c.same_range_two_files {
        probe.label("symbol_has_occurrences_at_the_same_range_in_two_files");
    }
    if c.analysis_only {
        probe.label("project_has_alias_qualified_enum_literals(analysis_only)");
    }
    if c.dummy_decls > 0 {
        probe.label(format!("dummy_declarations={}", match c.dummy_decls { 1..=20 => "1-20", 21..=50 => "21-50", _ => ">50" }));
    }
    if c.in_namespace {
        probe.label("symbol_declared_in_namespace");
    }
    if c.ns_reopened_elsewhere {
        probe.label("symbol_declared_in_namespace_reopened_in_file_without_the_symbol");
    }
    if c.ns_reopened_use {
        probe.label("namespace_member_newname_used_in_reopened_namespace_of_other_file");
    }
    if r0.errors.iter().any(|e| !e.is_empty()) {
        probe.label("original_faults_at_runtime");
    }
    let mut key = Vec::new();
    for f in &c.files {
        key.extend_from_slice(f.as_bytes());
        key.push(0);
    }
    key.extend_from_slice(format!("{}:{}:{}", c.file, c.offset, c.new_name).as_bytes());
    if c.n_occ >= 2 || c.n_files >= 2 || c.new_name_exists {
        probe.nontrivial(&key);
        probe.sample(json!({
            "kind": c.kind, "role": c.role, "old": c.old_name, "new": c.new_name, "class": c.name_class,
            "occurrences": c.n_occ, "files_with_occurrences": c.n_files,
            "file0": truncate(&c.files[0], 400),
        }));
    }

    // rename must not panic, whatever the name is
    let res = catch(|| core::do_rename(&c.files, c.file, c.offset, &c.new_name))
        .map_err(|p| format!("rename panicked: {p}"))?;
    let Some(edits) = res else {
        probe.label("outcome=refused");
        probe.label(format!("refused:newname={}", c.name_class));
        if c.new_name_used_in_other_file {
            probe.label("refused:newname_used_in_file_without_the_symbol");
        }
        return Ok(());
    };
    let n_edits: usize = edits.values().map(|v| v.len()).sum();
    if n_edits == 0 {
        probe.label("outcome=accepted_no_edits");
    }
    // known-finding shapes are excluded by construction (counted), while the entry is open
    for s in shapes(c) {
        if open(s) {
            probe.excluded(s);
            probe.label("outcome=excluded_known_shape");
            return Ok(());
        }
    }
    probe.label("outcome=accepted");
    probe.label(format!("accepted:newname={}", c.name_class));
    if c.new_name_used_in_other_file {
        probe.label("accepted:newname_used_in_file_without_the_symbol");
    }
    let ctx = |what: String| -> String {
        format!(
            "{what}\n  rename of {:?} ({} / {}) at file {} offset {} to {:?} [{}]; edits: {:?}",
            c.old_name, c.kind, c.role, c.file, c.offset, c.new_name, c.name_class, edits
        )
    };
    core::check_edits(&c.files, &edits, &c.old_name, &c.new_name).map_err(&ctx)?;
    let (nf, shifted) = core::apply_edits(&c.files, &edits, c.file, c.offset);
    let d1 = core::diagnostics(&nf);
    core::compare_diags(&c.files, &d0, &nf, &d1, &c.old_name, &c.new_name).map_err(&ctx)?;
    if c.analysis_only {
        probe.excluded("C16-runtime-alias-qualified-enum-literal (project not executed; edit set checked against the occurrence model)");
        probe.label("behaviour=skipped_analysis_only_project");
        for (f, st, en) in &c.model_occs {
            let covered = edits.get(f).is_some_and(|l| l.iter().any(|e| e.start == *st && e.end == *en));
            if !covered {
                return Err(ctx(format!(
                    "occurrence {}..{} of the renamed symbol in file {f} ({:?}) is not rewritten (occurrence model of the generator; the project cannot be executed)",
                    st,
                    en,
                    c.files[*f].get(*st..*en).unwrap_or("")
                )));
            }
        }
    } else {
    match core::execute(&nf, &c.trace) {
        Err(e) => {
            return Err(ctx(format!(
                "the renamed project no longer compiles with TestHarness::from_sources: {}",
                truncate(&e, 300)
            )))
        }
        Ok(r1) => {
            if c.case_variants {
                probe.label("behaviour=skipped_case_variants");
            } else if c.ns_functions && open("C16-runtime-namespaced-function-result-write") {
                probe.excluded("C16-runtime-namespaced-function-result-write (project declares a namespaced FUNCTION; behaviour not compared)");
                probe.label("behaviour=skipped_namespaced_function");
            } else if r0.errors.iter().flatten().any(|e| e.starts_with("Undefined")) {
                // the error-free original already faults on a name lookup at run time (open
                // runtime findings of the F4 family); what it does depends on spelling
                probe.excluded("C16-runtime-names-case-sensitive (original faults with Undefined* at run time; behaviour not compared)");
                probe.label("behaviour=skipped_original_faults_on_name_lookup");
            } else if c.name_class == "case" && open("C16-runtime-names-case-sensitive") {
                // the runtime's storage and call resolution are case-sensitive (F4): a name
                // that differs from another one only in case changes what the runtime finds
                probe.excluded("C16-runtime-names-case-sensitive (behaviour not compared for a case-only rename)");
                probe.label("behaviour=skipped_case_only_rename");
            } else {
                core::compare_runs(&r0, &r1, &c.old_name, &c.new_name)
                    .map_err(|e| ctx(format!("behaviour differs after the rename: {e}")))?;
                probe.label("behaviour=compared");
            }
        }
    }
    }
    // rename back at the shifted position
    let back = catch(|| core::do_rename(&nf, c.file, shifted, &c.decl_name))
        .map_err(|p| ctx(format!("rename back panicked: {p}")))?;
    let Some(back) = back else {
        return Err(ctx(format!(
            "renaming back to {:?} at the shifted position {} is refused",
            c.decl_name, shifted
        )));
    };
    core::check_edits(&nf, &back, &c.new_name, &c.decl_name).map_err(|e| ctx(format!("rename back: {e}")))?;
    let (bf, _) = core::apply_edits(&nf, &back, c.file, shifted);
    let same = if c.case_variants {
        bf.len() == c.files.len() && bf.iter().zip(&c.files).all(|(a, b)| a.eq_ignore_ascii_case(b))
    } else {
        bf == c.files
    };
    if !same {
        let which = bf.iter().zip(&c.files).position(|(a, b)| a != b).unwrap_or(0);
        return Err(ctx(format!(
            "renaming back to {:?} does not restore the original text (file {which} differs; back edits {:?})",
            c.decl_name, back
        )));
    }
    probe.label("rename_back=restored");
    Ok(())
}

/// Helper subcommands (child processes of this check); None = not mine.
/// `tpv c16-probe <new-name> <file-index> <needle> <nth> <file.st>...` runs the oracle by hand.
/// `tpv c16-gen <seed-word>...` prints a generated project.
pub fn helper(args: &[String]) -> Option<i32> {
    match args.first().map(|s| s.as_str()) {
        Some("c16-probe") => Some(probe_cmd(args)),
        Some("c16-at") => Some(at_cmd(args)),
        Some("c16-tree") => {
            let text = std::fs::read_to_string(&args[1]).unwrap();
            println!("{:#?}", trust_syntax::parser::parse(&text).syntax());
            Some(0)
        }
        Some("c16-mkcase") => Some(mkcase_cmd(args)),
        Some("c16-gen") => {
            let data: Vec<u32> = args[1..].iter().filter_map(|a| a.parse().ok()).collect();
            let c = case_from_tape(&Tape { data });
            for (i, f) in c.files.iter().enumerate() {
                println!("--- file {i}\n{f}");
            }
            println!(
                "--- rename {:?} ({}/{}) file {} offset {} -> {:?} [{}] occ={} files={}",
                c.old_name, c.kind, c.role, c.file, c.offset, c.new_name, c.name_class, c.n_occ, c.n_files
            );
            let mut p = Probe::default();
            let r = check_case(&c, &mut p, &|_| true);
            println!("labels: {:?}\nexcluded: {:?}\nresult: {r:?}", p.labels, p.excluded);
            Some(0)
        }
        _ => None,
    }
}

/// `tpv c16-at <file-index> <offset> <new-name> <file.st>...`: brief report.
fn at_cmd(args: &[String]) -> i32 {
    let fi: usize = args[1].parse().unwrap_or(0);
    let offset: usize = args[2].parse().unwrap_or(0);
    let new_name = &args[3];
    let files: Vec<String> = args[4..].iter().map(|p| std::fs::read_to_string(p).unwrap()).collect();
    let line_of = |f: &str, at: usize| -> String {
        let ls = f[..at.min(f.len())].rfind('\n').map(|i| i + 1).unwrap_or(0);
        let le = f[at.min(f.len())..].find('\n').map(|i| i + at).unwrap_or(f.len());
        f[ls..le].trim().to_string()
    };
    let mut toks = core::ident_tokens(&files[fi]);
    toks.extend(core::prefix_tokens(&files[fi]));
    let old = toks.iter().find(|(s, e)| *s <= offset && offset < *e).map(|(s, e)| files[fi][*s..*e].to_string()).unwrap_or_default();
    let d0 = core::diagnostics(&files);
    let Some(edits) = core::do_rename(&files, fi, offset, new_name) else {
        println!("  REFUSED");
        return 0;
    };
    for (f, l) in &edits {
        for e in l {
            println!("  edit file {f} {}..{}: {}", e.start, e.end, line_of(&files[*f], e.start));
        }
    }
    if let Err(e) = core::check_edits(&files, &edits, &old, new_name) {
        println!("  EDITS MALFORMED: {e}");
        return 1;
    }
    let (nf, shifted) = core::apply_edits(&files, &edits, fi, offset);
    let d1 = core::diagnostics(&nf);
    for d in &d1 {
        if !d0.iter().any(|x| x.code == d.code && x.file == d.file && x.message == d.message) {
            println!("  NEW DIAG file {} {} {}: {} | {}", d.file, d.severity, d.code, d.message, line_of(&nf[d.file], d.start));
        }
    }
    for d in &d0 {
        if !d1.iter().any(|x| x.code == d.code && x.file == d.file && x.message == d.message) {
            println!("  GONE DIAG file {} {} {}: {} | {}", d.file, d.severity, d.code, d.message, line_of(&files[d.file], d.start));
        }
    }
    let trace: core::Trace = vec![(1, 2, false), (3, 4, true), (5, 6, false), (7, 8, true)];
    match (core::execute(&files, &trace), core::execute(&nf, &trace)) {
        (Ok(a), Ok(b)) => match core::compare_runs(&a, &b, &old, new_name) {
            Ok(()) => println!("  behaviour: same"),
            Err(e) => println!("  BEHAVIOUR: {e}"),
        },
        (a, b) => println!("  compile: original {:?}, renamed {:?}", a.err(), b.err()),
    }
    match core::do_rename(&nf, fi, shifted, &old) {
        None => println!("  rename back: REFUSED"),
        Some(back) => {
            for (f, l) in &back {
                for e in l {
                    println!("  back edit file {f} {}..{}: {}", e.start, e.end, line_of(&nf[*f], e.start));
                }
            }
            if let Err(e) = core::check_edits(&nf, &back, new_name, &old) {
                println!("  rename back: EDITS MALFORMED: {e}");
            } else {
                let (bf, _) = core::apply_edits(&nf, &back, fi, shifted);
                println!("  rename back restores: {}", bf == files);
            }
        }
    }
    0
}

/// `tpv c16-mkcase <new-name> <file-index> <needle> <nth> <file.st>...` prints a replay case
/// (kind/role "replay", no model roles: the full oracle runs on it).
fn mkcase_cmd(args: &[String]) -> i32 {
    let new_name = &args[1];
    let fi: usize = args[2].parse().unwrap_or(0);
    let needle = &args[3];
    let nth: usize = args[4].parse().unwrap_or(0);
    let files: Vec<String> = args[5..].iter().map(|p| std::fs::read_to_string(p).unwrap()).collect();
    let offset = files[fi].match_indices(needle.as_str()).nth(nth).map(|(i, _)| i).expect("needle not found");
    let old: String = files[fi][offset..].chars().take_while(|c| c.is_ascii_alphanumeric() || *c == '_').collect();
    let c = Case {
        files,
        file: fi,
        offset,
        old_name: old.clone(),
        decl_name: old,
        new_name: new_name.clone(),
        name_class: "replay".into(),
        trace: vec![(1, 2, false), (3, 4, true), (5, 6, false), (7, 8, true)],
        kind: "replay".into(),
        role: "replay".into(),
        roles: vec![],
        n_occ: 2,
        n_files: 1,
        new_name_exists: false,
        case_variants: false,
        config_names: vec![],
        function_names: vec![],
        instance_names: vec![],
        gen_excluded: vec![],
        owner_name: String::new(),
        member_names: vec![],
        new_name_used_in_other_file: false,
        ns_functions: false,
        ns_reopened_use: false,
        in_namespace: false,
        ns_reopened_elsewhere: false,
        position_biased: false,
        clone_mode: false,
        position_nested: false,
        clone_padded: false,
        dummy_decls: 0,
        same_range_two_files: false,
        analysis_only: false,
        model_occs: vec![],
    };
    println!("{}", serde_json::to_string_pretty(&c).unwrap());
    0
}

fn probe_cmd(args: &[String]) -> i32 {
    if args.len() < 6 {
        eprintln!("usage: tpv c16-probe <new-name> <file-index> <needle> <nth> <file.st>...");
        return 2;
    }
    let new_name = &args[1];
    let fi: usize = args[2].parse().unwrap_or(0);
    let needle = &args[3];
    let nth: usize = args[4].parse().unwrap_or(0);
    let files: Vec<String> = args[5..]
        .iter()
        .map(|p| std::fs::read_to_string(p).unwrap_or_else(|e| panic!("{p}: {e}")))
        .collect();
    let offset = files[fi]
        .match_indices(needle.as_str())
        .nth(nth)
        .map(|(i, _)| i)
        .expect("needle not found");
    let d0 = core::diagnostics(&files);
    println!("--- original diagnostics: {}", d0.len());
    for d in &d0 {
        println!("  {d:?}");
    }
    let trace: core::Trace = vec![(1, 2, false), (3, 4, true), (5, 6, false), (7, 8, true)];
    let r0 = core::execute(&files, &trace);
    match &r0 {
        Ok(r) => {
            println!("--- original run: errors {:?}", r.errors);
            println!("  final state: {:?}", r.states.last());
        }
        Err(e) => println!("--- original does not compile: {e}"),
    }
    let old: String = files[fi][offset..]
        .chars()
        .take_while(|c| c.is_ascii_alphanumeric() || *c == '_')
        .collect();
    println!("--- rename {old:?} at file {fi} offset {offset} -> {new_name:?}");
    let Some(edits) = core::do_rename(&files, fi, offset, new_name) else {
        println!("REFUSED");
        return 0;
    };
    for (f, l) in &edits {
        for e in l {
            println!(
                "  file {f}: {}..{} {:?} -> {:?}",
                e.start,
                e.end,
                &files[*f][e.start..e.end.min(files[*f].len())],
                e.text
            );
        }
    }
    if let Err(e) = core::check_edits(&files, &edits, &old, new_name) {
        println!("EDITS MALFORMED: {e}");
        return 1;
    }
    let (nf, shifted) = core::apply_edits(&files, &edits, fi, offset);
    for (i, f) in nf.iter().enumerate() {
        println!("--- new file {i}:\n{f}");
    }
    let d1 = core::diagnostics(&nf);
    println!("--- new diagnostics: {}", d1.len());
    for d in &d1 {
        println!("  {d:?}");
    }
    match core::compare_diags(&files, &d0, &nf, &d1, &old, new_name) {
        Ok(()) => println!("diagnostics: same"),
        Err(e) => println!("DIAG: {e}"),
    }
    match (r0, core::execute(&nf, &trace)) {
        (Ok(a), Ok(b)) => match core::compare_runs(&a, &b, &old, new_name) {
            Ok(()) => println!("behaviour: same"),
            Err(e) => println!("BEHAVIOUR: {e}"),
        },
        (a, b) => println!("compile: original {:?}, renamed {:?}", a.err(), b.err()),
    }
    match core::do_rename(&nf, fi, shifted, &old) {
        None => println!("rename back: REFUSED"),
        Some(back) => {
            if let Err(e) = core::check_edits(&nf, &back, new_name, &old) {
                println!("rename back: EDITS MALFORMED: {e}");
            } else {
                let (bf, _) = core::apply_edits(&nf, &back, fi, shifted);
                println!("rename back restores: {}", bf == files);
            }
        }
    }
    0
}

fn run(ctx: &mut RunCtx) {
    let tier = ctx.tier;
    // a key is open only if no entry for it says "fixed" (the merged known_findings.json
    // may lag behind the per-property fragment)
    let fixed_keys: Vec<String> =
        ctx.findings.iter().filter(|f| f.status == "fixed").map(|f| f.key.clone()).collect();
    let open_keys: Vec<String> = ctx
        .findings
        .iter()
        .filter(|f| f.status == "open" && !fixed_keys.contains(&f.key))
        .map(|f| f.key.clone())
        .collect();
    let open = move |k: &str| open_keys.iter().any(|x| x == k);
    ctx.search(
        "rename",
        tape_strategy(700).prop_map(|t| case_from_tape(&t)),
        tier.pick(3000, 100_000),
        |c: &Case, p| check_case(c, p, &open),
    );
}
