//! C17 - the debugger is transparent and never wedges the runtime.
//!
//! Programs: `stgen` (strict dial; nested FUNCTION / FUNCTION_BLOCK calls, loops) wrapped by
//! `c17/world.rs` into 1-3 program instances over 0-3 tasks. Scripts: set/clear breakpoints
//! at statement locations, pause(thread?), continue, step in/over/out(thread?), optionally
//! user writes queued through the debugger.
//!
//! Three searches (`c17/driver.rs`; `hook` replays the reference trace as direct calls of
//! `DebugControl`'s statement hook with gates between any two hook calls):
//! * lock-step: commands are issued only before the cycle thread starts and in reaction to
//!   a stop notification, so the run is deterministic and every stop is predicted exactly
//!   from the reference evaluator's executed-statement trace;
//! * racy: a second thread fires commands at generated points in real time, each script is
//!   repeated 50-200 times; only schedule-independent facts are asserted.

use std::collections::BTreeMap;
use std::sync::atomic::{AtomicBool, AtomicU64, Ordering};
use std::sync::Mutex;

use proptest::prelude::*;
use proptest::strategy::ValueTree;
use serde::{Deserialize, Serialize};
use serde_json::json;

use crate::engine::tape::{tape_strategy, Reader, Tape};
use crate::engine::{Probe, PropertyInfo, RunCtx};
use crate::stgen::ast::*;
use crate::stgen::{generate, GenConfig};

#[path = "c17/driver.rs"]
mod driver;
#[path = "c17/script.rs"]
mod script;
#[path = "c17/world.rs"]
mod world;

use driver::{Outcome, RacyOutcome, RacyStats, UserWrite};
use script::{BpEdit, LockScript, RacyScript, Resume};
use world::{Prep, TaskCfg, World};

pub fn info() -> PropertyInfo {
    PropertyInfo {
        id: "C17",
        level: "exploration",
        rule: "cases = stgen programs (strict dial, <= 18 statements per POU, nested FUNCTION/FB calls, FOR/WHILE/REPEAT, 0-4 labelled statements) instantiated 1-3 times over 0-3 tasks + background, 1-3 input cycles repeated 1-6 times, x command scripts over {set/clear breakpoints at statement locations, pause(thread?), pause_entry, continue, step in/over/out(thread?), user writes}; lock-step search (real runtime): commands only before the start, between two cycles and in answer to a stop notification, every stop predicted from the reference statement trace; hook search: the reference trace replayed as calls of DebugControl's statement hook, commands at gates between any two hook calls; racy search: a second thread fires commands at generated real-time points, 50-200 repetitions per script; non-trivial = lock-step/hook script with >= 1 step command issued at call depth >= 1, from a pause/entry stop, or while running between a call statement's hook and the callee's first hook, or racy script in which a pause stop and a breakpoint stop occurred in one repetition or a pause overtook a resume; distinct by SHA-256 of (source, script)",
        assumptions: &[
            "stepping is per debugger thread (task): 'the very next statement' after step-in and the depth clause of step-over/step-out refer to the statements of the stepped thread (DAP thread model; what the hook implements with target_thread)",
            "step-over stops at the first later statement of the stepped thread at call depth <= d, step-out at depth <= d-1 (d > 0) or <= 0 (d = 0), unless a breakpoint stop comes first (StepKind documentation in debug/control.rs); the property's own clause (never deeper than d) is reported separately",
            "a statement 'carries a breakpoint' when its source range overlaps the breakpoint's range (breakpoints.rs: overlap matching; a breakpoint on a nested statement also stops at the enclosing IF/CASE/loop statement); empty statements have no hook call",
            "a pause request can be placed deterministically only while the debugger runs (pause while stopped is ignored by DebugControl): before the start and at cycle boundaries; the step clauses hold for every kind of origin stop (breakpoint, step, pause, entry)",
            "a step issued while the program runs: only the depth clause is asserted, with origin depth = depth of the last statement of the stepped thread the hook has seen when the command takes effect (what apply_action records); where it stops exactly is the code's arming rule and not asserted",
            "`L: stmt` is a Label statement around the inner one and the hook fires for both at the same depth (two statement boundaries, modelled like a compound statement; labels are added to the printed source, no JMP)",
            "hook search: DebugControl is driven through the public DebugHook::on_statement with the hook-call sequence of the reference trace (set_current_thread at every thread change); no interpreter underneath, so no transparency check there",
            "snapshot clause (documented: DebugSnapshot = 'Snapshot of runtime state at a stop'; trust-debug's PausedStateView and the control endpoint read the stopped program from it and otherwise lock the runtime, which the parked cycle thread holds): at every stop notification DebugControl::snapshot() is Some, carries the time of the cycle in progress, and is the state of the program at that statement - compared with the reference state immediately before the statement for up to three depth-0 stops per lock-step script, with the marker storage of the producing hook call for every stop of the hook search; in the racy search only presence and time, and only when nobody but the controller resumes",
            "a user write queued while stopped in cycle k must have exactly the effect of the same whole-variable write applied between cycle k and k+1 of an undebugged run (documented contract of DebugControl::enqueue_*_write)",
            "no-wedge is judged by progress: a run counts as wedged when, while the controller waits for the next stop notification or the end of the run, the progress token (cycles completed, last statement location and call depth seen by the hook) does not move and the cycle thread is blocked (state S in /proc) at 150 consecutive samples 100 ms apart, or - last resort - the token does not move for 180 s (normal: < 5 ms); wedged twice in a row for one script = violation, once = inconclusive",
            "racy search: the OS scheduler chooses the interleaving; spin/yield/sleep delays perturb it but do not control it",
        ],
        workers_quick: 8,
        workers_thorough: 16,
        address_space_limit: 0,
        watchdog_quick_s: 1800,
        watchdog_thorough_s: 7200,
        run,
    }
}

#[derive(Clone, Debug, Serialize, Deserialize)]
pub struct Case {
    pub prog_tape: Tape,
    pub trace_tape: Tape,
    pub script_tape: Tape,
    /// "lock" | "racy" | "hook"
    pub mode: String,
    #[serde(default)]
    pub program: Option<Program>,
    #[serde(default)]
    pub trace: Option<Trace>,
    #[serde(default)]
    pub cfg: Option<TaskCfg>,
    #[serde(default)]
    pub lock: Option<LockScript>,
    #[serde(default)]
    pub racy: Option<RacyScript>,
    /// Printed (wrapped) source, informational.
    #[serde(default)]
    pub source: String,
    /// Set in hand-kept replay files.
    #[serde(default)]
    pub replay: bool,
}

fn gen_config() -> GenConfig {
    let mut c = GenConfig::strict_core();
    c.max_stmts = 18;
    c.max_loop_iterations = 4;
    c.max_cycles = 3;
    c
}

fn max_reps() -> u32 {
    match std::env::var("VERIF_TIER").as_deref() {
        Ok("thorough") => 200,
        _ => 100,
    }
}

pub fn materialize(mut c: Case) -> Case {
    let g = generate(&c.prog_tape, &c.trace_tape, &gen_config());
    let mut r = Reader::new(&c.script_tape);
    let racy = c.mode == "racy";
    let cfg = TaskCfg::generate(&mut r, !g.program.globals.is_empty(), if racy { 6 } else { 3 });
    if racy {
        c.racy = Some(RacyScript::generate(&mut r, max_reps()));
    } else if c.mode == "hook" {
        c.lock = Some(LockScript::generate_hook(&mut r));
    } else {
        c.lock = Some(LockScript::generate(&mut r));
    }
    if let Ok((decl, _)) = world::wrap_program(&g.program, &g.trace, &cfg) {
        c.source = world::wrapped_source(&decl, &cfg).0;
    }
    c.program = Some(g.program);
    c.trace = Some(g.trace);
    c.cfg = Some(cfg);
    c
}

/// Like `tape_strategy`, with a minimum length: a short program tape is used up by the
/// FUNCTIONs / FUNCTION_BLOCKs and leaves a one-statement Main that never calls them.
fn long_tape(min_len: usize, max_len: usize) -> impl Strategy<Value = Tape> {
    let word = prop_oneof![
        3 => any::<u32>(),
        1 => (0u32..16).prop_map(|v| v << 28),
        1 => Just(0u32),
        1 => Just(u32::MAX),
    ];
    proptest::collection::vec(word, min_len..max_len).prop_map(|data| Tape { data })
}

pub fn case_strategy(mode: &'static str) -> impl Strategy<Value = Case> {
    (long_tape(300, 900), tape_strategy(40), long_tape(40, 400)).prop_map(move |(p, t, s)| {
        materialize(Case {
            prog_tape: p,
            trace_tape: t,
            script_tape: s,
            mode: mode.to_string(),
            program: None,
            trace: None,
            cfg: None,
            lock: None,
            racy: None,
            source: String::new(),
            replay: false,
        })
    })
}

static INTERNAL: Mutex<Vec<String>> = Mutex::new(Vec::new());
static SINGLE_WEDGES: Mutex<Vec<String>> = Mutex::new(Vec::new());
static RAN: AtomicU64 = AtomicU64::new(0);
static REJECTED: AtomicU64 = AtomicU64::new(0);
static REF_DISAGREES: AtomicU64 = AtomicU64::new(0);

fn parts(case: &Case) -> Case {
    if case.program.is_some() && case.cfg.is_some() && (case.lock.is_some() || case.racy.is_some())
    {
        case.clone()
    } else {
        materialize(case.clone())
    }
}

/// Elementary variables a user write may target: (instance name | "", variable, type).
fn write_targets(w: &World) -> Vec<(String, String, Ty)> {
    let mut out = Vec::new();
    for (inst, pname) in &w.decl.instances {
        if let Some(p) = w.decl.pou(pname) {
            for v in &p.vars {
                if v.role == Role::Data
                    && !v.constant
                    && v.kind == VarKind::Local
                    && matches!(v.ty, Ty::Elem(_) | Ty::Enum(_))
                {
                    out.push((inst.clone(), v.name.clone(), v.ty.clone()));
                }
            }
        }
    }
    for g in &w.decl.globals {
        if matches!(g.ty, Ty::Elem(_) | Ty::Enum(_)) && !g.constant {
            out.push((String::new(), g.name.clone(), g.ty.clone()));
        }
    }
    out
}

fn write_value(w: &World, ty: &Ty, word: u32) -> Val {
    let k = (word >> 8) as usize;
    match ty {
        Ty::Elem(Elem::Bool) => Val::Bool(word & 1 == 1),
        Ty::Elem(Elem::Real) => Val::real([0.0f32, 1.0, -2.5, 100.0, 0.5][k % 5]),
        Ty::Elem(Elem::LReal) => Val::lreal([0.0f64, 1.0, -2.5, 100.0, 0.5][k % 5]),
        Ty::Elem(Elem::Time) => Val::Time([0i64, 1_000_000, 5_000_000_000, -1][k % 4]),
        Ty::Elem(e) => {
            let (lo, hi) = e.int_range();
            let v = [0i128, 1, 2, -1, 5, 7, hi, lo, 100, -3][k % 10];
            Val::Int(*e, v.max(lo).min(hi))
        }
        Ty::Enum(name) => {
            let n = match w.decl.type_decl(name) {
                Some(TypeDecl::Enum { variants, .. }) => variants.len().max(1),
                _ => 1,
            };
            Val::Enum(name.clone(), (k % n) as u32)
        }
        _ => Val::Bool(false),
    }
}

struct Plan {
    world: Box<World>,
    resolved: driver::ResolvedLock,
    writes: BTreeMap<usize, UserWrite>,
}

enum Planned {
    Ready(Plan),
    Skip(String),
    Internal(String),
}

/// Build the world of a lock-step case. User writes change the baseline: a write issued at
/// a stop in cycle k is an input write before cycle k+1 of the undebugged run. The stop a
/// reaction answers is found by running the stop model alone over the script (positions up to
/// the end of cycle k do not depend on the write), one write at a time.
fn plan_lock(prog: &Program, trace: &Trace, cfg: &TaskCfg, script: &LockScript) -> Planned {
    let first = match world::prepare(prog, trace, cfg, &[]) {
        Prep::Ready(w) => w,
        Prep::Skip(l) => return Planned::Skip(l),
        Prep::Internal(m) => return Planned::Internal(m),
    };
    let resolved = driver::resolve_lock(&first, script);
    if script.reactions.iter().all(|r| r.write.is_none())
        || script.between.iter().any(|c| !c.is_empty())
        || !script.gates.is_empty()
        || script.reactions.iter().any(|r| r.on_pause.is_some() || r.then_pause)
        || script.entry
    {
        return Planned::Ready(Plan {
            world: first,
            resolved,
            writes: BTreeMap::new(),
        });
    }
    let targets = write_targets(&first);
    if targets.is_empty() {
        return Planned::Ready(Plan {
            world: first,
            resolved,
            writes: BTreeMap::new(),
        });
    }
    let mut world = first;
    let mut writes: BTreeMap<usize, UserWrite> = BTreeMap::new();
    let mut extra: Vec<(usize, InputWrite)> = Vec::new();
    for _round in 0..4 {
        // model-only run of the script
        let mut model = driver::Model::new(&world);
        let pause = script
            .pause
            .map(|sel| driver::sel_thread(&world, sel, None));
        model.start(
            driver::bp_ranges(&world, &resolved.bps),
            pause,
            false,
            script.early_step.is_some(),
        );
        let mut added = false;
        for (k, r) in script.reactions.iter().enumerate() {
            let Some(Some(q)) = model.expected_position() else {
                break;
            };
            let thread = Some(world.pos[q].thread);
            let p = match model.observe_position(q) {
                Some(p) => p,
                None => break,
            };
            match &r.bps {
                BpEdit::Keep => {}
                BpEdit::Set(_) => {
                    model.set_breakpoints(driver::bp_ranges(&world, &resolved.reaction_bps[k]))
                }
                BpEdit::Clear => model.set_breakpoints(Vec::new()),
            }
            if let Some(ws) = r.write {
                if !writes.contains_key(&k) && writes.len() < 3 {
                    let (inst, var, ty) =
                        targets[(ws.target as usize * targets.len()) >> 16].clone();
                    let value = write_value(&world, &ty, ws.value);
                    writes.insert(
                        k,
                        UserWrite {
                            instance: inst.clone(),
                            var: var.clone(),
                            value: value.clone(),
                        },
                    );
                    let c = world.pos[p].cycle + 1;
                    if c < world.inputs.len() {
                        extra.push((
                            c,
                            InputWrite {
                                instance: inst,
                                var,
                                value,
                            },
                        ));
                        added = true;
                        break;
                    }
                }
            }
            let t = r
                .resume
                .sel()
                .and_then(|s| driver::sel_thread(&world, s, thread));
            model.resume(r.resume, t, thread, false);
        }
        if !added {
            break;
        }
        world = match world::prepare(prog, trace, cfg, &extra) {
            Prep::Ready(w) => w,
            Prep::Skip(l) => return Planned::Skip(format!("with_user_write:{l}")),
            Prep::Internal(m) => return Planned::Internal(m),
        };
    }
    Planned::Ready(Plan {
        world,
        resolved,
        writes,
    })
}

fn confirmed_wedge(case: &Case, first: &str, second: &str) -> ! {
    // "No command sequence deadlocks the cycle": the same script met the no-progress
    // criterion (driver::await_event) twice in a row. The blocked cycle threads cannot be killed, so the worker reports and
    // exits; the parent attributes the death to the journalled case (VIOLATION).
    let text = format!(
        "C17 confirmed wedge (twice in a row for one script)\n first attempt: {first}\n second attempt: {second}\n--- source\n{}",
        case.source
    );
    eprintln!("{text}");
    let dir = crate::engine::verif_root().join("out").join("C17");
    let _ = std::fs::create_dir_all(&dir);
    let _ = std::fs::write(
        dir.join(format!("wedge-{}.txt", std::process::id())),
        &text,
    );
    std::process::exit(5);
}

fn world_labels(w: &World, probe: &mut Probe) {
    probe.label(format!("instances={}", w.cfg.ninst));
    probe.label(format!("tasks={}", w.cfg.ntasks));
    probe.label(format!("threads={}", w.threads.len()));
    if !w.cfg.wrap {
        probe.label("no_configuration");
    }
    probe.label(format!("max_call_depth={}", w.max_depth.min(3)));
    if w.faulted {
        probe.label("program_faults");
    }
    if w.pos.iter().any(|p| p.stmt >= world::LABEL_BASE) {
        probe.label("labelled_statement_executed");
    }
    probe.label(format!(
        "trace_positions={}",
        match w.pos.len() {
            0 => "0",
            1..=20 => "1-20",
            21..=200 => "21-200",
            _ => ">200",
        }
    ));
}

fn skip_label(l: &str, probe: &mut Probe) {
    if l.starts_with("rejected:") || l.contains("rejected:") {
        REJECTED.fetch_add(1, Ordering::Relaxed);
    }
    if l.contains("reference_disagrees") {
        REF_DISAGREES.fetch_add(1, Ordering::Relaxed);
    }
    probe.label(format!("skipped:{l}"));
}

fn check_lock(case: &Case, probe: &mut Probe) -> Result<(), String> {
    check_controlled(case, probe, driver::Engine::Runtime)
}

/// Hook-level search: the reference trace is replayed as a sequence of statement-hook calls
/// on `DebugControl` (no runtime underneath), commands at gates between any two hook calls.
fn check_hook(case: &Case, probe: &mut Probe) -> Result<(), String> {
    check_controlled(case, probe, driver::Engine::Hook)
}

fn check_controlled(case: &Case, probe: &mut Probe, engine: driver::Engine) -> Result<(), String> {
    let c = parts(case);
    let (prog, trace, cfg) = (
        c.program.as_ref().unwrap(),
        c.trace.as_ref().unwrap(),
        c.cfg.as_ref().unwrap(),
    );
    let Some(script) = c.lock.as_ref() else {
        return Ok(());
    };
    let plan = match plan_lock(prog, trace, cfg, script) {
        Planned::Ready(p) => p,
        Planned::Skip(l) => {
            skip_label(&l, probe);
            return Ok(());
        }
        Planned::Internal(m) => {
            INTERNAL.lock().unwrap().push(m);
            probe.label("internal_error");
            return Ok(());
        }
    };
    RAN.fetch_add(1, Ordering::Relaxed);
    let w = &plan.world;
    let tag = match engine {
        driver::Engine::Runtime => "lock-step",
        driver::Engine::Hook => "hook-level",
    };
    let fail = |e: String| -> String { format!("[{tag}] {e}\n--- source\n{}", w.source) };
    let mut first_wedge: Option<String> = None;
    for _attempt in 0..2 {
        match driver::run_lockstep(w, script, &plan.resolved, &plan.writes, engine).map_err(&fail)? {
            Outcome::Done(s) => {
                if let Some(fw) = first_wedge {
                    SINGLE_WEDGES.lock().unwrap().push(fw);
                    probe.label("single_wedge");
                }
                world_labels(w, probe);
                for l in s.labels {
                    probe.label(match engine {
                        driver::Engine::Runtime => l,
                        driver::Engine::Hook => l.replacen("lock:", "hook:", 1),
                    });
                }
                if s.nontrivial {
                    let mut key = w.source.as_bytes().to_vec();
                    key.extend_from_slice(
                        serde_json::to_string(script).unwrap_or_default().as_bytes(),
                    );
                    probe.nontrivial(&key);
                    if s.stops >= 4 {
                        probe.sample(json!({
                            "driver": tag,
                            "source": w.source,
                            "script": script,
                            "stops": s.stops,
                            "trace_positions": w.pos.len(),
                        }));
                    }
                }
                return Ok(());
            }
            Outcome::Internal(m) => {
                INTERNAL.lock().unwrap().push(m);
                probe.label("internal_error");
                return Ok(());
            }
            Outcome::Wedge(text) => match first_wedge.take() {
                None => first_wedge = Some(text),
                Some(f) => confirmed_wedge(&c, &f, &text),
            },
        }
    }
    if let Some(f) = first_wedge {
        // second attempt wedged as well is handled above; here: loop ended after one wedge
        // and one ... cannot happen, but never lose the information
        SINGLE_WEDGES.lock().unwrap().push(f);
    }
    Ok(())
}

static RACY_FAILED: AtomicBool = AtomicBool::new(false);
static RACY_SHRINK_EVALS: AtomicU64 = AtomicU64::new(0);

/// A racy evaluation costs 50-200 runs, and proptest allows thousands of shrink steps: once a
/// generated racy case has failed, at most 150 further candidates are evaluated (with at most
/// 60 repetitions each); an untried candidate counts as passing, so the reported case is
/// always one that failed. Replay files (`replay: true`) are never limited.
fn check_racy(case: &Case, probe: &mut Probe) -> Result<(), String> {
    let shrinking = !case.replay && RACY_FAILED.load(Ordering::SeqCst);
    if shrinking && RACY_SHRINK_EVALS.fetch_add(1, Ordering::SeqCst) >= 150 {
        return Ok(());
    }
    let r = check_racy_inner(case, probe, if shrinking { 60 } else { u32::MAX });
    if r.is_err() && !case.replay {
        RACY_FAILED.store(true, Ordering::SeqCst);
    }
    r
}

fn check_racy_inner(case: &Case, probe: &mut Probe, max_reps: u32) -> Result<(), String> {
    let c = parts(case);
    let (prog, trace, cfg) = (
        c.program.as_ref().unwrap(),
        c.trace.as_ref().unwrap(),
        c.cfg.as_ref().unwrap(),
    );
    let Some(script) = c.racy.as_ref() else {
        return Ok(());
    };
    let w = match world::prepare(prog, trace, cfg, &[]) {
        Prep::Ready(w) => w,
        Prep::Skip(l) => {
            skip_label(&l, probe);
            return Ok(());
        }
        Prep::Internal(m) => {
            INTERNAL.lock().unwrap().push(m);
            probe.label("internal_error");
            return Ok(());
        }
    };
    RAN.fetch_add(1, Ordering::Relaxed);
    let mut stats = RacyStats::new();
    let mut consecutive_wedge: Option<String> = None;
    let mut both_kinds = false;
    let mut rep = 0;
    let reps = script.reps.min(max_reps);
    while rep < reps {
        let before = (stats.pause_stops, stats.breakpoint_stops);
        let r = driver::run_racy_once(&w, script, &mut stats).map_err(|e| {
            format!(
                "[racy, repetition {} of {}] {e}\n--- source\n{}",
                rep + 1,
                script.reps,
                w.source
            )
        })?;
        match r {
            RacyOutcome::Done => {
                if let Some(fw) = consecutive_wedge.take() {
                    SINGLE_WEDGES.lock().unwrap().push(fw);
                    probe.label("single_wedge");
                }
                if stats.pause_stops > before.0 && stats.breakpoint_stops > before.1 {
                    both_kinds = true;
                }
            }
            RacyOutcome::Internal(m) => {
                INTERNAL.lock().unwrap().push(m);
                probe.label("internal_error");
                return Ok(());
            }
            RacyOutcome::Wedge(text) => match consecutive_wedge.take() {
                None => consecutive_wedge = Some(text),
                Some(f) => confirmed_wedge(&c, &f, &text),
            },
        }
        rep += 1;
    }
    if let Some(fw) = consecutive_wedge.take() {
        SINGLE_WEDGES.lock().unwrap().push(fw);
        probe.label("single_wedge");
    }
    world_labels(&w, probe);
    probe.label(if script.racer_resumes() {
        "racy:racer_resumes"
    } else {
        "racy:racer_only_pauses"
    });
    let bucket = |n: u64| match n {
        0 => "0",
        1..=9 => "1-9",
        10..=99 => "10-99",
        _ => ">=100",
    };
    probe.label(format!("racy:stops={}", bucket(stats.stops)));
    probe.label(format!("racy:pause_stops={}", bucket(stats.pause_stops)));
    probe.label(format!(
        "racy:pause_overtook_resume={}",
        bucket(stats.pause_at_same_position)
    ));
    probe.label(format!(
        "racy:snapshot_checked={}",
        bucket(stats.snapshot_checks)
    ));
    probe.label(format!(
        "racy:depth_clause_decided={}",
        bucket(stats.depth_clause_checks)
    ));
    probe.label(format!(
        "racy:depth_clause_decided_from_pause_stop={}",
        bucket(stats.depth_clause_checks_from_pause)
    ));
    probe.label(format!(
        "racy:racer_commands_during_execution={}%",
        if stats.racer_total == 0 {
            0
        } else {
            (stats.racer_landed * 100 / stats.racer_total) / 25 * 25
        }
    ));
    if both_kinds || stats.pause_at_same_position > 0 {
        let mut key = w.source.as_bytes().to_vec();
        key.extend_from_slice(serde_json::to_string(script).unwrap_or_default().as_bytes());
        probe.nontrivial(&key);
        probe.sample(json!({
            "driver": "racy",
            "source": w.source,
            "script": script,
            "repetitions": script.reps,
            "stops": stats.stops,
            "pause_stops": stats.pause_stops,
            "pause_overtook_resume": stats.pause_at_same_position,
            "racer_commands_during_execution": stats.racer_landed,
            "racer_commands": stats.racer_total,
        }));
    }
    Ok(())
}

fn describe_script(c: &Case) -> String {
    match (&c.lock, &c.racy) {
        (Some(l), _) => {
            let cmds: Vec<String> = l
                .reactions
                .iter()
                .map(|r| {
                    format!(
                        "{}{}{}",
                        match &r.bps {
                            BpEdit::Keep => "",
                            BpEdit::Set(_) => "setbp+",
                            BpEdit::Clear => "clearbp+",
                        },
                        if r.write.is_some() { "write+" } else { "" },
                        match r.resume {
                            Resume::Continue => "C".to_string(),
                            Resume::StepIn(s) => format!("in({s:?})"),
                            Resume::StepOver(s) => format!("over({s:?})"),
                            Resume::StepOut(s) => format!("out({s:?})"),
                        }
                    )
                })
                .collect();
            format!(
                "lock: bps {:?} pause {:?} entry {} early {:?} between {:?} reactions [{}]",
                l.bps,
                l.pause,
                l.entry,
                l.early_step,
                l.between,
                cmds.join(" ")
            )
        }
        (_, Some(r)) => format!("racy: {r:?}"),
        _ => String::new(),
    }
}

/// Helper subcommands (child processes of this check); None = not mine.
pub fn helper(args: &[String]) -> Option<i32> {
    match args.first().map(|s| s.as_str()) {
        Some("c17-gen") => {
            // tpv c17-gen <seed> [n] [lock|racy] [quiet]: generate cases, run them, print verdicts
            crate::engine::install_quiet_panic_hook();
            let seed: u64 = args.get(1).and_then(|s| s.parse().ok()).unwrap_or(1);
            let n: usize = args.get(2).and_then(|s| s.parse().ok()).unwrap_or(1);
            let mode: &'static str = match args.get(3).map(|s| s.as_str()) {
                Some("racy") => "racy",
                Some("hook") => "hook",
                _ => "lock",
            };
            let quiet = args.get(4).is_some();
            let mut runner = proptest::test_runner::TestRunner::new_with_rng(
                proptest::test_runner::Config::default(),
                proptest::test_runner::TestRng::from_seed(
                    proptest::test_runner::RngAlgorithm::ChaCha,
                    &{
                        let mut s = [0u8; 32];
                        s[..8].copy_from_slice(&seed.to_le_bytes());
                        s
                    },
                ),
            );
            let strat = case_strategy(mode);
            let mut hist: BTreeMap<String, u64> = BTreeMap::new();
            let started = std::time::Instant::now();
            for i in 0..n {
                let c = strat.new_tree(&mut runner).ok()?.current();
                let mut probe = Probe::default();
                let t0 = std::time::Instant::now();
                let r = match mode {
                    "racy" => check_racy(&c, &mut probe),
                    "hook" => check_hook(&c, &mut probe),
                    _ => check_lock(&c, &mut probe),
                };
                if !quiet {
                    println!("(* ---- case {i} ---- *)\n{}", c.source);
                    println!("(* cfg {:?} *)", c.cfg);
                    println!("(* {} *)", describe_script(&c));
                }
                match r {
                    Ok(()) => {
                        if !quiet {
                            println!(
                                "(* verdict: ok in {:?}; labels {:?} *)",
                                t0.elapsed(),
                                probe.labels
                            );
                        }
                    }
                    Err(e) => {
                        println!("(* case {i} verdict: FAIL\n{e}\n*)");
                        println!("(* {} *)", describe_script(&c));
                        if let Ok(dir) = std::env::var("C17_DEBUG_DIR") {
                            let _ = std::fs::write(
                                format!("{dir}/fail-{seed}-{i}.json"),
                                serde_json::to_string_pretty(&json!({"property":"C17","search": match mode {"racy" => "racy", "hook" => "hook", _ => "lockstep"},"expect":"pass","message": e.lines().next().unwrap_or(""),"case": c})).unwrap(),
                            );
                        }
                    }
                }
                for l in probe.labels {
                    *hist.entry(l).or_default() += 1;
                }
                if probe.nontrivial.is_some() {
                    *hist.entry("NONTRIVIAL".into()).or_default() += 1;
                }
            }
            println!("(* {n} cases in {:?} *)", started.elapsed());
            for (k, v) in hist {
                println!("(* {v:6} {k} *)");
            }
            for m in INTERNAL.lock().unwrap().iter() {
                println!("(* INTERNAL: {} *)", m.lines().take(4).collect::<Vec<_>>().join(" | "));
            }
            for m in SINGLE_WEDGES.lock().unwrap().iter() {
                println!("(* SINGLE WEDGE: {m} *)");
            }
            Some(0)
        }
        _ => None,
    }
}

fn run(ctx: &mut RunCtx) {
    let tier = ctx.tier;
    std::env::set_var("VERIF_TIER", tier.name());
    ctx.search(
        "lockstep",
        case_strategy("lock"),
        tier.pick(3_000, 60_000),
        check_lock,
    );
    ctx.search(
        "hook",
        case_strategy("hook"),
        tier.pick(1_500, 30_000),
        check_hook,
    );
    ctx.search("racy", case_strategy("racy"), tier.pick(200, 3_000), check_racy);

    let internal = INTERNAL.lock().unwrap().clone();
    if !internal.is_empty() {
        ctx.inconclusive(format!(
            "{} case(s) hit an inconsistency inside generator/reference/harness (not a verdict about the runtime); first: {}",
            internal.len(),
            internal[0].lines().take(3).collect::<Vec<_>>().join(" | ")
        ));
    }
    let wedges = SINGLE_WEDGES.lock().unwrap().clone();
    if !wedges.is_empty() {
        ctx.inconclusive(format!(
            "{} script(s) met the no-progress criterion once and passed when repeated (inconclusive, not a violation); first: {}",
            wedges.len(),
            wedges[0].lines().take(3).collect::<Vec<_>>().join(" | ")
        ));
    }
    let ran = RAN.load(Ordering::Relaxed);
    let rejected = REJECTED.load(Ordering::Relaxed);
    let disagrees = REF_DISAGREES.load(Ordering::Relaxed);
    if ctx.only_replay.is_none() && rejected * 50 > (ran + rejected).max(1) {
        ctx.inconclusive(format!(
            "{rejected} of {} generated programs were rejected by the compiler (> 2 %)",
            ran + rejected
        ));
    }
    if ctx.only_replay.is_none() && disagrees * 20 > (ran + disagrees).max(1) {
        ctx.inconclusive(format!(
            "{disagrees} of {} cases were not judged because the reference evaluator and the undebugged runtime disagree (> 5 %)",
            ran + disagrees
        ));
    }
    if disagrees > 0 {
        ctx.note(format!(
            "{disagrees} case(s) not judged: reference evaluator and undebugged runtime disagree (C02's business)"
        ));
    }
}
