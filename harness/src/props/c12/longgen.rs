//! C12 - error-free "long construct" generator.
//!
//! A deterministic function of a `Tape` that prints small Structured Text compilation
//! units which are error-free by construction for the pinned grammar and contain
//! constructs with LONG token runs in front of the token that decides how the construct
//! is parsed: access paths / index lists before `:=`, CASE label lists before `:`,
//! argument lists before `)` `;`, conditions before THEN / DO / OF / UNTIL, FOR bounds,
//! declaration name lists before `:`, array dimension lists, enum value lists, qualified
//! names, IMPLEMENTS / USING lists, configuration access paths. Run lengths are biased
//! around powers of two (lookahead windows are typically 16/32/64/128) and 30..130.
//!
//! The generator emits a token list and joins it in one of four styles (spaced, tight,
//! line-per-token, mixed with comments/pragmas already inside); the caller re-lexes the
//! result and compares it with the intended token list, so a join that glued two tokens
//! is discarded (and counted), never judged.

use crate::engine::tape::{Reader, Tape};

#[derive(Clone, Debug)]
struct Tok {
    text: String,
    /// must be attached to the previous token without any separator (`INT#` `5`)
    glue: bool,
}

pub struct LongText {
    pub text: String,
    /// intended non-trivia token texts, in order
    pub tokens: Vec<String>,
    /// (construct kind, non-trivia tokens from the construct's first token up to its
    /// deciding token)
    pub constructs: Vec<(&'static str, usize)>,
    pub style: &'static str,
}

const IDENTS: &[&str] = &[
    "a", "b", "x", "y", "idx", "Count", "value_1", "_t", "m", "plant", "lines", "cells", "axis",
    "Drive", "q0", "st",
];
const TYPE_NAMES: &[&str] = &["MyType", "T_Axis", "E_Color", "FB_Motor", "I_Run", "ST_Data"];
const NS_NAMES: &[&str] = &["Ns1", "Ns2", "Lib", "Core", "Util", "Plant", "Acme", "v2"];
const ELEM_TYPES: &[&str] = &[
    "INT", "BOOL", "DINT", "REAL", "LREAL", "TIME", "BYTE", "WORD", "UINT", "SINT", "LINT", "DATE",
    "TOD", "DT", "CHAR", "STRING", "WSTRING", "DWORD", "USINT",
];
const INT_LITS: &[&str] = &["0", "1", "2", "7", "42", "1_000", "16#FF", "2#1010", "8#17", "255"];
const REAL_LITS: &[&str] = &["1.5", "1.0E-3", "2.5e10", "0.0", "3.14"];
const OTHER_LITS: &[&str] = &[
    "T#5s", "T#1h2m3s4ms", "TIME#-5ms", "LTIME#5ns", "D#2024-01-02", "TOD#12:34:56",
    "DT#2024-01-02-03:04:05", "'abc'", "'a$'b'", "''", "\"wide\"", "TRUE", "FALSE", "NULL",
];
const ADDRS: &[&str] = &["%IX0.0", "%QW4", "%MD10", "%QX1.2", "%IB3", "%MW100"];
const BINOPS: &[&str] = &[
    "+", "-", "*", "/", "MOD", "AND", "OR", "XOR", "&", "=", "<>", "<", "<=", ">", ">=", "**",
];

struct G<'a> {
    r: Reader<'a>,
    toks: Vec<Tok>,
    marks: Vec<(&'static str, usize)>,
    /// remaining token budget of the whole text
    fuel: usize,
    uniq: usize,
    /// inside the parenthesised bounds of a TYPE entry: no `,` outside parentheses (the
    /// typed-enum lookahead of the pinned parser tracks parentheses only)
    flat_index: bool,
}

impl<'a> G<'a> {
    fn t(&mut self, s: &str) {
        self.toks.push(Tok {
            text: s.to_string(),
            glue: false,
        });
        self.fuel = self.fuel.saturating_sub(1);
    }

    fn glued(&mut self, s: &str) {
        self.toks.push(Tok {
            text: s.to_string(),
            glue: true,
        });
        self.fuel = self.fuel.saturating_sub(1);
    }

    /// Emit one of `opts` (uniform choice from the tape).
    fn pick_t(&mut self, opts: &[&str]) {
        let i = self.r.pick(opts.len());
        self.t(opts[i]);
    }

    fn here(&self) -> usize {
        self.toks.len()
    }

    fn mark(&mut self, kind: &'static str, start: usize) {
        let run = self.toks.len() - start;
        self.marks.push((kind, run));
    }

    fn ident(&mut self) {
        let s = IDENTS[self.r.pick(IDENTS.len())];
        self.t(s);
    }

    /// A fresh-looking identifier (declaration lists look more natural with distinct names;
    /// the parser does not care).
    fn fresh(&mut self, prefix: &str) {
        self.uniq += 1;
        let s = format!("{prefix}{}", self.uniq);
        self.t(&s);
    }

    /// Target length of a long run, in tokens. Low tape values give short runs.
    fn long_len(&mut self) -> usize {
        // (tapes carry many extreme words - 0 and u32::MAX -, so the first alternative is
        // the simple one and the last one the most interesting one)
        let n = match self.r.weighted(&[3, 5, 1, 5]) {
            0 => 1 + self.r.pick(12),
            1 => 30 + self.r.pick(101),
            2 => 130 + self.r.pick(171),
            _ => {
                let p = [8usize, 16, 32, 256, 128, 64][self.r.weighted(&[1, 3, 4, 1, 3, 4])];
                p - 4 + self.r.pick(9)
            }
        };
        n.min(self.fuel.max(1))
    }

    /// True with probability num/den, and false on an exhausted tape (so that the options
    /// guarded by it disappear when the tape shrinks).
    fn rare(&mut self, num: u32, den: u32) -> bool {
        !self.r.chance(den - num, den)
    }

    fn small(&mut self, n: usize) -> usize {
        self.r.pick(n)
    }

    // ---------------------------------------------------------------- expressions

    fn int_lit(&mut self) {
        let s = INT_LITS[self.r.pick(INT_LITS.len())];
        self.t(s);
    }

    fn typed_literal(&mut self) {
        match self.r.pick(7) {
            0 => {
                self.t("INT#");
                self.glued("5");
            }
            1 => {
                self.t("DINT#");
                self.glued("-");
                self.glued("5");
            }
            2 => {
                self.t("REAL#");
                self.glued("1.0");
            }
            3 => {
                self.t("BOOL#");
                self.glued("TRUE");
            }
            4 => {
                self.t("E_Color#");
                self.glued("Red");
            }
            5 => {
                self.t("WORD#");
                self.glued("16#7F");
            }
            _ => {
                self.t("UINT#");
                self.glued("+");
                self.glued("7");
            }
        }
    }

    fn atom(&mut self) {
        match self.r.weighted(&[10, 5, 2, 2, 2, 2, 1, 1, 1, 1, 1]) {
            0 => self.ident(),
            1 => self.int_lit(),
            2 => {
                let s = REAL_LITS[self.r.pick(REAL_LITS.len())];
                self.t(s);
            }
            3 => self.typed_literal(),
            4 => {
                let s = OTHER_LITS[self.r.pick(OTHER_LITS.len())];
                self.t(s);
            }
            5 => {
                let s = ADDRS[self.r.pick(ADDRS.len())];
                self.t(s);
            }
            6 => {
                self.t("ADR");
                self.t("(");
                self.ident();
                self.t(")");
            }
            7 => {
                self.t("SIZEOF");
                self.t("(");
                if self.r.flag() {
                    self.t("INT");
                } else {
                    self.ident();
                }
                self.t(")");
            }
            8 => {
                self.pick_t(&["SUPER", "THIS"]);
                self.t("^");
                self.t(".");
                self.ident();
            }
            9 => {
                self.t("#");
                self.ident();
            }
            _ => {
                self.pick_t(&["ENO", "EN"]);
            }
        }
    }

    /// One argument of a call: positional, `name := e`, `name => e` or `name ?= e`.
    fn arg(&mut self, depth: usize) {
        match self.r.weighted(&[5, 3, 2, 1]) {
            0 => {}
            1 => {
                if self.rare(1, 8) {
                    self.t("EN");
                } else {
                    self.ident();
                }
                self.t(":=");
            }
            2 => {
                if self.rare(1, 8) {
                    self.t("ENO");
                } else {
                    self.ident();
                }
                self.t("=>");
            }
            _ => {
                self.ident();
                self.t("?=");
            }
        }
        let n = 1 + self.small(4);
        self.expr(n, depth + 1);
    }

    /// `( args )` with about `n` tokens inside.
    fn arg_list(&mut self, n: usize, depth: usize) {
        self.t("(");
        let start = self.here();
        if n > 0 {
            loop {
                self.arg(depth);
                if self.here() - start >= n || self.fuel == 0 {
                    break;
                }
                self.t(",");
            }
        }
        self.t(")");
    }

    fn operand(&mut self, room: usize, depth: usize) {
        if self.rare(1, 8) {
            let op = ["NOT", "-", "+"][self.r.pick(3)];
            self.t(op);
        }
        let nested_ok = depth < 5 && room > 4;
        let w: [u32; 4] = if nested_ok { [10, 2, 2, 2] } else { [1, 0, 0, 0] };
        match self.r.weighted(&w) {
            0 => self.atom(),
            1 => {
                self.t("(");
                self.expr(room / 2, depth + 1);
                self.t(")");
            }
            2 => {
                // call, possibly through a qualified name
                self.ident();
                for _ in 0..self.small(3) {
                    self.t(".");
                    self.ident();
                }
                let n = self.small(room / 2 + 1);
                self.arg_list(n, depth + 1);
            }
            _ => {
                // short access path
                let n = 2 + self.small(6);
                self.path(n, depth + 1, false);
            }
        }
    }

    /// An expression of about `n` tokens (at least one operand).
    fn expr(&mut self, n: usize, depth: usize) {
        let start = self.here();
        loop {
            let used = self.here() - start;
            self.operand(n.saturating_sub(used), depth);
            if self.here() - start >= n || self.fuel == 0 {
                break;
            }
            let op = BINOPS[self.r.pick(BINOPS.len())];
            self.t(op);
        }
    }

    /// An access path of about `n` tokens: base, then `.name`, `[i, j]`, `^`, `.1`,
    /// `(args)` selectors. `stmt_start`: the first token must be able to start a statement.
    fn path(&mut self, n: usize, depth: usize, stmt_start: bool) {
        let start = self.here();
        // base
        let mut after_number_like = false;
        match self.r.weighted(&[14, 1, 1, 1, 1]) {
            0 => self.ident(),
            1 => self.t("THIS"),
            2 => self.t("SUPER"),
            3 => {
                let s = ADDRS[self.r.pick(ADDRS.len())];
                self.t(s);
                after_number_like = true;
            }
            _ => {
                if stmt_start || self.r.flag() {
                    self.t("#");
                    self.ident();
                } else {
                    self.ident();
                }
            }
        }
        while self.here() - start < n && self.fuel > 0 {
            let w: [u32; 5] = if after_number_like {
                [0, 3, 2, 0, 0]
            } else {
                [8, 3, 1, 1, 1]
            };
            match self.r.weighted(&w) {
                0 => {
                    self.t(".");
                    self.ident();
                    after_number_like = false;
                }
                1 => {
                    self.t("[");
                    let dims = if self.flat_index { 1 } else { 1 + self.r.weighted(&[6, 3, 1]) };
                    for d in 0..dims {
                        if d > 0 {
                            self.t(",");
                        }
                        let k = 1 + self.small(3);
                        if depth < 5 {
                            self.expr(k, depth + 1);
                        } else {
                            self.int_lit();
                        }
                    }
                    self.t("]");
                    after_number_like = false;
                }
                2 => {
                    self.t("^");
                    after_number_like = false;
                }
                3 => {
                    // bit access: `.1` / `.%X1`
                    self.t(".");
                    if self.r.flag() {
                        let s = ["0", "1", "7", "15"][self.r.pick(4)];
                        self.t(s);
                    } else {
                        self.t("%X1");
                    }
                    after_number_like = true;
                }
                _ => {
                    if depth < 5 {
                        let k = self.small(5);
                        self.arg_list(k, depth + 1);
                    } else {
                        self.t("^");
                    }
                    after_number_like = false;
                }
            }
        }
    }

    /// `Ns1.Ns2. ... .Name` with about `n` tokens.
    fn qualified(&mut self, n: usize, last: &str) {
        let start = self.here();
        while self.here() - start + 1 < n && self.fuel > 0 {
            let s = NS_NAMES[self.r.pick(NS_NAMES.len())];
            self.t(s);
            self.t(".");
        }
        self.t(last);
    }

    // ---------------------------------------------------------------- types

    fn subrange(&mut self, n: usize) {
        if self.rare(1, 12) {
            self.t("*");
            return;
        }
        let k = 1 + self.small(n.max(1));
        self.expr(k, 3);
        self.t("..");
        let k = 1 + self.small(3);
        self.expr(k, 3);
    }

    fn type_ref(&mut self, depth: usize, long: bool) {
        let w: [u32; 8] = if depth >= 3 {
            [1, 0, 0, 0, 0, 0, 0, 0]
        } else if long {
            [0, 1, 2, 6, 1, 1, 1, 3]
        } else {
            [10, 2, 2, 3, 1, 1, 2, 1]
        };
        match self.r.weighted(&w) {
            0 => {
                let s = ELEM_TYPES[self.r.pick(ELEM_TYPES.len())];
                self.t(s);
            }
            1 => {
                self.pick_t(&["WSTRING", "STRING"]);
                self.t("[");
                let k = if long { self.long_len() } else { 1 };
                self.expr(k, 3);
                self.t("]");
            }
            2 => {
                // subrange of an elementary or named type
                if self.r.flag() {
                    self.pick_t(&["INT", "DINT", "UINT", "SINT"]);
                } else {
                    let s = TYPE_NAMES[self.r.pick(TYPE_NAMES.len())];
                    self.t(s);
                }
                self.t("(");
                let start = self.here();
                let k = if long { self.long_len() } else { 1 };
                let saved = std::mem::replace(&mut self.flat_index, true);
                self.expr(k, 3);
                self.flat_index = saved;
                self.mark("subrange_low", start);
                self.t("..");
                let k = 1 + self.small(3);
                self.expr(k, 3);
                self.t(")");
            }
            3 => {
                self.t("ARRAY");
                self.t("[");
                let start = self.here();
                let n = if long { self.long_len() } else { 3 };
                loop {
                    self.subrange(2);
                    if self.here() - start >= n || self.fuel == 0 {
                        break;
                    }
                    self.t(",");
                }
                self.mark("array_dims", start);
                self.t("]");
                self.t("OF");
                self.type_ref(depth + 1, false);
            }
            4 => {
                self.t("POINTER");
                self.t("TO");
                self.type_ref(depth + 1, false);
            }
            5 => {
                self.t("REF_TO");
                self.type_ref(depth + 1, false);
            }
            6 => {
                let s = TYPE_NAMES[self.r.pick(TYPE_NAMES.len())];
                self.t(s);
            }
            _ => {
                let n = if long { self.long_len() } else { 3 + self.small(4) };
                let s = TYPE_NAMES[self.r.pick(TYPE_NAMES.len())];
                let start = self.here();
                self.qualified(n, s);
                self.mark("qualified_type", start);
            }
        }
    }

    /// `a, b, c [AT %IX0.0] : type [:= init] ;`
    fn var_decl(&mut self, long: bool) {
        let start = self.here();
        let n = if long { self.long_len() } else { 1 + 2 * self.r.weighted(&[6, 2, 1]) };
        loop {
            if self.rare(1, 24) {
                self.pick_t(&["ENO", "EN"]);
            } else {
                self.fresh("v");
            }
            if self.here() - start >= n || self.fuel == 0 {
                break;
            }
            self.t(",");
        }
        if self.rare(1, 6) {
            self.t("AT");
            let s = ["%IX0.0", "%QW4", "%I*", "%Q*", "%MD10"][self.r.pick(5)];
            self.t(s);
        }
        if long {
            self.mark("var_names", start);
        }
        self.t(":");
        let long_type = !long && self.rare(1, 4);
        self.type_ref(0, long_type);
        if self.rare(1, 3) {
            self.t(":=");
            let k = if self.rare(1, 5) { self.long_len() } else { 1 + self.small(4) };
            self.expr(k, 2);
        }
        self.t(";");
    }

    fn var_block(&mut self, kinds: &[&str], long: bool) {
        let k = kinds[self.r.pick(kinds.len())];
        self.t(k);
        if self.rare(1, 5) {
            let m = ["CONSTANT", "RETAIN", "NON_RETAIN", "PERSISTENT"][self.r.pick(4)];
            self.t(m);
        }
        if self.rare(1, 10) {
            let m = ["PUBLIC", "PRIVATE", "PROTECTED", "INTERNAL"][self.r.pick(4)];
            self.t(m);
        }
        let n = 1 + self.r.weighted(&[5, 3, 1]);
        let which = self.r.pick(n);
        for i in 0..n {
            self.var_decl(long && i == which);
        }
        self.t("END_VAR");
    }

    fn enum_values(&mut self, n: usize) {
        let start = self.here();
        loop {
            self.fresh("E");
            if self.rare(1, 4) {
                self.t(":=");
                let k = 1 + self.small(3);
                self.expr(k, 3);
            }
            if self.here() - start >= n || self.fuel == 0 {
                break;
            }
            self.t(",");
        }
    }

    /// One entry of a TYPE block: `Name : <type definition> [:= init] ;`
    fn type_entry(&mut self, long: bool, last: bool) {
        self.fresh("T_");
        self.t(":");
        match self.r.weighted(&[3, 1, 3, 3, 3, 2]) {
            0 => {
                self.t("STRUCT");
                // a few fields, or (long) many of them
                let n = if long && self.r.flag() {
                    1 + self.long_len() / 6
                } else {
                    1 + self.r.weighted(&[4, 3, 2, 1])
                };
                let which = self.r.pick(n);
                for i in 0..n {
                    self.var_decl(long && i == which);
                }
                self.t("END_STRUCT");
            }
            1 => {
                self.t("UNION");
                let n = 1 + self.small(3);
                for _ in 0..n {
                    self.var_decl(false);
                }
                self.t("END_UNION");
            }
            2 => {
                // ( A, B := 2, ... ) [base type]
                self.t("(");
                let start = self.here();
                let n = if long { self.long_len() } else { 3 };
                self.enum_values(n);
                self.mark("enum_values", start);
                self.t(")");
                if self.rare(1, 3) {
                    self.pick_t(&["INT", "UINT", "DINT", "BYTE"]);
                }
            }
            3 => {
                // typed enum: base type first (possibly a long qualified name)
                let start = self.here();
                if self.r.flag() {
                    self.pick_t(&["INT", "UINT", "DINT", "BYTE"]);
                } else {
                    let n = if long && self.r.flag() { self.long_len() } else { 1 + 2 * self.small(3) };
                    let s = TYPE_NAMES[self.r.pick(TYPE_NAMES.len())];
                    self.qualified(n, s);
                }
                self.mark("typed_enum_base", start);
                self.t("(");
                let n = if long { self.long_len() } else { 3 };
                self.enum_values(n);
                self.t(")");
            }
            4 => self.type_ref(0, long),
            _ => {
                // subrange alias with a long lower bound: INT ( <expr> .. <expr> )
                self.pick_t(&["INT", "DINT", "UINT", "SINT"]);
                self.t("(");
                let start = self.here();
                let k = if long { self.long_len() } else { 1 };
                let saved = std::mem::replace(&mut self.flat_index, true);
                self.expr(k, 3);
                self.flat_index = saved;
                self.mark("subrange_low", start);
                self.t("..");
                let k = 1 + self.small(3);
                self.expr(k, 3);
                self.t(")");
            }
        }
        if self.rare(1, 6) {
            self.t(":=");
            let k = 1 + self.small(3);
            self.expr(k, 3);
        }
        // the ';' may only be left out in front of END_TYPE (a following entry's name would
        // otherwise be read as the enum's base type)
        if !(last && self.rare(1, 6)) {
            self.t(";");
        }
    }

    fn type_block(&mut self, long: bool) {
        self.t("TYPE");
        let n = 1 + self.r.weighted(&[5, 2, 1]);
        let which = self.r.pick(n);
        for i in 0..n {
            self.type_entry(long && i == which, i + 1 == n);
        }
        self.t("END_TYPE");
    }

    // ---------------------------------------------------------------- statements

    fn short_stmt(&mut self) {
        match self.r.weighted(&[6, 2, 1, 1, 1, 1]) {
            0 => {
                self.ident();
                self.t(":=");
                let k = 1 + self.small(4);
                self.expr(k, 3);
                self.t(";");
            }
            1 => {
                self.ident();
                let k = self.small(4);
                self.arg_list(k, 3);
                self.t(";");
            }
            2 => self.t(";"),
            3 => {
                self.t("RETURN");
                self.t(";");
            }
            4 => {
                self.t("EXIT");
                self.t(";");
            }
            _ => {
                self.t("CONTINUE");
                self.t(";");
            }
        }
    }

    fn body(&mut self, nest: usize, in_case: bool) {
        let n = self.r.weighted(&[2, 5, 3, 1]);
        for _ in 0..n {
            if self.fuel == 0 {
                break;
            }
            if nest < 3 && self.rare(1, 4) {
                self.long_stmt(nest + 1, in_case);
            } else {
                self.short_stmt();
            }
        }
    }

    fn opt_semicolon(&mut self) {
        if self.r.chance(3, 4) {
            self.t(";");
        }
    }

    /// CASE label list of about `n` tokens; `ident_first`: start with a name (the parser
    /// then has to look ahead for the colon to tell the label from a statement).
    fn case_labels(&mut self, n: usize, ident_first: bool) {
        let start = self.here();
        let mut first = true;
        loop {
            let force_ident = first && ident_first;
            first = false;
            match if force_ident { 2 } else { self.r.weighted(&[5, 3, 4, 3, 1, 1, 1]) } {
                0 => self.int_lit(),
                1 => {
                    self.int_lit();
                    self.t("..");
                    self.int_lit();
                }
                2 => self.ident(),
                3 => {
                    let s = TYPE_NAMES[self.r.pick(TYPE_NAMES.len())];
                    self.t(s);
                    self.t(".");
                    self.ident();
                }
                4 => {
                    self.t("-");
                    self.int_lit();
                }
                5 => {
                    self.t("(");
                    let k = 1 + self.small(4);
                    self.expr(k, 3);
                    self.t(")");
                }
                _ => {
                    self.ident();
                    self.t("..");
                    self.ident();
                }
            }
            if self.here() - start >= n || self.fuel == 0 {
                break;
            }
            self.t(",");
        }
        self.mark(if ident_first { "case_labels_name_first" } else { "case_labels" }, start);
        self.t(":");
    }

    /// A statement with a long run in front of its deciding token.
    fn long_stmt(&mut self, nest: usize, in_case: bool) {
        let control_ok = nest < 3;
        let w: [u32; 15] = if control_ok {
            [6, 5, 4, 3, 2, 3, 2, 2, 2, 6, 1, 1, 1, 1, 3]
        } else {
            [6, 5, 4, 3, 2, 0, 0, 0, 0, 0, 1, if in_case { 0 } else { 1 }, 1, 1, 3]
        };
        match self.r.weighted(&w) {
            0 | 14 => {
                // long access path := expr ;
                let start = self.here();
                let n = self.long_len();
                self.path(n, 0, true);
                self.mark("assign_path", start);
                let op = if self.rare(1, 10) { "?=" } else { ":=" };
                self.t(op);
                let k = 1 + self.small(5);
                self.expr(k, 2);
                self.t(";");
            }
            1 => {
                // m[a, a, ..., a] := 0 ;
                let start = self.here();
                self.ident();
                self.t("[");
                let n = self.long_len();
                let istart = self.here();
                loop {
                    let k = 1 + self.r.weighted(&[8, 1, 1]);
                    self.expr(k, 3);
                    if self.here() - istart >= n || self.fuel == 0 {
                        break;
                    }
                    self.t(",");
                }
                self.t("]");
                if self.rare(1, 4) {
                    self.t(".");
                    self.ident();
                }
                self.mark("assign_index", start);
                self.t(":=");
                let k = 1 + self.small(3);
                self.expr(k, 2);
                self.t(";");
            }
            2 => {
                // Ns1.Ns2.F(long argument list);   (no top-level := before the ';')
                let start = self.here();
                let q = if self.rare(1, 3) { self.long_len() } else { 1 + 2 * self.small(3) };
                let name = IDENTS[self.r.pick(IDENTS.len())];
                self.qualified(q, name);
                let n = self.long_len();
                self.arg_list(n, 1);
                self.mark("call_stmt", start);
                self.t(";");
            }
            3 => {
                // x := F(long argument list) ;
                self.ident();
                self.t(":=");
                let start = self.here();
                self.ident();
                let n = self.long_len();
                self.arg_list(n, 1);
                self.mark("assign_call_rhs", start);
                self.t(";");
            }
            4 => {
                // x := long expression ;
                self.ident();
                self.t(":=");
                let start = self.here();
                let n = self.long_len();
                self.expr(n, 0);
                self.mark("assign_long_rhs", start);
                self.t(";");
            }
            5 => {
                self.t("IF");
                let start = self.here();
                let n = self.long_len();
                self.expr(n, 0);
                self.mark("if_cond", start);
                self.t("THEN");
                self.body(nest, false);
                for _ in 0..self.r.weighted(&[5, 2, 1]) {
                    self.t("ELSIF");
                    let start = self.here();
                    let n = if self.r.flag() { self.long_len() } else { 1 + self.small(4) };
                    self.expr(n, 0);
                    self.mark("elsif_cond", start);
                    self.t("THEN");
                    self.body(nest, false);
                }
                if self.rare(1, 3) {
                    self.t("ELSE");
                    self.body(nest, false);
                }
                self.t("END_IF");
                self.opt_semicolon();
            }
            6 => {
                self.t("WHILE");
                let start = self.here();
                let n = self.long_len();
                self.expr(n, 0);
                self.mark("while_cond", start);
                self.t("DO");
                self.body(nest, false);
                self.t("END_WHILE");
                self.opt_semicolon();
            }
            7 => {
                self.t("REPEAT");
                self.body(nest, false);
                self.t("UNTIL");
                let start = self.here();
                let n = self.long_len();
                self.expr(n, 0);
                self.mark("until_cond", start);
                self.t("END_REPEAT");
                self.opt_semicolon();
            }
            8 => {
                self.t("FOR");
                let start = self.here();
                self.ident();
                self.t(":=");
                let which = self.r.pick(3);
                let n = if which == 0 { self.long_len() } else { 1 + self.small(3) };
                self.expr(n, 0);
                self.t("TO");
                let n = if which == 1 { self.long_len() } else { 1 + self.small(3) };
                self.expr(n, 0);
                if which == 2 || self.rare(1, 3) {
                    self.t("BY");
                    let n = if which == 2 { self.long_len() } else { 1 + self.small(3) };
                    self.expr(n, 0);
                }
                self.mark("for_header", start);
                self.t("DO");
                self.body(nest, false);
                self.t("END_FOR");
                self.opt_semicolon();
            }
            9 => {
                self.t("CASE");
                let start = self.here();
                let n = if self.rare(1, 3) { self.long_len() } else { 1 + self.small(4) };
                self.expr(n, 0);
                self.mark("case_selector", start);
                self.t("OF");
                let branches = 1 + self.r.weighted(&[3, 4, 2, 1]);
                let which = self.r.pick(branches);
                for i in 0..branches {
                    let n = if i == which { self.long_len() } else { 1 + self.small(4) };
                    // a later branch that starts with a name needs the colon lookahead
                    let ident_first = i > 0 && self.r.chance(2, 3);
                    self.case_labels(n, ident_first);
                    self.body(nest, true);
                }
                if self.rare(1, 3) {
                    self.t("ELSE");
                    self.body(nest, true);
                }
                self.t("END_CASE");
                self.opt_semicolon();
            }
            10 => {
                self.t("RETURN");
                let start = self.here();
                // RETURN <expr> needs an expression-start token
                let n = self.long_len();
                self.expr(n, 0);
                self.mark("return_expr", start);
                self.t(";");
            }
            11 => {
                // label: statement   /   JMP label;
                self.fresh("L");
                self.t(":");
                self.short_stmt();
                self.t("JMP");
                self.fresh("L");
                self.t(";");
            }
            12 => {
                // direct address / THIS / #x as statement starts, long path
                let start = self.here();
                match self.r.pick(3) {
                    0 => {
                        let s = ADDRS[self.r.pick(ADDRS.len())];
                        self.t(s);
                    }
                    1 => {
                        self.t("THIS");
                        self.t("^");
                        self.t(".");
                        self.ident();
                    }
                    _ => {
                        self.t("SUPER");
                        self.t("^");
                        self.t(".");
                        self.ident();
                    }
                }
                let n = self.long_len();
                let s0 = self.here();
                while self.here() - s0 < n && self.fuel > 0 {
                    if self.r.flag() {
                        self.t("[");
                        self.int_lit();
                        self.t("]");
                    } else {
                        self.t("^");
                    }
                }
                self.mark("assign_special_base", start);
                self.t(":=");
                let k = 1 + self.small(3);
                self.expr(k, 2);
                self.t(";");
            }
            _ => {
                // method call chain as a statement: a.b(x := 1).c(2)^.d();
                let start = self.here();
                self.ident();
                let n = self.long_len();
                while self.here() - start < n && self.fuel > 0 {
                    self.t(".");
                    self.ident();
                    if self.r.flag() {
                        let k = self.small(5);
                        self.arg_list(k, 3);
                    }
                }
                let k = self.small(3);
                self.arg_list(k, 3);
                self.mark("call_chain", start);
                self.t(";");
            }
        }
    }

    fn stmt_list(&mut self, force_long: bool) {
        let n = 1 + self.r.weighted(&[3, 4, 3, 1]);
        let which = if force_long { self.r.pick(n) } else { usize::MAX };
        for i in 0..n {
            if self.fuel == 0 && i > 0 {
                break;
            }
            if i == which || self.rare(1, 4) {
                self.long_stmt(0, false);
            } else {
                self.short_stmt();
            }
        }
    }

    // ---------------------------------------------------------------- POUs

    fn using(&mut self, long: bool) {
        self.t("USING");
        let start = self.here();
        let n = if long { self.long_len() } else { 1 + self.small(5) };
        loop {
            let k = 1 + 2 * self.small(4);
            let s = NS_NAMES[self.r.pick(NS_NAMES.len())];
            self.qualified(k, s);
            if self.here() - start >= n || self.fuel == 0 {
                break;
            }
            self.t(",");
        }
        if long {
            self.mark("using_list", start);
        }
        self.t(";");
    }

    fn extends_implements(&mut self, long: bool) {
        if self.rare(1, 2) {
            self.t("EXTENDS");
            let k = 1 + 2 * self.small(3);
            let s = TYPE_NAMES[self.r.pick(TYPE_NAMES.len())];
            self.qualified(k, s);
        }
        if long || self.rare(1, 3) {
            self.t("IMPLEMENTS");
            let start = self.here();
            let n = if long { self.long_len() } else { 1 + self.small(4) };
            loop {
                let k = 1 + 2 * self.small(3);
                let s = TYPE_NAMES[self.r.pick(TYPE_NAMES.len())];
                self.qualified(k, s);
                if self.here() - start >= n || self.fuel == 0 {
                    break;
                }
                self.t(",");
            }
            if long {
                self.mark("implements_list", start);
            }
        }
    }

    fn access(&mut self) {
        let m = ["PUBLIC", "PRIVATE", "PROTECTED", "INTERNAL"][self.r.pick(4)];
        self.t(m);
    }

    fn method(&mut self, long: bool) {
        // access modifier before or after the METHOD keyword (both are accepted)
        let pos = self.r.weighted(&[3, 1, 1]);
        if pos == 1 {
            self.access();
        }
        self.t("METHOD");
        if pos == 2 {
            self.access();
        }
        if self.rare(1, 6) {
            self.pick_t(&["ABSTRACT", "FINAL"]);
        }
        if self.rare(1, 6) {
            self.t("OVERRIDE");
        }
        self.fresh("Meth");
        if self.rare(1, 2) {
            self.t(":");
            self.type_ref(0, false);
        }
        for _ in 0..self.r.weighted(&[3, 3, 1]) {
            self.var_block(&["VAR", "VAR_INPUT", "VAR_OUTPUT", "VAR_IN_OUT", "VAR_TEMP"], false);
        }
        self.stmt_list(long);
        self.t("END_METHOD");
    }

    fn property(&mut self, long: bool) {
        if self.rare(1, 3) {
            self.access();
        }
        self.t("PROPERTY");
        self.fresh("Prop");
        self.t(":");
        self.type_ref(0, false);
        if self.r.chance(3, 4) {
            self.t("GET");
            self.stmt_list(long);
            self.t("END_GET");
        }
        if self.rare(1, 2) {
            self.t("SET");
            self.stmt_list(false);
            self.t("END_SET");
        }
        self.t("END_PROPERTY");
    }

    fn action(&mut self, long: bool) {
        self.t("ACTION");
        self.fresh("Act");
        self.stmt_list(long);
        self.t("END_ACTION");
    }

    fn program(&mut self, long_kind: usize) {
        let test = self.rare(1, 12);
        self.t(if test { "TEST_PROGRAM" } else { "PROGRAM" });
        self.fresh("Prog");
        if long_kind == 3 || self.rare(1, 10) {
            self.using(long_kind == 3);
        }
        for i in 0..self.r.weighted(&[2, 4, 2]) + usize::from(long_kind == 1) {
            self.var_block(
                &["VAR", "VAR_INPUT", "VAR_OUTPUT", "VAR_IN_OUT", "VAR_TEMP", "VAR_EXTERNAL", "VAR_STAT"],
                long_kind == 1 && i == 0,
            );
        }
        // (no ACTION here: the pinned parser ends a PROGRAM's statement list at the ACTION
        // keyword, so PROGRAM ... ACTION ... END_ACTION END_PROGRAM is not error-free)
        self.stmt_list(long_kind == 0 || long_kind == 3);
        self.t(if test { "END_TEST_PROGRAM" } else { "END_PROGRAM" });
    }

    fn function(&mut self, long_kind: usize) {
        self.t("FUNCTION");
        self.fresh("Fun");
        if self.r.chance(5, 6) {
            self.t(":");
            self.type_ref(0, long_kind == 2);
        }
        if self.rare(1, 10) {
            self.using(false);
        }
        for i in 0..self.r.weighted(&[2, 4, 2]) + usize::from(long_kind == 1) {
            self.var_block(&["VAR", "VAR_INPUT", "VAR_OUTPUT", "VAR_IN_OUT", "VAR_TEMP"], long_kind == 1 && i == 0);
        }
        self.stmt_list(long_kind == 0 || long_kind == 2);
        self.t("END_FUNCTION");
    }

    fn function_block(&mut self, long_kind: usize) {
        let test = self.rare(1, 12);
        self.t(if test { "TEST_FUNCTION_BLOCK" } else { "FUNCTION_BLOCK" });
        if self.rare(1, 8) {
            self.pick_t(&["ABSTRACT", "FINAL"]);
        }
        self.fresh("FB_");
        self.extends_implements(long_kind == 3);
        for i in 0..self.r.weighted(&[2, 4, 2]) + usize::from(long_kind == 1) {
            self.var_block(
                &["VAR", "VAR_INPUT", "VAR_OUTPUT", "VAR_IN_OUT", "VAR_TEMP", "VAR_STAT"],
                long_kind == 1 && i == 0,
            );
        }
        let members = self.r.weighted(&[3, 3, 2, 1]);
        let which = self.r.pick(members.max(1));
        let mut long_done = false;
        for i in 0..members {
            let long_here = long_kind == 0 && i == which;
            long_done |= long_here;
            match self.r.weighted(&[4, 2, 1, 3]) {
                0 => self.method(long_here),
                1 => self.property(long_here),
                2 => self.action(long_here),
                _ => self.stmt_list(long_here),
            }
        }
        if (long_kind == 0 || long_kind == 2) && !long_done {
            self.stmt_list(true);
        }
        self.t(if test { "END_TEST_FUNCTION_BLOCK" } else { "END_FUNCTION_BLOCK" });
    }

    fn class(&mut self, long_kind: usize) {
        self.t("CLASS");
        if self.rare(1, 8) {
            self.pick_t(&["ABSTRACT", "FINAL"]);
        }
        self.fresh("C_");
        self.extends_implements(long_kind == 3);
        for i in 0..self.r.weighted(&[2, 4, 2]) + usize::from(long_kind == 1) {
            self.var_block(&["VAR", "VAR_STAT"], long_kind == 1 && i == 0);
        }
        let members = 1 + self.r.weighted(&[3, 3, 1]);
        let which = self.r.pick(members);
        for i in 0..members {
            let long_here = (long_kind == 0 || long_kind == 2) && i == which;
            if self.r.chance(2, 3) {
                self.method(long_here);
            } else {
                self.property(long_here);
            }
        }
        self.t("END_CLASS");
    }

    fn interface(&mut self, long_kind: usize) {
        self.t("INTERFACE");
        self.fresh("I_");
        if self.rare(1, 2) {
            self.t("EXTENDS");
            let k = if long_kind == 3 { self.long_len() } else { 1 + 2 * self.small(3) };
            let start = self.here();
            let s = TYPE_NAMES[self.r.pick(TYPE_NAMES.len())];
            self.qualified(k, s);
            if long_kind == 3 {
                self.mark("extends_name", start);
            }
        }
        let members = self.r.weighted(&[1, 3, 3, 1]);
        for i in 0..members {
            if self.r.chance(2, 3) {
                if self.rare(1, 4) {
                    self.access();
                }
                self.t("METHOD");
                self.fresh("Meth");
                if self.r.flag() {
                    self.t(":");
                    self.type_ref(0, long_kind == 2 && i == 0);
                }
                for j in 0..self.r.weighted(&[2, 3, 1]) {
                    self.var_block(&["VAR_INPUT", "VAR_OUTPUT", "VAR_IN_OUT"], long_kind <= 1 && i == 0 && j == 0);
                }
                self.t("END_METHOD");
            } else {
                if self.rare(1, 4) {
                    self.access();
                }
                self.t("PROPERTY");
                self.fresh("Prop");
                self.t(":");
                self.type_ref(0, false);
                if self.r.flag() {
                    self.t("GET");
                    self.t("END_GET");
                }
                if self.r.flag() {
                    self.t("SET");
                    self.t("END_SET");
                }
                self.t("END_PROPERTY");
            }
        }
        self.t("END_INTERFACE");
    }

    /// `name[.name | [i,j] | .1]*` as used by VAR_ACCESS / VAR_CONFIG / PROGRAM ... ( ... ).
    fn access_path(&mut self, n: usize) {
        let start = self.here();
        let mut after_number_like = false;
        if self.rare(1, 8) {
            let s = ADDRS[self.r.pick(ADDRS.len())];
            self.t(s);
            after_number_like = true;
        } else {
            self.ident();
        }
        while self.here() - start < n && self.fuel > 0 {
            let w: [u32; 3] = if after_number_like { [0, 1, 0] } else { [6, 2, 1] };
            match self.r.weighted(&w) {
                0 => {
                    self.t(".");
                    self.ident();
                    after_number_like = false;
                }
                1 => {
                    self.t("[");
                    for d in 0..1 + self.r.weighted(&[6, 3, 1]) {
                        if d > 0 {
                            self.t(",");
                        }
                        let k = 1 + self.small(3);
                        self.expr(k, 3);
                    }
                    self.t("]");
                    after_number_like = false;
                }
                _ => {
                    self.t(".");
                    if self.r.flag() {
                        self.pick_t(&["0", "1", "7"]);
                    } else {
                        self.t("%X1");
                    }
                    after_number_like = true;
                }
            }
        }
    }

    fn program_config(&mut self, long: bool) {
        self.t("PROGRAM");
        if self.rare(1, 6) {
            self.pick_t(&["NON_RETAIN", "RETAIN"]);
        }
        self.fresh("inst");
        if self.r.flag() {
            self.t("WITH");
            self.fresh("tsk");
        }
        self.t(":");
        let k = 1 + 2 * self.small(4);
        let s = TYPE_NAMES[self.r.pick(TYPE_NAMES.len())];
        self.qualified(k, s);
        if long || self.r.flag() {
            self.t("(");
            let start = self.here();
            let n = if long { self.long_len() } else { 1 + self.small(8) };
            loop {
                let k = 1 + self.small(if long { 12 } else { 4 });
                self.access_path(k);
                match self.r.weighted(&[3, 2, 1, 1]) {
                    0 => {
                        self.t(":=");
                        let k = 1 + self.small(3);
                        self.expr(k, 3);
                    }
                    1 => {
                        self.t("=>");
                        let k = 1 + self.small(3);
                        self.expr(k, 3);
                    }
                    2 => {
                        self.t("WITH");
                        self.fresh("tsk");
                    }
                    _ => {}
                }
                if self.here() - start >= n || self.fuel == 0 {
                    break;
                }
                self.t(",");
            }
            if long {
                self.mark("program_config_list", start);
            }
            self.t(")");
        }
        if self.r.chance(5, 6) {
            self.t(";");
        }
    }

    fn task_config(&mut self, long: bool) {
        self.t("TASK");
        self.fresh("tsk");
        if long || self.r.chance(3, 4) {
            self.t("(");
            let start = self.here();
            let n = if long { self.long_len() } else { 1 + self.small(8) };
            loop {
                self.pick_t(&["INTERVAL", "PRIORITY", "SINGLE", "WATCHDOG"]);
                self.t(":=");
                let k = if long { 1 + self.small(12) } else { 1 + self.small(3) };
                self.expr(k, 3);
                if self.here() - start >= n || self.fuel == 0 {
                    break;
                }
                self.t(",");
            }
            if long {
                self.mark("task_init", start);
            }
            self.t(")");
        }
        if self.r.chance(5, 6) {
            self.t(";");
        }
    }

    fn var_access_block(&mut self, long: bool) {
        self.t("VAR_ACCESS");
        let n = 1 + self.small(3);
        let which = self.r.pick(n);
        for i in 0..n {
            self.fresh("acc");
            self.t(":");
            let start = self.here();
            let k = if long && i == which { self.long_len() } else { 1 + self.small(6) };
            self.access_path(k);
            if long && i == which {
                self.mark("var_access_path", start);
            }
            self.t(":");
            if self.r.flag() {
                let s = ELEM_TYPES[self.r.pick(ELEM_TYPES.len() - 4)];
                self.t(s);
            } else {
                let k = 1 + 2 * self.small(3);
                let s = TYPE_NAMES[self.r.pick(TYPE_NAMES.len())];
                self.qualified(k, s);
            }
            if self.r.chance(2, 3) {
                self.pick_t(&["READ_ONLY", "READ_WRITE"]);
            }
            self.t(";");
        }
        self.t("END_VAR");
    }

    fn var_config_block(&mut self, long: bool) {
        self.t("VAR_CONFIG");
        let n = 1 + self.small(3);
        let which = self.r.pick(n);
        for i in 0..n {
            let start = self.here();
            let k = if long && i == which { self.long_len() } else { 1 + self.small(6) };
            self.access_path(k);
            if self.rare(1, 3) {
                self.t("AT");
                self.pick_t(&["%IX0.0", "%QW4", "%MD10"]);
            }
            if long && i == which {
                self.mark("var_config_path", start);
            }
            self.t(":");
            if self.r.flag() {
                let s = ELEM_TYPES[self.r.pick(ELEM_TYPES.len() - 4)];
                self.t(s);
            } else {
                let k = 1 + 2 * self.small(3);
                let s = TYPE_NAMES[self.r.pick(TYPE_NAMES.len())];
                self.qualified(k, s);
            }
            if self.rare(1, 3) {
                self.t(":=");
                let k = 1 + self.small(4);
                self.expr(k, 3);
            }
            self.t(";");
        }
        self.t("END_VAR");
    }

    fn configuration(&mut self, long_kind: usize) {
        self.t("CONFIGURATION");
        self.fresh("Conf");
        let items = 1 + self.r.weighted(&[1, 3, 3, 2]);
        let which = self.r.pick(items);
        for i in 0..items {
            let long = i == which;
            match self.r.weighted(&[2, 3, 2, 3, 2, 2]) {
                0 => self.var_block(&["VAR_GLOBAL"], long && long_kind == 1),
                1 => {
                    self.t("RESOURCE");
                    self.fresh("Res");
                    if self.r.chance(2, 3) {
                        self.t("ON");
                        let k = 1 + 2 * self.small(3);
                        self.qualified(k, "PLC");
                    }
                    let inner = 1 + self.small(3);
                    let w2 = self.r.pick(inner);
                    for j in 0..inner {
                        let l2 = long && j == w2;
                        match self.r.weighted(&[1, 3, 3, 1]) {
                            0 => self.var_block(&["VAR_GLOBAL"], l2 && long_kind == 1),
                            1 => self.task_config(l2),
                            2 => self.program_config(l2),
                            _ => self.var_access_block(l2),
                        }
                    }
                    self.t("END_RESOURCE");
                }
                2 => self.task_config(long),
                3 => self.program_config(long),
                4 => self.var_access_block(long),
                _ => self.var_config_block(long),
            }
        }
        self.t("END_CONFIGURATION");
    }

    fn item(&mut self, ns_depth: usize) {
        // what is long in this item: 0 statements, 1 declarations, 2 types, 3 header lists
        let long_kind = self.r.weighted(&[6, 2, 1, 1]);
        let w: [u32; 10] = if ns_depth < 2 {
            [6, 3, 4, 2, 2, 3, 2, 2, 1, 3]
        } else {
            [6, 3, 4, 2, 2, 3, 0, 0, 0, 3]
        };
        match self.r.weighted(&w) {
            0 | 9 => self.program(long_kind),
            1 => self.function(long_kind),
            2 => self.function_block(long_kind),
            3 => self.class(long_kind),
            4 => self.interface(long_kind),
            5 => self.type_block(true),
            6 => {
                self.t("NAMESPACE");
                if self.rare(1, 6) {
                    self.t("INTERNAL");
                }
                let start = self.here();
                let k = if long_kind == 3 { self.long_len() } else { 1 + 2 * self.small(3) };
                let s = NS_NAMES[self.r.pick(NS_NAMES.len())];
                self.qualified(k, s);
                if long_kind == 3 {
                    self.mark("namespace_name", start);
                }
                if self.rare(1, 4) {
                    self.using(false);
                }
                for _ in 0..1 + self.small(2) {
                    if self.fuel == 0 {
                        break;
                    }
                    self.item(ns_depth + 1);
                }
                self.t("END_NAMESPACE");
            }
            7 => {
                if ns_depth == 0 {
                    self.configuration(long_kind);
                } else {
                    self.program(long_kind);
                }
            }
            _ => {
                if ns_depth == 0 {
                    self.using(true);
                } else {
                    self.type_block(true);
                }
            }
        }
    }
}

fn wordy(c: char) -> bool {
    c.is_ascii_alphanumeric() || matches!(c, '_' | '#' | '%' | '\'' | '"' | '$')
}

/// May `a` and `b` be written without a separator? Conservative; the caller re-lexes the
/// joined text anyway.
fn can_abut(a: &str, b: &str) -> bool {
    let (Some(la), Some(fb)) = (a.chars().last(), b.chars().next()) else {
        return false;
    };
    if wordy(la) && wordy(fb) {
        return false;
    }
    match (la, fb) {
        (':', '=')
        | ('<', '>')
        | ('<', '=')
        | ('>', '=')
        | ('*', '*')
        | ('*', ')')
        | ('(', '*')
        | ('/', '/')
        | ('/', '*')
        | ('*', '/')
        | ('.', '.')
        | ('=', '>')
        | ('?', '=')
        | ('&', '&')
        | ('{', _)
        | (_, '}') => false,
        (d, '.') if d.is_ascii_digit() => {
            b == ".." && a.bytes().all(|c| c.is_ascii_digit() || c == b'_')
        }
        ('.', d) if d.is_ascii_digit() => a == ".." || a == ".",
        _ => true,
    }
}

const MIXED_SEPS: &[&str] = &[
    " ", "", "\n", "  ", " (* k *) ", "(* k *)", " {p} ", " // c\n", "\r\n", "\t", "\n    ",
    " /* k */ ", "(* a (* b *) c *)", "\n\n",
];

fn join(toks: &[Tok], style: usize, r: &mut Reader<'_>) -> String {
    let mut out = String::new();
    for (i, t) in toks.iter().enumerate() {
        if i > 0 && !t.glue {
            let prev = toks[i - 1].text.as_str();
            let abut = can_abut(prev, &t.text);
            let after_stmt = matches!(
                prev,
                ";" | "THEN" | "DO" | "OF" | "ELSE" | "END_VAR" | "REPEAT" | "END_TYPE" | "STRUCT"
            );
            match style {
                0 => out.push_str(if after_stmt { "\n" } else { " " }),
                1 => {
                    if !abut {
                        out.push(' ');
                    }
                }
                2 => out.push('\n'),
                _ => {
                    let s = MIXED_SEPS[r.weighted(&[10, 5, 3, 1, 1, 1, 1, 1, 1, 1, 1, 1, 1, 1])];
                    let needs_gap = !abut;
                    // a separator that is empty or starts/ends with a comment delimiter
                    // still needs the tokens to be separable
                    if s.is_empty() {
                        if needs_gap {
                            out.push(' ');
                        }
                    } else if s.starts_with(['(', '/']) && !s.starts_with(' ') {
                        // comment directly attached on both sides: fine unless the previous
                        // token ends in a comment-delimiter character
                        if prev.ends_with(['(', '/', '*']) || t.text.starts_with(['*', ')', '/']) {
                            out.push(' ');
                            out.push_str(s);
                            out.push(' ');
                        } else {
                            out.push_str(s);
                        }
                    } else {
                        out.push_str(s);
                    }
                }
            }
        }
        out.push_str(&t.text);
    }
    if style != 1 {
        out.push('\n');
    }
    out
}

pub const STYLES: &[&str] = &["spaced", "tight", "line_per_token", "mixed_trivia"];

/// Generate one compilation unit. Pure function of the tape.
pub fn generate(tape: &Tape) -> LongText {
    let mut g = G {
        r: Reader::new(tape),
        toks: Vec::new(),
        marks: Vec::new(),
        fuel: 0,
        uniq: 0,
        flat_index: false,
    };
    let style = g.r.weighted(&[4, 4, 1, 3]);
    g.fuel = 60 + g.r.pick(440);
    let items = 1 + g.r.weighted(&[6, 2, 1]);
    for i in 0..items {
        if i > 0 && g.fuel == 0 {
            break;
        }
        g.item(0);
    }
    let G { mut r, toks, marks, .. } = g;
    let text = join(&toks, style, &mut r);
    LongText {
        text,
        tokens: toks.into_iter().map(|t| t.text).collect(),
        constructs: marks,
        style: STYLES[style],
    }
}

/// Kinds of grammar-preserving lengthening fragments for corpus rewrites.
#[derive(Clone, Copy, Debug, PartialEq, Eq)]
pub enum Fragment {
    /// `.f[1].g^ ...` appended to an assignment target
    Selectors,
    /// `, 1, n := 2, ...` inserted before the `)` of a non-empty argument list
    MoreArgs,
    /// `, 101, 102..105, E.A` appended to a CASE label
    MoreLabels,
    /// `, zz1, zz2, ...` appended to the first name of a declaration
    MoreNames,
    /// ` AND (long expression)` appended to a condition
    MoreCondition,
    /// `, ZA, ZB := 7` appended to an enum value
    MoreEnumValues,
}

/// A fragment of about `long_len` tokens (leading separator included), the number of its
/// tokens, and the reader handed back so that the caller can go on drawing from the tape.
pub fn fragment<'a>(kind: Fragment, r: Reader<'a>) -> (String, usize, Reader<'a>) {
    let mut g = G {
        r,
        toks: Vec::new(),
        marks: Vec::new(),
        fuel: 400,
        uniq: 9000,
        flat_index: false,
    };
    let n = g.long_len();
    match kind {
        Fragment::Selectors => {
            while g.here() < n {
                match g.r.weighted(&[6, 3, 1]) {
                    0 => {
                        g.t(".");
                        g.ident();
                    }
                    1 => {
                        g.t("[");
                        let k = 1 + g.small(3);
                        g.expr(k, 3);
                        g.t("]");
                    }
                    _ => g.t("^"),
                }
            }
        }
        Fragment::MoreArgs => {
            while g.here() < n {
                g.t(",");
                g.arg(3);
            }
        }
        Fragment::MoreLabels => {
            while g.here() < n {
                g.t(",");
                match g.r.pick(4) {
                    0 => g.int_lit(),
                    1 => {
                        g.int_lit();
                        g.t("..");
                        g.int_lit();
                    }
                    2 => g.ident(),
                    _ => {
                        g.t("E_Color");
                        g.t(".");
                        g.ident();
                    }
                }
            }
        }
        Fragment::MoreNames => {
            while g.here() < n {
                g.t(",");
                g.fresh("zz");
            }
        }
        Fragment::MoreCondition => {
            g.pick_t(&["AND", "OR", "XOR"]);
            g.t("(");
            g.expr(n, 1);
            g.t(")");
        }
        Fragment::MoreEnumValues => {
            while g.here() < n {
                g.t(",");
                g.fresh("ZE");
                if g.rare(1, 4) {
                    g.t(":=");
                    g.int_lit();
                }
            }
        }
    }
    let style = if g.r.flag() { 0 } else { 1 };
    let G { mut r, toks, .. } = g;
    let count = toks.len();
    let mut s = join(&toks, style, &mut r);
    while s.ends_with('\n') {
        s.pop();
    }
    // the fragment is spliced directly behind a token: `.`/`,`/`[`/`^` abut safely, the
    // keyword of MoreCondition needs a blank
    if kind == Fragment::MoreCondition {
        s.insert(0, ' ');
    }
    (s, count, r)
}
