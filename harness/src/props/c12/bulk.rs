//! C12 - bulk trivia insertion into error-free inputs.
//!
//! An `Edit` describes WHERE trivia is inserted (every token boundary, every k-th, only in
//! front of "deciding" tokens, a long run at one boundary, a window of boundaries, behind
//! every significant token) and WHAT (spaces, newlines, block comments - the three kinds
//! the property names - or, for the crash/lossless oracles only, tabs, line comments,
//! pragmas). The verdict is the property's: the edited text must still be error-free and
//! have the same shape (pre-order node kinds + significant token kinds/texts), provided
//! the lexer did not glue or split a neighbour (decided by re-lexing: the significant
//! token sequence of the edited text must equal the original one).

use serde::{Deserialize, Serialize};
use trust_syntax::lexer::{lex, TokenKind};
use trust_syntax::SyntaxNode;

use super::{check_text_full, Checked};

#[derive(Clone, Debug, Serialize, Deserialize, PartialEq, Eq)]
pub struct Edit {
    pub mode: u8,
    pub filler: u8,
    pub a: u32,
    pub b: u32,
}

/// Fillers the property speaks about: spaces, newlines, block comments (and mixtures).
pub const VERDICT_FILLERS: &[&str] = &[
    " ",
    "   ",
    "\n",
    "\r\n",
    "(* c *)",
    "(* a (* b *) *)",
    "/* c */",
    " (* c *) ",
    "\n(* c *)\n",
    "(**)",
    "\n\n  ",
];
/// Other trivia: judged by the total/lossless/pure oracles only.
pub const OTHER_FILLERS: &[&str] = &["\t", "// lc\n", "{p}", "\r", " {attribute 'x'} ", "\t// t\r\n"];

pub const MODES: &[&str] = &[
    "every_boundary",
    "every_boundary_mixed",
    "every_kth",
    "before_deciding",
    "big_run",
    "window",
    "after_each_significant",
];

pub fn filler_count() -> usize {
    VERDICT_FILLERS.len() + OTHER_FILLERS.len()
}

fn filler_text(i: usize) -> (&'static str, bool) {
    let i = i % filler_count();
    if i < VERDICT_FILLERS.len() {
        (VERDICT_FILLERS[i], true)
    } else {
        (OTHER_FILLERS[i - VERDICT_FILLERS.len()], false)
    }
}

fn mix(a: u32, i: usize) -> u32 {
    let mut x = a ^ (i as u32).wrapping_mul(0x9E37_79B1);
    x ^= x >> 15;
    x = x.wrapping_mul(0x85EB_CA6B);
    x ^= x >> 13;
    x = x.wrapping_mul(0xC2B2_AE35);
    x ^ (x >> 16)
}

fn scale(sel: u32, n: usize) -> usize {
    if n == 0 {
        return 0;
    }
    ((sel as u64 * n as u64) >> 32) as usize
}

/// Tokens in front of which the parser typically has decided (or is about to decide) how
/// the construct to the left is to be read.
fn is_deciding(kind: TokenKind, text: &str) -> bool {
    if matches!(
        text,
        ":=" | "?=" | "=>" | ":" | ";" | ".." | "(" | ")" | "[" | "]" | "," | "." | "^" | "#"
    ) {
        return true;
    }
    let _ = kind;
    let up = text.to_ascii_uppercase();
    matches!(
        up.as_str(),
        "THEN" | "DO" | "OF" | "TO" | "BY" | "UNTIL" | "ELSE" | "ELSIF" | "END_VAR" | "AT" | "WITH"
    ) || up.starts_with("END_")
}

/// A run of `n` trivia TOKENS built from `filler` (whitespace and comments alternate so
/// that the lexer cannot merge them).
fn run_of(filler: &'static str, n: usize) -> String {
    let is_ws = filler.chars().all(|c| matches!(c, ' ' | '\t' | '\r' | '\n'));
    let mut s = String::new();
    for i in 0..n {
        if is_ws {
            if i % 2 == 0 {
                s.push_str(filler);
            } else {
                s.push_str("(* r *)");
            }
        } else {
            // (line-comment fillers carry their own newline)
            s.push_str(filler);
        }
    }
    s
}

pub struct Plan {
    /// (raw-token boundary index i = between raw[i] and raw[i+1], inserted text)
    pub at: Vec<(usize, String)>,
    pub verdict: bool,
    pub mode: &'static str,
    pub what: String,
}

/// Where and what to insert. `raw` = raw tokens of `text` (trivia included).
pub fn plan(text: &str, raw: &[(TokenKind, usize, usize)], e: &Edit) -> Plan {
    let nb = raw.len().saturating_sub(1);
    let mode = e.mode as usize % MODES.len();
    let (filler, mut verdict) = filler_text(e.filler as usize);
    let mut at: Vec<(usize, String)> = Vec::new();
    let mut what = format!("{filler:?}");
    match mode {
        0 => {
            for i in 0..nb {
                at.push((i, filler.to_string()));
            }
        }
        1 => {
            // a different filler at every boundary (some boundaries left alone)
            let pool = if verdict { VERDICT_FILLERS.len() } else { filler_count() };
            verdict = pool == VERDICT_FILLERS.len();
            for i in 0..nb {
                let x = mix(e.a, i);
                if x % 5 == 0 {
                    continue;
                }
                let (f, _) = filler_text((x / 5) as usize % pool);
                at.push((i, f.to_string()));
            }
            what = if verdict { "mixed spaces/newlines/block comments".into() } else { "mixed trivia of every kind".into() };
        }
        2 => {
            let k = 2 + (e.a as usize % 15);
            let off = e.b as usize % k;
            for i in 0..nb {
                if i % k == off {
                    at.push((i, filler.to_string()));
                }
            }
            what = format!("{filler:?} at every {k}th boundary (offset {off})");
        }
        3 => {
            // in front of deciding tokens: all of them, or only one
            let reps = 1 + (e.a as usize % 8);
            let run = run_of(filler, reps);
            let mut cands = Vec::new();
            for i in 0..nb {
                let (k, s, en) = raw[i + 1];
                if !k.is_trivia() && is_deciding(k, &text[s..en]) {
                    cands.push(i);
                }
            }
            if e.b % 2 == 0 {
                for i in cands {
                    at.push((i, run.clone()));
                }
                what = format!("{reps} x {filler:?} before every deciding token");
            } else if !cands.is_empty() {
                let i = cands[scale(e.b, cands.len())];
                let (_, s, en) = raw[i + 1];
                at.push((i, run));
                what = format!("{reps} x {filler:?} before the deciding token {:?} at byte {s}", &text[s..en]);
            }
        }
        4 => {
            if nb > 0 {
                let i = scale(e.a, nb);
                let n = 1 + (e.b as usize % 300);
                at.push((i, run_of(filler, n)));
                what = format!("a run of {n} x {filler:?} at one boundary (byte {})", raw[i].2);
            }
        }
        5 => {
            if nb > 0 {
                let s = scale(e.a, nb);
                let w = 4 + (e.b as usize % 200);
                for i in s..(s + w).min(nb) {
                    at.push((i, filler.to_string()));
                }
                what = format!("{filler:?} at {w} consecutive boundaries from byte {}", raw[s].2);
            }
        }
        _ => {
            let reps = 1 + (e.a as usize % 3);
            let run = run_of(filler, reps);
            for i in 0..nb {
                if !raw[i].0.is_trivia() {
                    at.push((i, run.clone()));
                }
            }
            what = format!("{reps} x {filler:?} behind every significant token");
        }
    }
    Plan {
        at,
        verdict,
        mode: MODES[mode],
        what,
    }
}

pub fn apply(text: &str, raw: &[(TokenKind, usize, usize)], at: &[(usize, String)]) -> String {
    let extra: usize = at.iter().map(|(_, s)| s.len()).sum();
    let mut out = String::with_capacity(text.len() + extra);
    let mut prev = 0usize;
    for (i, s) in at {
        let pos = raw[*i].2;
        out.push_str(&text[prev..pos]);
        out.push_str(s);
        prev = pos;
    }
    out.push_str(&text[prev..]);
    out
}

/// Same significant (non-trivia) token sequence?
fn same_significant(
    a_text: &str,
    a: &[(TokenKind, usize, usize)],
    b_text: &str,
    b: &[(TokenKind, usize, usize)],
) -> bool {
    let mut ia = a.iter().filter(|t| !t.0.is_trivia());
    let mut ib = b.iter().filter(|t| !t.0.is_trivia());
    loop {
        match (ia.next(), ib.next()) {
            (None, None) => return true,
            (Some(x), Some(y)) => {
                if x.0 != y.0 || a_text[x.1..x.2] != b_text[y.1..y.2] {
                    return false;
                }
            }
            _ => return false,
        }
    }
}

/// Would inserting `ins` between raw tokens i and i+1 leave both neighbours as they are?
/// (Decided by re-lexing the pair.)
fn boundary_ok(text: &str, raw: &[(TokenKind, usize, usize)], i: usize, ins: &str) -> bool {
    let (lk, ls, le) = raw[i];
    let (rk, rs, re) = raw[i + 1];
    let mut s = String::with_capacity(le - ls + ins.len() + re - rs);
    s.push_str(&text[ls..le]);
    s.push_str(ins);
    s.push_str(&text[rs..re]);
    let toks: Vec<(TokenKind, usize, usize)> = lex(&s)
        .into_iter()
        .map(|t| (t.kind, usize::from(t.range.start()), usize::from(t.range.end())))
        .collect();
    let want: Vec<(TokenKind, &str)> = [(lk, &text[ls..le]), (rk, &text[rs..re])]
        .into_iter()
        .filter(|(k, _)| !k.is_trivia())
        .collect();
    let got: Vec<(TokenKind, &str)> = toks
        .iter()
        .filter(|t| !t.0.is_trivia())
        .map(|t| (t.0, &s[t.1..t.2]))
        .collect();
    want == got
}

/// Shape signature: pre-order node kinds and significant token kinds/texts, as bytes.
pub fn shape_sig(node: &SyntaxNode) -> Vec<u8> {
    let mut out = Vec::with_capacity(4096);
    for ev in node.preorder_with_tokens() {
        if let rowan::WalkEvent::Enter(el) = ev {
            match el {
                rowan::NodeOrToken::Node(n) => {
                    out.push(b'N');
                    out.extend_from_slice(&(n.kind() as u16).to_le_bytes());
                }
                rowan::NodeOrToken::Token(t) => {
                    let k = t.kind();
                    if k.is_trivia() {
                        continue;
                    }
                    out.push(b'T');
                    out.extend_from_slice(&(k as u16).to_le_bytes());
                    out.extend_from_slice(t.text().as_bytes());
                    out.push(0);
                }
            }
        }
    }
    out
}

pub struct Base<'a> {
    pub text: &'a str,
    pub checked: &'a Checked,
    pub sig: Vec<u8>,
}

pub enum Outcome {
    /// shape verdict reached (number of insertion points)
    Judged(usize),
    /// only the total/lossless/pure oracles apply (filler outside the property's three kinds)
    CrashOnly,
    /// the lexer would glue or split a neighbour: no verdict
    LexingChanged,
    /// the edit has no insertion point in this text
    Empty,
}

fn snippet(s: &str, at: usize, radius: usize) -> String {
    let mut a = at.saturating_sub(radius).min(s.len());
    while !s.is_char_boundary(a) {
        a -= 1;
    }
    let mut b = (at + radius).min(s.len());
    while !s.is_char_boundary(b) {
        b += 1;
    }
    s[a..b].to_string()
}

pub fn check_edit(base: &Base<'_>, e: &Edit) -> Result<(Outcome, &'static str, bool), String> {
    let raw = &base.checked.tokens;
    let mut p = plan(base.text, raw, e);
    if p.at.is_empty() {
        return Ok((Outcome::Empty, p.mode, p.verdict));
    }
    let mut edited = apply(base.text, raw, &p.at);
    // every string has to satisfy the basic oracles
    let mut checked = check_text_full(&edited).map_err(|m| format!("after inserting {} [{}]: {m}", p.what, p.mode))?;
    if !p.verdict {
        return Ok((Outcome::CrashOnly, p.mode, false));
    }
    if !same_significant(base.text, raw, &edited, &checked.tokens) {
        // drop the boundaries where the lexer would glue/split the neighbours, retry once
        let before = p.at.len();
        p.at.retain(|(i, s)| boundary_ok(base.text, raw, *i, s));
        if p.at.is_empty() || p.at.len() == before {
            return Ok((Outcome::LexingChanged, p.mode, true));
        }
        edited = apply(base.text, raw, &p.at);
        checked = check_text_full(&edited).map_err(|m| format!("after inserting {} [{}]: {m}", p.what, p.mode))?;
        if !same_significant(base.text, raw, &edited, &checked.tokens) {
            return Ok((Outcome::LexingChanged, p.mode, true));
        }
    }
    if !checked.parse.ok() {
        let err = &checked.parse.errors()[0];
        let at = usize::from(err.range.start());
        return Err(format!(
            "error-free input gets {} syntax error(s) after inserting {} [{}; {} insertion points]: first: {} near {:?}",
            checked.parse.errors().len(),
            p.what,
            p.mode,
            p.at.len(),
            err,
            snippet(&edited, at, 60)
        ));
    }
    let sig = shape_sig(&checked.parse.syntax());
    if sig != base.sig {
        let a = super::shape(&base.checked.parse.syntax());
        let b = super::shape(&checked.parse.syntax());
        let d = a.iter().zip(b.iter()).position(|(x, y)| x != y).unwrap_or(a.len().min(b.len()));
        return Err(format!(
            "tree shape changes after inserting {} [{}; {} insertion points]: first difference at pre-order index {d}: {:?} vs {:?}",
            p.what,
            p.mode,
            p.at.len(),
            a.get(d),
            b.get(d)
        ));
    }
    Ok((Outcome::Judged(p.at.len()), p.mode, true))
}
