//! C12 - grammar-preserving lengthening of corpus programs: a construct of an error-free
//! corpus file gets a long run in front of its deciding token (assignment target gets
//! more selectors, an argument list more arguments, a CASE label more labels, a
//! declaration more names, a condition one more conjunct, an enum more values). The
//! result is kept only if it is still error-free.

use trust_syntax::parser::parse;
use trust_syntax::{SyntaxKind, SyntaxNode};

use super::longgen::{fragment, Fragment};
use crate::engine::tape::Reader;

fn last_significant_end(node: &SyntaxNode) -> Option<usize> {
    let mut last = None;
    for el in node.descendants_with_tokens() {
        if let rowan::NodeOrToken::Token(t) = el {
            if !t.kind().is_trivia() {
                last = Some(usize::from(t.text_range().end()));
            }
        }
    }
    last
}

fn first_child_node(node: &SyntaxNode) -> Option<SyntaxNode> {
    node.children().next()
}

const KINDS: &[(Fragment, &str)] = &[
    (Fragment::Selectors, "assign_target_selectors"),
    (Fragment::MoreArgs, "more_arguments"),
    (Fragment::MoreLabels, "more_case_labels"),
    (Fragment::MoreNames, "more_declared_names"),
    (Fragment::MoreCondition, "longer_condition"),
    (Fragment::MoreEnumValues, "more_enum_values"),
];

/// Insertion offsets for one kind of rewrite.
fn candidates(root: &SyntaxNode, kind: Fragment) -> Vec<usize> {
    let mut out = Vec::new();
    for n in root.descendants() {
        let at = match (kind, n.kind()) {
            (Fragment::Selectors, SyntaxKind::AssignStmt) => {
                first_child_node(&n).and_then(|lhs| last_significant_end(&lhs))
            }
            (Fragment::MoreArgs, SyntaxKind::ArgList) => n
                .children()
                .filter(|c| c.kind() == SyntaxKind::Arg)
                .last()
                .and_then(|a| last_significant_end(&a)),
            (Fragment::MoreLabels, SyntaxKind::CaseLabel) => last_significant_end(&n),
            (Fragment::MoreNames, SyntaxKind::VarDecl) => n
                .children()
                .find(|c| c.kind() == SyntaxKind::Name)
                .and_then(|a| last_significant_end(&a)),
            (Fragment::MoreCondition, SyntaxKind::IfStmt)
            | (Fragment::MoreCondition, SyntaxKind::WhileStmt)
            | (Fragment::MoreCondition, SyntaxKind::ElsifBranch) => {
                first_child_node(&n).and_then(|c| last_significant_end(&c))
            }
            (Fragment::MoreEnumValues, SyntaxKind::EnumValue) => last_significant_end(&n),
            _ => None,
        };
        if let Some(at) = at {
            out.push(at);
        }
    }
    out
}

pub struct Lengthened {
    pub text: String,
    pub kind: &'static str,
    /// tokens added
    pub added: usize,
}

/// One rewrite of `text` (which must be error-free). `Err(kind)` = no candidate, or the
/// result was not error-free (the rewrite is dropped).
pub fn lengthen<'a>(text: &str, mut r: Reader<'a>) -> (Result<Lengthened, &'static str>, Reader<'a>) {
    let k0 = r.pick(KINDS.len());
    let p = parse(text);
    if !p.ok() {
        return (Err("base_not_error_free"), r);
    }
    // the drawn kind, or the next one that has a candidate in this file
    let root = p.syntax();
    let mut found = None;
    for j in 0..KINDS.len() {
        let (kind, name) = KINDS[(k0 + j) % KINDS.len()];
        let cands = candidates(&root, kind);
        if !cands.is_empty() {
            found = Some((kind, name, cands));
            break;
        }
    }
    let Some((kind, name, cands)) = found else {
        return (Err("no_candidate"), r);
    };
    let at = cands[r.pick(cands.len())];
    let (frag, added, r) = fragment(kind, r);
    if !text.is_char_boundary(at) {
        return (Err("no_candidate"), r);
    }
    let mut out = String::with_capacity(text.len() + frag.len());
    out.push_str(&text[..at]);
    out.push_str(&frag);
    out.push_str(&text[at..]);
    if !parse(&out).ok() {
        return (Err("rewrite_not_error_free"), r);
    }
    (
        Ok(Lengthened {
            text: out,
            kind: name,
            added,
        }),
        r,
    )
}
